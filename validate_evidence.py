#!/usr/bin/env python3
import json, sys, glob, jsonschema
schema = json.load(open('/root/.vp/EVIDENCE.schema.json'))
bad = 0
for f in sorted(glob.glob('/verif/evidence/*.json')):
    try:
        jsonschema.validate(json.load(open(f)), schema); print('ok ', f)
    except Exception as e:
        bad += 1; print('BAD', f, str(e)[:300])
sys.exit(1 if bad else 0)
