#!/usr/bin/env python3
"""Independent JSON Schema oracle for C13: python-jsonschema, Draft 2020-12, format assertions off.

Line protocol on stdin/stdout: one JSON object {"schema": ..., "instances": [...]} per line in,
one JSON list of true/false (or null when the schema itself is rejected by the validator's metaschema
check or the validator raises) per line out."""
import sys, json
from jsonschema import Draft202012Validator

def main():
    for line in sys.stdin:
        line = line.strip()
        if not line:
            continue
        try:
            c = json.loads(line)
            schema = c["schema"]
            try:
                Draft202012Validator.check_schema(schema)
                v = Draft202012Validator(schema)
                out = []
                for i in c["instances"]:
                    try:
                        out.append(bool(v.is_valid(i)))
                    except Exception:
                        out.append(None)
            except Exception:
                out = [None] * len(c["instances"])
        except Exception:
            out = None
        sys.stdout.write(json.dumps(out) + "\n")
        sys.stdout.flush()

if __name__ == "__main__":
    main()
