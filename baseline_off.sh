#!/bin/bash
# Runs the repository's stable baseline with the verif guard OFF and compares with BASELINE.json.
# usage: ./baseline_off.sh [repo-dir]   (default /repo)
set -u
REPO=${1:-/repo}
export GOFLAGS=-mod=mod GOPROXY=off
LOG=$(mktemp /var/tmp/verif-baseline.XXXXXX.json)
trap 'rm -f "$LOG"' EXIT
(cd "$REPO" && go test -mod=mod -json -vet=off -count=1 -timeout 25m ./...) >"$LOG" 2>/dev/null
python3 - "$LOG" <<'PY'
import json,sys
passed=set();failed=set()
for line in open(sys.argv[1],errors='replace'):
    line=line.strip()
    if not line.startswith('{'): continue
    try: ev=json.loads(line)
    except Exception: continue
    a=ev.get('Action');t=ev.get('Test');pkg=ev.get('Package','')
    if t is None or a not in('pass','fail'): continue
    (passed if a=='pass' else failed).add(pkg+'::'+t)
passed-=failed
base=set(json.load(open('/root/.vp/BASELINE.json'))['stable_pass'])
missing=sorted(base-passed)
# TestSortRandom subtests are named after PRNG values and differ from run to run
hard=[m for m in missing if 'TestSortRandom' not in m]
print(f"baseline stable={len(base)} passed_now={len(passed)} failed_now={len(failed)} stable_missing={len(missing)} (excluding randomly named TestSortRandom subtests: {len(hard)})")
for m in hard[:40]: print("  MISSING", m)
for m in sorted(failed)[:40]: print("  FAILED", m)
sys.exit(1 if hard else 0)
PY
