#!/usr/bin/env python3
"""Regenerates /verif/MANIFEST.json from the table below and validates it against the schema."""
import json, subprocess, sys
BASE = json.load(open('/root/.vp/BASELINE.json'))
hook_commits = subprocess.run(['git','-C','/repo','log','--format=%H','--grep=internal/verifhook'],capture_output=True,text=True).stdout.split()

# id -> (level, technique, level text, level note, design ref)
CHECKS = {
 'C02': ('exploration', 'process-fate monitor: every input runs the whole pipeline in isolated worker processes under a write-ahead protocol, recover(), a per-input watchdog (re-confirmed alone) and an address-space limit; crash dumps are reduced to call-site / recursion-cycle signatures; output digests are compared across two in-process runs and a second process; a sample goes through the real cue binary',
   '5k mutated corpus inputs and token soups, 2.5k generated programs, 1.5k rearranged evaluator testdata files (frozen stream), deep nestings and adversarial seeds in quick; 150k/60k/20k in thorough.',
   'Bounded time/memory is an envelope (30 s re-confirmed with 90 s, 6 GiB address space) for inputs <= 4 KiB. Crash findings are keyed by call-site signature, hang findings by the rearranged testdata file.', 'DESIGN.md §4 C02'),
 'C07': ('exploration', 'metamorphic runtime monitor in isolated worker processes: Syntax(profile) -> format -> parse -> compile -> evaluate, observation of the re-evaluated value compared with the observation of the printed value under the projection of the profile; cue eval / export --out cue / def on a sample',
   '1.5k/40k generated programs (whole value and sub-values taken out of scope) + the calibrated part of the evaluator corpus, 6 option profiles each.',
   'Programs with an error anywhere are outside the statement. The exporter helper definition _#def is not part of the observation. Three recorded findings matched by class.', 'DESIGN.md §4 C07'),
 'C19': ('exploration', 'Go race detector over repeated concurrent workloads in isolated -race worker processes (GORACE logs parsed and de-duplicated by stack pair) + per-call result fingerprints compared with a sequential baseline computed in other processes + re-fingerprinting of the shared value afterwards + fresh-label rounds for logic races the detector cannot see',
   '150/3000 programs x 3-6 goroutine counts (2-16), values unevaluated or evaluated at the start, every third goroutine building the program in its own context; 16/64 fresh-label cases of 400/3000 rounds.',
   'The race detector sees executed accesses only. Error text is part of the Validate/Err fingerprints.', 'DESIGN.md §4 C19'),
 'C20': ('exploration', 'metamorphic runtime monitor in isolated worker processes: final observation per top-level field before and after trim.Files, re-parse/re-compile of the trimmed files, second trim must be a no-op; cue trim in place on a sample',
   '4k/60k generated packages (schema packages with implied/overriding/conflicting data, C01 programs augmented with copies of their own evaluated values, 1-3 files) + the trim testdata inputs.',
   'trim refuses packages with evaluation errors, so the "same errors" clause is exercised only through fields that stay incomplete. One recorded finding (not a fixpoint with duplicate declarations).', 'DESIGN.md §4 C20'),
 'C04': ('exploration', 'reference-model monitor over enumerated and sampled executions: an executable model of the spec value/default-pair rules (M0/M1, D0-D2, U0-U2) decides bottom-ness, probe acceptance, concreteness/ambiguity and the resolved default of each evaluated expression',
   'Exhaustive depth-2 width-2 expressions over 6 leaves + all A & B over the depth-1 width<=3 expressions over {1,2,int} in quick (174k); all 11 leaves, width 3 and A & B & C in thorough; 10k/200k PRNG depth-3 expressions, half over small per-expression leaf pools (duplicate terms).',
   'Three recorded findings are matched by model-defined expression classes; within them only default-related disagreement is tolerated (the static class must agree with a variant model exactly), value-set disagreement always alarms.', 'DESIGN.md §4 C04'),
 'C05': ('exploration', 'reference-model monitor over enumerated and sampled executions: `schema & data` validated by the evaluator and by an independent membership checker (closing events = definition references and close() calls, embeddings widen, required/optional/pattern constraints); result field tree, Allows() and the same schema reached through a regular field compared as well',
   'Exhaustive single-conjunct schemas without nesting x all flat data (18k pairs quick, 389k thorough); 250k/4M PRNG cases of 1-3 conjuncts to depth 3 with schema-guided data; 150k/2M deep-chain cases (nested literal/close()/definition chains under a body with a flat embedding).',
   'Cases in which an embedded struct has struct-valued fields are compared and counted but not alarmed (the spec does not determine nested closedness under embeddings). Four recorded findings: a disagreement is attributed to one only if the evaluator agrees exactly with the corresponding model variant; their witnesses are re-run on every check.', 'DESIGN.md §4 C05'),
 'C03': ('exploration', 'reference-model monitor over enumerated and sampled executions (set model of constraints vs evaluator, E and E&atom for every atom)',
   'Exhaustive for conjunctions of <=2 constraints over the full alphabet x every atom (|E|=3 numeric sub-alphabet in thorough), PRNG-sampled beyond, plus large-magnitude/high-precision bounds probed at +-1 ulp and predeclared ranges probed around their limits; a finite set model decides each observed evaluation. Universal only inside the enumerated sub-space.',
   'Trusts the 150-line set model (written from the statement/spec), Go regexp for =~, and cue.Value accessors used to read results back.', 'DESIGN.md §4 C03'),
 'C08': ('exploration', 'runtime monitor around format.Source: input and output are re-scanned (cue/scanner, comment mode, interpolations resumed) and their normalised token streams must be equal - every token, literal value and comment keeps its neighbours -, the output must parse and be a fixpoint',
   'frozen corpus (3.2k parseable sources) + 80k/1.5M layout/comment mutants of comment-free corpus files and generated programs (8 mutation kinds, 1-3 per input, comments only in the admitted position classes) + 40k/600k generated multi-line string/bytes literals (all quote forms, whitespace-only and over-indented lines).',
   '25 corpus files on which the pinned formatter deviates are listed by name and class (8 recorded findings). Comment positions outside the admitted classes (before a closing bracket, inside comprehension clause lists, inside multi-line expressions) are not generated: the formatter moves such comments (DESIGN.md). -s is not exercised.', 'DESIGN.md §4 C08'),
 'C10': ('exploration', 'generator-ground-truth monitor: data trees written as CUE and as JSON documents (PRNG escape/whitespace/number spellings); Value.MarshalJSON, json.Marshal/Unmarshal builtins, json.Extract/Valid/NewDecoder observed and compared with the ground truth, encoding/json as independent reader; invalid neighbours must be rejected',
   '10k/300k data trees per run, each through the marshal, extract, re-marshal, stream and builtin paths plus one invalid mutant.',
   'Duplicate keys with different values and unpaired surrogates (unpredictable per RFC 8259) are not generated. One recorded finding (raw BOM inside a JSON string).', 'DESIGN.md §4 C10'),
 'C11': ('exploration', 'generator-ground-truth monitor: yaml.Encode -> yaml.Extract -> evaluate compared with the tree that was encoded; failing trees are shrunk to the single strings/keys that fail on their own; JSON documents through the YAML decoder; yaml.Marshal/Unmarshal builtins; two independent YAML libraries as recorded second opinions',
   '30k/600k trees with the adversarial string pool (incl. multi-line strings with blank, tab-only and padded lines) as scalars and keys through the default (goccy) implementation; the yaml.v3 implementation (CUE_EXPERIMENT=yamlgoccy=0) runs in a recorded, non-alarming stream.',
   'The yaml.v3 path is not alarmed (not the default since v0.18). One recorded finding (tab as JSON whitespace refused by the YAML parser).', 'DESIGN.md §4 C11'),
 'C12': ('exploration', 'runtime monitoring of the real cue binary (built from the working tree, private directory/HOME/cache per case): exit status, stdout and produced files of every export/import invocation compared with the ground truth the data generator carries',
   '300/6000 concrete packages (adversarial string pool, big and exponent numbers, TOML-shaped packages with prefix-related keys, arrays of tables, dotted/quoted keys) x ~15 invocations: export --out json (file, package, -e, --escape), export to json/yaml/toml/cue via --out, -o file.ext and -o enc:file, import, export --out json; failing packages x 4 encodings; TOML-unrepresentable values must be refused.',
   'Strings with U+FEFF are left to C10 (recorded there). One genuine defect repaired (fix: TOML encoder refuses null / out-of-range numbers).', 'DESIGN.md §4 C12'),
 'C13': ('exploration', 'independent-oracle monitor: every (schema, instance) verdict of the generated CUE is compared with python-jsonschema (Draft 2020-12) running in a pool of child processes; the schema generated back by jsonschema.Generate is judged by the same oracle; every disagreement is shrunk to a minimal schema and keyed by root-cause class or keyword set and direction',
   '2.5k/40k schemas of a frozen stream over the whole keyword list (its disagreement classes on the pinned tree are all recorded, a new class is a violation) + 2.5k/60k seed-dependent schemas of the fragment without recorded disagreements, 14 schema-guided and random instances each, both directions.',
   'Trusts python-jsonschema; regular expressions and numbers restricted to the common subset. 24 recorded disagreement classes (the importer itself lists several in its external-test skip lists). Import errors are counted as unsupported.', 'DESIGN.md §4 C13'),
 'C14': ('exploration', 'runtime monitoring of instrumented Reqs callbacks (event log: call counts, concurrency, visit orders) under permuted lists and injected latencies with the race detector; results compared with a sequential fixpoint model; semver against an independent SemVer 2.0 model + order axioms',
   'Random requirement graphs, each run under several (permutation x latency) schedules with -race; BuildList/Req/Upgrade/UpgradeAll/Graph decided by a brute-force closure, Downgrade by invariants; semver on random valid/near-valid triples.',
   'Trusts the brute-force closure and the SemVer model (unit-tested against the semver.org examples); schedules are the ones the Go scheduler produced under the injected latencies.', 'DESIGN.md §4 C14'),
 'C17': ('exploration', 'runtime monitoring of modload.Tidy behind an instrumented in-memory registry (call log, PRNG latencies, concurrency high-water mark) under the race detector, 4 schedules x permuted sources per universe; results decided by invariants over the generated universe (pruned-graph MVS consistency, import closure, no unused entry, justified versions, fixpoint, CheckTidy, schedule independence, expected errors); module files: Parse(Format(f)) == f and malformed files rejected',
   '1.2k/20k universes of 2-6 modules x 3 versions (majors, pre-releases, tidy published modules; simple/stale/missing/ambiguous/no-major main modules) x 4 schedules with -race; 3k/100k generated module files + 16 malformed files.',
   'MVS consistency is checked in the pruned module graph cue uses (roots and their explicit requirements). Versions above the minimum that are residues of intermediate states are accepted (upgrades are never undone); agreement with the brute-force resolver is recorded only. One genuine defect repaired (fix: tidy re-resolution).', 'DESIGN.md §4 C17'),
 'C01': ('exploration', 'metamorphic runtime monitor: every program and each of its meaning-preserving rearrangements is evaluated in isolated worker processes (write-ahead log, watchdog) and observed through the public cue.Value API; observations must be equal',
   '1.5k (quick) / 25k (thorough) PRNG programs of the acyclic core fragment x 4-8 rearrangements + multi-file partition, plus the calibrated part of the frozen evaluator corpus with frozen rearrangements.',
   'Equivalence is observational (kinds, values, defaults, closedness, optional/required, new-field constraints, probe-atom acceptance, error class per path). Fields that depend on a field erroneous in both programs are not compared. Two recorded findings matched by class.', 'DESIGN.md §4 C01'),
 'C06': ('exploration', 'reference-oracle monitor: every evaluated a op b, div/mod/quo/rem, comparison, literal and math builtin compared with a math/big oracle; order axioms on triples; print→read round trips',
   'Exhaustive over a boundary operand set (signs, 0, ±1..3, halves, 2^53/2^63/2^64/10^34±1/2^127/2^128) × itself, PRNG beyond (1-300 digit integers, decimals with exponents); literals generated from the spec grammar with their exact value.',
   'Trusts math/big, the 34-digit documented precision for /, and the literal generator (written from spec §Numeric literals). Two recorded findings (decimal + - * rounded to 34 digits; fractional SI literals rejected) are matched by exact class.', 'DESIGN.md §4 C06'),
 'C09': ('exploration', 'runtime monitors around the parser (recover + watchdog + crash-dump classifier with write-ahead input file, position-invariant walker, agreement with literal/ast) and around literal.Form.Quote (round trip through Unquote, parser and evaluator)',
   'All quoting forms × all strings of ≤2 elements over a 40-element hostile alphabet exhaustively, PRNG strings beyond; 30k (quick) / 1M (thorough) parser inputs from corpus mutations, token soups, single candidate literals and deep nestings.',
   'Containment/sibling-order invariants are required of accepted inputs only; partial trees returned next to errors are checked for bounds and start<=end. Labels are compared after NFC normalisation (what the compiler does).', 'DESIGN.md §4 C09'),
 'C15': ('exploration', 'file-system snapshot monitor (Lstat walk with type/size/mode/sha256 before and after) around modzip.Unzip inside a sandbox root with sentinels; round-trip oracle; three-way checker agreement',
   'PRNG acceptable trees (round trip incl. 16MiB±1 LICENSE/module.cue with real bytes) and hostile archives (mutated names, mode bits, forged declared sizes via CreateRaw, Store and Deflate).',
   'Runs as root on Linux; containment is judged from the observed file system state, not from return values. Four documented-difference classes between the checkers are recorded findings.', 'DESIGN.md §4 C15'),
 'C16': ('fault_enumeration', 'crash-point enumeration through build-tag hooks (kill at the n-th hook, inspect, recover), crash pairs, registry fault injection over a loopback OCI stack, multi-process concurrent histories checked offline with porcupine (nondeterministic model, open operations kept open), race detector, strace kill-injection at every file-system syscall as hook-independent cross-check',
   'Every hook point of Fetch+ModFile is a crash point (exhaustive); pairs sampled in quick and exhaustive in thorough; faults at several body offsets; 20/500 concurrent histories.',
   'Crashes are process kills (no power loss); each process owns an in-memory registry with identical deterministic content; linearizability model = per-version absent/present.', 'DESIGN.md §4 C16'),
 'C18': ('exploration', 'event-log monitor: instrumented Runners record start/end with a global sequence number and the inputs they saw (unique tokens derived from inputs); completion order driven logically through per-task gates from UpdateFunc; offline ordering / at-most-once / completeness / final-value checker; race detector',
   'PRNG DAGs (struct and list tasks, 6 reference shapes, dynamic tasks) × 12/120 schedules each (one-at-a-time, racing completions, free running, adversarial orders), failures/ErrAbort injected, cyclic variants.',
   'Dependency ground truth is the reference list of the generator; hang = 60 s watchdog re-confirmed at 120 s.', 'DESIGN.md §4 C18'),
}
ALL = [json.loads(l)['id'] for l in open('/verif/properties.jsonl')]
NA_REASON = {}
checks = []
for pid in ALL:
    if pid not in CHECKS: continue
    level, tech, text, note, ref = CHECKS[pid]
    checks.append({
        'property_id': pid,
        'quick_cmd': f'./check {pid} quick',
        'thorough_cmd': f'./check {pid} thorough',
        'evidence_file': f'/verif/evidence/{pid}.json',
        'replay_cmd_template': f'./check {pid} --replay {{path}}',
        'engine': 'vcheck',
        'level_claimed': {'category': level, 'text': text, 'design_ref': ref},
        'level_note': note,
        'technique': tech,
    })
na = [{'property_id': p, 'reason': NA_REASON.get(p, 'monitor not built yet in this session (claimed in DESIGN.md; will be registered once silent on the unchanged tree at several seeds)')} for p in ALL if p not in CHECKS]
m = {
 'version': 1,
 'setup_cmd': './setup',
 'hooks': {'guard': 'verif', 'enable': 'go build -tags verif (the check script passes -tags verif to every build of the harness and of cmd/cue)',
           'baseline_off_cmd': BASE['cmd'], 'source_commits': hook_commits, 'add_only': True},
 'engines': [
   {'name': 'jsonschema_oracle', 'path': '/verif/oracles/jsonschema_oracle.py', 'serves_properties': ['C13'], 'kind_free_text': 'python-jsonschema (Draft 2020-12) behind a line protocol, run with python3-vt as a pool of child processes of the C13 monitor; the independent reference for JSON Schema validity'},
   {'name': 'vcheck', 'path': '/verif/harness/cmd/vcheck', 'serves_properties': sorted(CHECKS), 'kind_free_text': 'Go monitor binary (module cuelang.org/go/verifh, replace cuelang.org/go => /repo) rebuilt from the working tree on every check; generators, reference models, event-log checkers, evidence writer'},
 ],
 'checks': checks,
 'not_applicable': na,
 'notes': 'Technique family: runtime monitoring and sanitizers. See DESIGN.md. known_findings.jsonl lists repaired (fixed:) and open findings.',
}
json.dump(m, open('/verif/MANIFEST.json','w'), indent=1)
try:
    import jsonschema
    jsonschema.validate(m, json.load(open('/root/.vp/MANIFEST.schema.json')))
    print('MANIFEST.json valid;', len(checks), 'checks,', len(na), 'not_applicable')
except ImportError:
    print('jsonschema not importable; not validated')
