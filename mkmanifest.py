#!/usr/bin/env python3
"""Regenerates /verif/MANIFEST.json from the table below and validates it against the schema."""
import json, subprocess, sys
BASE = json.load(open('/root/.vp/BASELINE.json'))
hook_commits = subprocess.run(['git','-C','/repo','log','--format=%H','--grep=internal/verifhook'],capture_output=True,text=True).stdout.split()

# id -> (level, technique, level text, level note, design ref)
CHECKS = {
 'C03': ('exploration', 'reference-model monitor over enumerated and sampled executions (set model of constraints vs evaluator, E and E&atom for every atom)',
   'Exhaustive for conjunctions of <=2 constraints over the full alphabet x every atom (|E|=3 numeric sub-alphabet in thorough), PRNG-sampled beyond, plus large-magnitude/high-precision bounds probed at +-1 ulp and predeclared ranges probed around their limits; a finite set model decides each observed evaluation. Universal only inside the enumerated sub-space.',
   'Trusts the 150-line set model (written from the statement/spec), Go regexp for =~, and cue.Value accessors used to read results back.', 'DESIGN.md §4 C03'),
 'C14': ('exploration', 'runtime monitoring of instrumented Reqs callbacks (event log: call counts, concurrency, visit orders) under permuted lists and injected latencies with the race detector; results compared with a sequential fixpoint model; semver against an independent SemVer 2.0 model + order axioms',
   'Random requirement graphs, each run under several (permutation x latency) schedules with -race; BuildList/Req/Upgrade/UpgradeAll/Graph decided by a brute-force closure, Downgrade by invariants; semver on random valid/near-valid triples.',
   'Trusts the brute-force closure and the SemVer model (unit-tested against the semver.org examples); schedules are the ones the Go scheduler produced under the injected latencies.', 'DESIGN.md §4 C14'),
}
ALL = [json.loads(l)['id'] for l in open('/verif/properties.jsonl')]
NA_REASON = {}
checks = []
for pid in ALL:
    if pid not in CHECKS: continue
    level, tech, text, note, ref = CHECKS[pid]
    checks.append({
        'property_id': pid,
        'quick_cmd': f'./check {pid} quick',
        'thorough_cmd': f'./check {pid} thorough',
        'evidence_file': f'/verif/evidence/{pid}.json',
        'replay_cmd_template': f'./check {pid} --replay {{path}}',
        'engine': 'vcheck',
        'level_claimed': {'category': level, 'text': text, 'design_ref': ref},
        'level_note': note,
        'technique': tech,
    })
na = [{'property_id': p, 'reason': NA_REASON.get(p, 'monitor not built yet in this session (claimed in DESIGN.md; will be registered once silent on the unchanged tree at several seeds)')} for p in ALL if p not in CHECKS]
m = {
 'version': 1,
 'setup_cmd': './setup',
 'hooks': {'guard': 'verif', 'enable': 'go build -tags verif (the check script passes -tags verif to every build of the harness and of cmd/cue)',
           'baseline_off_cmd': BASE['cmd'], 'source_commits': hook_commits, 'add_only': True},
 'engines': [
   {'name': 'vcheck', 'path': '/verif/harness/cmd/vcheck', 'serves_properties': sorted(CHECKS), 'kind_free_text': 'Go monitor binary (module cuelang.org/go/verifh, replace cuelang.org/go => /repo) rebuilt from the working tree on every check; generators, reference models, event-log checkers, evidence writer'},
 ],
 'checks': checks,
 'not_applicable': na,
 'notes': 'Technique family: runtime monitoring and sanitizers. See DESIGN.md. known_findings.jsonl lists repaired (fixed:) and open findings.',
}
json.dump(m, open('/verif/MANIFEST.json','w'), indent=1)
try:
    import jsonschema
    jsonschema.validate(m, json.load(open('/root/.vp/MANIFEST.schema.json')))
    print('MANIFEST.json valid;', len(checks), 'checks,', len(na), 'not_applicable')
except ImportError:
    print('jsonschema not importable; not validated')
