#!/bin/bash
# usage: ./mutate.sh <patch.diff> <ID> [quick|thorough]
# Applies a patch to a scratch copy of /repo, runs the check against it, removes the copy.
set -u
PATCH=$(realpath "$1"); ID=$2; TIER=${3:-quick}
D=$(mktemp -d /var/tmp/vmut-XXXXXX)
trap 'chmod -R u+w "$D" 2>/dev/null; rm -rf "$D" /verif/bin/*.$(echo "$D/repo" | sha256sum | cut -c1-10)*' EXIT
cp -a /repo "$D/repo" && rm -rf "$D/repo/.git"
(cd "$D/repo" && patch -p1 -s < "$PATCH") || { echo "patch failed"; exit 3; }
VERIF_REPO=$D/repo /verif/check "$ID" "$TIER"
echo "mutant exit=$?"
