package main

import (
	"context"
	"fmt"
	"sort"
	"sync"
	"testing/fstest"

	"cuelang.org/go/internal/mod/modload"
	"cuelang.org/go/internal/mod/semver"
	"cuelang.org/go/mod/modfile"
	"cuelang.org/go/mod/modregistry"
	"cuelang.org/go/mod/module"
)

type memReg struct {
	mu    sync.Mutex
	mods  map[module.Version]fstest.MapFS
	calls []string
}

func (r *memReg) log(s string) { r.mu.Lock(); r.calls = append(r.calls, s); r.mu.Unlock() }

func (r *memReg) Fetch(ctx context.Context, m module.Version) (module.SourceLoc, error) {
	r.log("Fetch " + m.String())
	fs, ok := r.mods[m]
	if !ok {
		return module.SourceLoc{}, modregistry.ErrNotFound
	}
	return module.SourceLoc{FS: fs, Dir: "."}, nil
}
func (r *memReg) ModFile(ctx context.Context, m module.Version) (*modfile.File, error) {
	r.log("ModFile " + m.String())
	fs, ok := r.mods[m]
	if !ok {
		return nil, modregistry.ErrNotFound
	}
	return modfile.Parse(fs["cue.mod/module.cue"].Data, "cue.mod/module.cue")
}
func (r *memReg) ModuleVersions(ctx context.Context, mpath string) ([]string, error) {
	r.log("ModuleVersions " + mpath)
	var vs []string
	for m := range r.mods {
		if m.Path() == mpath || m.BasePath() == mpath {
			vs = append(vs, m.Version())
		}
	}
	semver.Sort(vs)
	return vs, nil
}

func modFS(modcue string, files map[string]string) fstest.MapFS {
	fs := fstest.MapFS{"cue.mod/module.cue": {Data: []byte(modcue)}}
	for k, v := range files {
		fs[k] = &fstest.MapFile{Data: []byte(v)}
	}
	return fs
}

func main() {
	reg := &memReg{mods: map[module.Version]fstest.MapFS{}}
	add := func(path, vers, modcue string, files map[string]string) {
		reg.mods[module.MustNewVersion(path, vers)] = modFS(modcue, files)
	}
	add("b.com/b@v0", "v0.1.0", "module: \"b.com/b@v0\"\nlanguage: version: \"v0.8.0\"\n", map[string]string{"b.cue": "package b\nx: 1\n"})
	add("b.com/b@v0", "v0.2.0", "module: \"b.com/b@v0\"\nlanguage: version: \"v0.8.0\"\n", map[string]string{"b.cue": "package b\nx: 2\n"})
	add("c.com/c@v0", "v0.1.0", "module: \"c.com/c@v0\"\nlanguage: version: \"v0.8.0\"\ndeps: \"b.com/b@v0\": v: \"v0.1.0\"\n", map[string]string{"c.cue": "package c\nimport \"b.com/b@v0\"\ny: b.x\n"})
	main := modFS("module: \"main.org@v0\"\nlanguage: version: \"v0.8.0\"\n", map[string]string{
		"x.cue": "package main\nimport (\n\t\"c.com/c@v0\"\n)\nz: c.y\n",
	})
	res, err := modload.Tidy(context.Background(), main, ".", reg, nil)
	if err != nil {
		fmt.Println("tidy error:", err)
		return
	}
	b, _ := modfile.Format(res.Module)
	fmt.Printf("%s", b)
	sort.Strings(reg.calls)
	fmt.Println(len(reg.calls), "registry calls")
	// idempotence
	main["cue.mod/module.cue"] = &fstest.MapFile{Data: b}
	fmt.Println("CheckTidy:", modload.CheckTidy(context.Background(), main, ".", reg, nil))
	res2, err := modload.Tidy(context.Background(), main, ".", reg, nil)
	b2, _ := modfile.Format(res2.Module)
	fmt.Println("idempotent:", string(b) == string(b2), err)
}
