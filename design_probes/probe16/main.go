package main

import (
	"context"
	"fmt"
	"math/rand"
	"sort"
	"strings"
	"sync"
	"testing/fstest"

	"cuelang.org/go/internal/mod/modload"
	"cuelang.org/go/internal/mod/modrequirements"
	"cuelang.org/go/internal/mod/semver"
	"cuelang.org/go/mod/modfile"
	"cuelang.org/go/mod/modregistry"
	"cuelang.org/go/mod/module"
)

type memReg struct {
	mu    sync.Mutex
	mods  map[module.Version]fstest.MapFS
	calls int
	log   []string
}

func (r *memReg) Fetch(ctx context.Context, m module.Version) (module.SourceLoc, error) {
	r.mu.Lock()
	r.calls++
	r.log = append(r.log, "Fetch "+m.String())
	r.mu.Unlock()
	fs, ok := r.mods[m]
	if !ok {
		return module.SourceLoc{}, modregistry.ErrNotFound
	}
	return module.SourceLoc{FS: fs, Dir: "."}, nil
}
func (r *memReg) ModFile(ctx context.Context, m module.Version) (*modfile.File, error) {
	fs, ok := r.mods[m]
	if !ok {
		return nil, modregistry.ErrNotFound
	}
	return modfile.Parse(fs["cue.mod/module.cue"].Data, "cue.mod/module.cue")
}
func (r *memReg) ModuleVersions(ctx context.Context, mpath string) ([]string, error) {
	var vs []string
	for m := range r.mods {
		if m.Path() == mpath || m.BasePath() == mpath {
			vs = append(vs, m.Version())
		}
	}
	semver.Sort(vs)
	return vs, nil
}

type modSpec struct {
	path    string // ex.com/m1@v0
	ver     string
	imports map[string][]string // pkg dir ("" or "sub") -> import paths
	deps    map[string]string   // module path -> version
}

func (m *modSpec) fs() fstest.MapFS {
	var sb strings.Builder
	fmt.Fprintf(&sb, "module: %q\nlanguage: version: \"v0.8.0\"\n", m.path)
	if len(m.deps) > 0 {
		var ks []string
		for k := range m.deps {
			ks = append(ks, k)
		}
		sort.Strings(ks)
		sb.WriteString("deps: {\n")
		for _, k := range ks {
			fmt.Fprintf(&sb, "\t%q: v: %q\n", k, m.deps[k])
		}
		sb.WriteString("}\n")
	}
	out := fstest.MapFS{"cue.mod/module.cue": {Data: []byte(sb.String())}}
	for dir, imps := range m.imports {
		var b strings.Builder
		name := strings.TrimSuffix(m.path[strings.LastIndex(m.path, "/")+1:], "@v0")
		name = strings.ReplaceAll(name, ".", "")
		file := "x.cue"
		if dir != "" {
			name = dir
			file = dir + "/x.cue"
		}
		fmt.Fprintf(&b, "package %s\n", name)
		if len(imps) > 0 {
			b.WriteString("import (\n")
			for i, ip := range imps {
				fmt.Fprintf(&b, "\ti%d %q\n", i, ip)
			}
			b.WriteString(")\n")
			for i := range imps {
				fmt.Fprintf(&b, "f%d: i%d.v\n", i, i)
			}
		}
		b.WriteString("v: 1\n")
		out[file] = &fstest.MapFile{Data: []byte(b.String())}
	}
	return out
}

var versions = []string{"v0.1.0", "v0.2.0", "v0.3.0-pre"}

func main() {
	ctx := context.Background()
	stats := map[string]int{}
	for trial := 0; trial < 600; trial++ {
		r := rand.New(rand.NewSource(int64(trial)))
		nm := 2 + r.Intn(4)
		reg := &memReg{mods: map[module.Version]fstest.MapFS{}}
		specs := map[string]*modSpec{}
		modPath := func(i int) string { return fmt.Sprintf("ex.com/m%d@v0", i) }
		// modules only import modules with higher index -> acyclic imports
		for i := nm - 1; i >= 0; i-- {
			for _, v := range versions {
				if r.Intn(4) == 0 && v != "v0.1.0" {
					continue
				}
				s := &modSpec{path: modPath(i), ver: v, imports: map[string][]string{}, deps: map[string]string{}}
				for _, dir := range []string{"", "sub"} {
					var imps []string
					for j := i + 1; j < nm; j++ {
						if r.Intn(3) == 0 {
							p := fmt.Sprintf("ex.com/m%d@v0", j)
							if r.Intn(2) == 0 {
								p = fmt.Sprintf("ex.com/m%d/sub@v0", j)
							}
							imps = append(imps, p)
							// dep on some existing version of j
							var have []string
							for _, vv := range versions {
								if _, ok := specs[modPath(j)+" "+vv]; ok {
									have = append(have, vv)
								}
							}
							if _, ok := s.deps[modPath(j)]; !ok {
								s.deps[modPath(j)] = have[r.Intn(len(have))]
							}
						}
					}
					s.imports[dir] = imps
				}
				specs[s.path+" "+v] = s
				reg.mods[module.MustNewVersion(s.path, v)] = s.fs()
			}
		}
		// main module
		main := &modSpec{path: "main.org@v0", imports: map[string][]string{}, deps: map[string]string{}}
		for _, dir := range []string{"", "sub"} {
			var imps []string
			for j := 0; j < nm; j++ {
				if r.Intn(2) == 0 {
					p := modPath(j)
					if r.Intn(2) == 0 {
						p = fmt.Sprintf("ex.com/m%d/sub@v0", j)
					}
					imps = append(imps, p)
				}
			}
			main.imports[dir] = imps
		}
		// stale / partial deps
		for j := 0; j < nm; j++ {
			if r.Intn(3) == 0 {
				main.deps[modPath(j)] = "v0.1.0"
			}
		}
		mainFS := main.fs()
		res, err := modload.Tidy(ctx, mainFS, ".", reg, nil)
		if err != nil {
			stats["tidy-error"]++
			if stats["tidy-error"] <= 3 {
				fmt.Println("TIDY ERROR", err)
			}
			continue
		}
		stats["tidied"]++
		out, _ := modfile.Format(res.Module)
		// P4 idempotence + CheckTidy
		mainFS["cue.mod/module.cue"] = &fstest.MapFile{Data: out}
		if err := modload.CheckTidy(ctx, mainFS, ".", reg, nil); err != nil {
			stats["checktidy-fail"]++
			fmt.Println("CHECKTIDY FAIL", trial, err)
		}
		res2, err := modload.Tidy(ctx, mainFS, ".", reg, nil)
		if err != nil {
			stats["retidy-error"]++
			continue
		}
		out2, _ := modfile.Format(res2.Module)
		if string(out) != string(out2) {
			stats["not-idempotent"]++
			fmt.Printf("NOT IDEMPOTENT trial %d\n%s---\n%s", trial, out, out2)
		}
		// independent closure: selected versions from R deps via MVS brute force
		deps := map[string]string{}
		for p, d := range res.Module.Deps {
			deps[p] = d.Version
		}
		sel := map[string]string{}
		var visit func(p, v string)
		seen := map[string]bool{}
		visit = func(p, v string) {
			if cur, ok := sel[p]; !ok || semver.Compare(v, cur) > 0 {
				sel[p] = v
			}
			if seen[p+" "+v] {
				return
			}
			seen[p+" "+v] = true
			if s, ok := specs[p+" "+v]; ok {
				for dp, dv := range s.deps {
					visit(dp, dv)
				}
			}
		}
		for p, v := range deps {
			visit(p, v)
		}
		// P3: listed version == selected
		for p, v := range deps {
			if sel[p] != v {
				stats["P3-not-mvs-selected"]++
				fmt.Printf("P3 trial %d: %s listed %s selected %s\n", trial, p, v, sel[p])
				if stats["P3-not-mvs-selected"] <= 2 {
					pmf, _ := modfile.Parse(out, "module.cue"); roots := pmf.DepVersions()
					rs := modrequirements.NewRequirements("main.org@v0", reg, roots, nil)
					mg, gerr := rs.Graph(ctx)
					if gerr == nil {
						fmt.Printf("--- cue own graph build list %v\n", mg.BuildList())
					} else {
						fmt.Println("graph err", gerr)
					}
					fmt.Printf("--- registry log %v\n", reg.log)
					fmt.Printf("--- main imports %v\n--- main deps before %v\n--- tidied\n%s", main.imports, main.deps, out)
					for k, sp := range specs {
						fmt.Printf("   %s deps=%v imports=%v\n", k, sp.deps, sp.imports)
					}
				}
			}
		}
		// closure of imports
		needed := map[string]bool{}
		var walk func(imps []string)
		seenPkg := map[string]bool{}
		walk = func(imps []string) {
			for _, ip := range imps {
				if seenPkg[ip] {
					continue
				}
				seenPkg[ip] = true
				mp := strings.Replace(ip, "/sub@", "@", 1)
				dir := ""
				if strings.Contains(ip, "/sub@") {
					dir = "sub"
				}
				needed[mp] = true
				v, ok := sel[mp]
				if !ok {
					stats["P1-unresolved-import"]++
					fmt.Printf("P1 trial %d: import %s not provided by build list %v\n", trial, ip, sel)
					continue
				}
				walk(specs[mp+" "+v].imports[dir])
			}
		}
		walk(main.imports[""])
		walk(main.imports["sub"])
		for p := range deps {
			if !needed[p] {
				stats["P2-unused-dep"]++
				if stats["P2-unused-dep"] <= 5 {
					fmt.Printf("P2 trial %d: dep %s unused\n%s", trial, p, out)
				}
			}
		}
		for p := range needed {
			if _, ok := deps[p]; !ok {
				stats["needed-but-not-listed"]++
				if stats["needed-but-not-listed"] <= 5 {
					fmt.Printf("NOTE trial %d: needed module %s (in closure) not listed; selected %s\n", trial, p, sel[p])
				}
			}
		}
	}
	fmt.Println(stats)
}
