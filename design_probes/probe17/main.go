package main

import (
	"fmt"
	"math/big"
	"math/rand"
	"strings"

	"cuelang.org/go/cue"
	"cuelang.org/go/cue/cuecontext"
)

func randInt(r *rand.Rand, maxDigits int) string {
	n := 1 + r.Intn(maxDigits)
	var sb strings.Builder
	if r.Intn(3) == 0 {
		sb.WriteByte('-')
	}
	sb.WriteByte(byte('1' + r.Intn(9)))
	for i := 1; i < n; i++ {
		sb.WriteByte(byte('0' + r.Intn(10)))
	}
	if r.Intn(8) == 0 {
		return "0"
	}
	return sb.String()
}

func randDec(r *rand.Rand, maxDigits int) string {
	s := randInt(r, maxDigits)
	f := 1 + r.Intn(maxDigits)
	var sb strings.Builder
	for i := 0; i < f; i++ {
		sb.WriteByte(byte('0' + r.Intn(10)))
	}
	return s + "." + sb.String()
}

func ratOf(s string) *big.Rat {
	x, ok := new(big.Rat).SetString(s)
	if !ok {
		panic(s)
	}
	return x
}

// value of a cue number via its printed syntax
func cueNum(v cue.Value) (*big.Rat, string, bool) {
	s := fmt.Sprint(v)
	x, ok := new(big.Rat).SetString(s)
	return x, s, ok
}

func sigDigits(x *big.Rat) int {
	// number of significant decimal digits needed if finite decimal; else large
	f := x.FloatString(400)
	f = strings.TrimLeft(f, "-0.")
	f = strings.ReplaceAll(f, ".", "")
	f = strings.TrimRight(f, "0")
	return len(f)
}

func main() {
	r := rand.New(rand.NewSource(9))
	ctx := cuecontext.New()
	fails := map[string]int{}
	note := func(class, expr, got, want string) {
		fails[class]++
		if fails[class] <= 5 {
			fmt.Printf("%s: %s = %s want %s\n", class, expr, got, want)
		}
	}
	N := 30000
	for i := 0; i < N; i++ {
		md := []int{3, 10, 20, 40}[r.Intn(4)]
		var a, b string
		aint, bint := r.Intn(2) == 0, r.Intn(2) == 0
		if aint {
			a = randInt(r, md)
		} else {
			a = randDec(r, md/2+1)
		}
		if bint {
			b = randInt(r, md)
		} else {
			b = randDec(r, md/2+1)
		}
		ra, rb := ratOf(a), ratOf(b)
		for _, op := range []string{"+", "-", "*", "/"} {
			expr := fmt.Sprintf("(%s) %s (%s)", a, op, b)
			v := ctx.CompileString("x: " + expr).LookupPath(cue.ParsePath("x"))
			if op == "/" && rb.Sign() == 0 {
				if v.Err() == nil {
					note("div0-no-error", expr, fmt.Sprint(v), "error")
				}
				continue
			}
			if v.Err() != nil {
				note("unexpected-error", expr, v.Err().Error(), "")
				continue
			}
			got, gs, ok := cueNum(v)
			if !ok {
				note("unparsable", expr, gs, "")
				continue
			}
			want := new(big.Rat)
			switch op {
			case "+":
				want.Add(ra, rb)
			case "-":
				want.Sub(ra, rb)
			case "*":
				want.Mul(ra, rb)
			case "/":
				want.Quo(ra, rb)
			}
			wantInt := aint && bint && op != "/"
			if (v.Kind() == cue.IntKind) != wantInt {
				note("kind", expr, v.Kind().String()+" "+gs, fmt.Sprint(wantInt))
			}
			if op != "/" {
				if got.Cmp(want) != 0 {
					if sigDigits(want) > 34 {
						fails["inexact(>34 digits)"]++
					} else {
						note("inexact(<=34 digits)", expr, gs, want.FloatString(40))
					}
				} else if wantInt && strings.ContainsAny(gs, "eE.") {
					note("int-printed-as-float", expr, gs, want.FloatString(0))
				}
			} else {
				// relative error <= 10^-33
				diff := new(big.Rat).Sub(got, want)
				diff.Abs(diff)
				if want.Sign() != 0 {
					rel := new(big.Rat).Quo(diff, new(big.Rat).Abs(want))
					lim := new(big.Rat).SetFrac(big.NewInt(1), new(big.Int).Exp(big.NewInt(10), big.NewInt(33), nil))
					if rel.Cmp(lim) > 0 {
						note("quo-imprecise", expr, gs, want.FloatString(50))
					}
				}
			}
		}
		if aint && bint && rb.Sign() != 0 {
			ia, _ := new(big.Int).SetString(a, 10)
			ib, _ := new(big.Int).SetString(b, 10)
			for _, fn := range []string{"div", "mod", "quo", "rem"} {
				expr := fmt.Sprintf("%s(%s, %s)", fn, a, b)
				v := ctx.CompileString("x: " + expr).LookupPath(cue.ParsePath("x"))
				if v.Err() != nil {
					note("intdiv-error", expr, v.Err().Error(), "")
					continue
				}
				want := new(big.Int)
				switch fn {
				case "div":
					want.Div(ia, ib)
				case "mod":
					want.Mod(ia, ib)
				case "quo":
					want.Quo(ia, ib)
				case "rem":
					want.Rem(ia, ib)
				}
				gs := fmt.Sprint(v)
				if gs != want.String() {
					note("intdiv-"+fn, expr, gs, want.String())
				}
			}
		}
		// comparisons
		for _, op := range []string{"<", "<=", "==", "!=", ">=", ">"} {
			expr := fmt.Sprintf("(%s) %s (%s)", a, op, b)
			v := ctx.CompileString("x: " + expr).LookupPath(cue.ParsePath("x"))
			gb, err := v.Bool()
			c := ra.Cmp(rb)
			want := map[string]bool{"<": c < 0, "<=": c <= 0, "==": c == 0, "!=": c != 0, ">=": c >= 0, ">": c > 0}[op]
			if err != nil || gb != want {
				note("cmp", expr, fmt.Sprint(gb, err), fmt.Sprint(want))
			}
		}
	}
	fmt.Println("N", N, fails)
}
