package main

import (
	"fmt"
	"math/big"
	"regexp"
	"strings"

	"cuelang.org/go/cue"
	"cuelang.org/go/cue/cuecontext"
)

type atom struct {
	src  string
	kind string // null bool int float string bytes
	num  *big.Rat
	s    string
	b    bool
}

func num(src string, kind string) atom {
	r, _ := new(big.Rat).SetString(src)
	return atom{src: src, kind: kind, num: r}
}

var atoms = []atom{
	{src: "null", kind: "null"}, {src: "true", kind: "bool", b: true}, {src: "false", kind: "bool"},
	num("-2", "int"), num("-1", "int"), num("0", "int"), num("1", "int"), num("2", "int"), num("3", "int"),
	num("-1.5", "float"), num("-0.5", "float"), num("0.5", "float"), num("1.5", "float"), num("2.5", "float"),
	num("0.0", "float"), num("1.0", "float"), num("2.0", "float"),
	{src: `""`, kind: "string", s: ""}, {src: `"a"`, kind: "string", s: "a"}, {src: `"ab"`, kind: "string", s: "ab"}, {src: `"b"`, kind: "string", s: "b"},
	{src: `''`, kind: "bytes", s: ""}, {src: `'a'`, kind: "bytes", s: "a"}, {src: `'b'`, kind: "bytes", s: "b"},
}

type cons struct {
	src string
	sat func(a atom) bool
}

func isNum(a atom) bool { return a.kind == "int" || a.kind == "float" }

func cmpOK(op string, c int) bool {
	switch op {
	case "<":
		return c < 0
	case "<=":
		return c <= 0
	case ">":
		return c > 0
	case ">=":
		return c >= 0
	case "!=":
		return c != 0
	}
	panic(op)
}

func build() []cons {
	var cs []cons
	typ := func(name string, f func(a atom) bool) { cs = append(cs, cons{name, f}) }
	typ("_", func(a atom) bool { return true })
	typ("null", func(a atom) bool { return a.kind == "null" })
	typ("bool", func(a atom) bool { return a.kind == "bool" })
	typ("int", func(a atom) bool { return a.kind == "int" })
	typ("float", func(a atom) bool { return a.kind == "float" })
	typ("number", isNum)
	typ("string", func(a atom) bool { return a.kind == "string" })
	typ("bytes", func(a atom) bool { return a.kind == "bytes" })
	typ("uint", func(a atom) bool { return a.kind == "int" && a.num.Sign() >= 0 })
	typ("int8", func(a atom) bool { return a.kind == "int" })
	for _, op := range []string{"<", "<=", ">", ">=", "!="} {
		for _, o := range atoms {
			o := o
			op := op
			switch {
			case isNum(o):
				cs = append(cs, cons{op + "(" + o.src + ")", func(a atom) bool { return isNum(a) && cmpOK(op, a.num.Cmp(o.num)) }})
			case o.kind == "string" || o.kind == "bytes":
				cs = append(cs, cons{op + o.src, func(a atom) bool { return a.kind == o.kind && cmpOK(op, strings.Compare(a.s, o.s)) }})
			case o.kind == "null" && op == "!=":
				cs = append(cs, cons{"!=null", func(a atom) bool { return a.kind != "null" }})
			case o.kind == "bool" && op == "!=":
				cs = append(cs, cons{op + o.src, func(a atom) bool { return a.kind == "bool" && a.b != o.b }})
			}
		}
	}
	for _, re := range []string{"^a", "b$", "^$"} {
		re := re
		rx := regexp.MustCompile(re)
		cs = append(cs, cons{`=~"` + re + `"`, func(a atom) bool { return a.kind == "string" && rx.MatchString(a.s) }})
		cs = append(cs, cons{`!~"` + re + `"`, func(a atom) bool { return a.kind == "string" && !rx.MatchString(a.s) }})
	}
	for _, a := range atoms {
		a := a
		cs = append(cs, cons{a.src, func(x atom) bool {
			if x.kind != a.kind {
				return false
			}
			if isNum(a) {
				return x.num.Cmp(a.num) == 0
			}
			return x.s == a.s && x.b == a.b
		}})
	}
	return cs
}

func main() {
	cs := build()
	ctx := cuecontext.New()
	fmt.Println("constraints", len(cs), "atoms", len(atoms))
	mism := map[string]int{}
	total := 0
	check := func(E []cons) {
		var parts []string
		for _, c := range E {
			parts = append(parts, c.src)
		}
		esrc := strings.Join(parts, " & ")
		// E alone
		ev := ctx.CompileString("x: " + esrc).LookupPath(cue.ParsePath("x"))
		eBottom := ev.Err() != nil
		anySat := false
		var satAtoms []string
		for _, a := range atoms {
			want := true
			for _, c := range E {
				if !c.sat(a) {
					want = false
				}
			}
			if want {
				anySat = true
				satAtoms = append(satAtoms, a.src)
			}
			total++
			v := ctx.CompileString("x: " + esrc + " & " + a.src).LookupPath(cue.ParsePath("x"))
			got := v.Err() == nil
			if got != want {
				key := fmt.Sprintf("accept model=%v impl=%v", want, got)
				mism[key]++
				if mism[key] <= 12 {
					fmt.Printf("MISMATCH %s: %s & %s  (%v)\n", key, esrc, a.src, v.Err())
				}
			} else if got {
				// result must be the atom
				s := fmt.Sprint(v)
				if s != a.src {
					mism["result-not-atom"]++
					if mism["result-not-atom"] <= 10 {
						fmt.Printf("RESULT %s & %s = %s\n", esrc, a.src, s)
					}
				}
			}
		}
		if eBottom && anySat {
			mism["E-bottom-but-satisfiable"]++
			if mism["E-bottom-but-satisfiable"] <= 10 {
				fmt.Printf("MISMATCH E bottom but sat by %v: %s (%v)\n", satAtoms, esrc, ev.Err())
			}
		}
		if !eBottom && ev.IsConcrete() {
			// pinned atom must be the only satisfying one
			s := fmt.Sprint(ev)
			for _, sa := range satAtoms {
				if sa != s {
					mism["pinned-wrong"]++
					if mism["pinned-wrong"] <= 10 {
						fmt.Printf("MISMATCH pinned %s = %s but model admits %v\n", esrc, s, satAtoms)
					}
					break
				}
			}
		}
	}
	for i := range cs {
		check([]cons{cs[i]})
	}
	for i := range cs {
		for j := range cs {
			check([]cons{cs[i], cs[j]})
		}
	}
	fmt.Println("evaluations", total, "mismatches", mism)
}
