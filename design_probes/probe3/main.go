package main

import (
	"encoding/json"
	"fmt"
	"sync"

	"cuelang.org/go/cue"
	"cuelang.org/go/cue/cuecontext"
	"cuelang.org/go/cue/format"
	"cuelang.org/go/encoding/yaml"
)

const prog = `
#D: {a: int, b?: string, [=~"^x"]: bool, c: *1 | 2 | int}
x: #D & {a: 1, xa: true}
y: *1 | 2 | string
z: >=1 & <=5 & int
w: {a: 1} | *{b: 2}
l: [1, 2, {q: "s"}]
m: {for i, v in l {"k\(i)": v}}
n: {a: x.a + 1, b: "s\(x.a)"}
conc: {a: 1, b: "x", c: [1,2,3], d: {e: null, f: 1.5}}
`

type T struct {
	A int    `json:"a"`
	B string `json:"b"`
}

func main() {
	for round := 0; round < 30; round++ {
		ctx := cuecontext.New()
		v := ctx.CompileString(prog) // not yet finalized
		other := ctx.CompileString(`x: b: "hello"`)
		var wg sync.WaitGroup
		for g := 0; g < 8; g++ {
			wg.Add(1)
			go func(g int) {
				defer wg.Done()
				for i := 0; i < 5; i++ {
					switch (g + i) % 8 {
					case 0:
						it, _ := v.Fields(cue.All())
						for it.Next() {
							_ = it.Value().Kind()
							it.Value().Default()
						}
					case 1:
						u := v.Unify(other)
						_ = u.Validate()
					case 2:
						f := v.FillPath(cue.ParsePath("x.b"), "foo")
						_ = f.Validate(cue.Concrete(false))
					case 3:
						_ = v.Validate(cue.Concrete(true))
					case 4:
						n := v.Syntax(cue.Final())
						format.Node(n)
						n = v.Syntax(cue.All())
						format.Node(n)
					case 5:
						var t T
						_ = v.LookupPath(cue.ParsePath("conc")).Decode(&t)
						var m map[string]any
						_ = v.LookupPath(cue.ParsePath("conc")).Decode(&m)
					case 6:
						b, _ := v.LookupPath(cue.ParsePath("conc")).MarshalJSON()
						var x any
						json.Unmarshal(b, &x)
						yaml.Encode(v.LookupPath(cue.ParsePath("conc")))
					case 7:
						_ = ctx.Encode(T{1, "x"}).Unify(v.LookupPath(cue.ParsePath("conc"))).Err()
						v.LookupPath(cue.ParsePath("n.b")).String()
						v.LookupPath(cue.ParsePath("m")).Fields()
					}
				}
			}(g)
		}
		wg.Wait()
	}
	fmt.Println("done")
}
