package main

import (
	"encoding/json"
	"fmt"
	"math/rand"
	"strings"

	"cuelang.org/go/cue"
	"cuelang.org/go/cue/ast"
	"cuelang.org/go/cue/cuecontext"
	cuejson "cuelang.org/go/encoding/json"
	"cuelang.org/go/encoding/yaml"
)

var pool = []string{"y", "Y", "yes", "no", "n", "on", "off", "true", "True", "TRUE", "false", "null", "Null", "~", "", " ", "  ", "\n", "\n\n", " \n", "a\n", "\na", "a\nb", "a\n\nb\n", "\t", "a\tb",
	"0x10", "0o17", "017", "1_000", "1e3", "1E3", ".5", "5.", "+1", "-1", "1.0", ".inf", "-.inf", ".nan", ".NaN", "0b11", "1:30", "190:20:30",
	"2001-01-01", "2001-01-01T00:00:00Z", "<<", "=", "---", "...", "--- a", "- x", "-", "?", "? a", ":", "a: b", "a:", ":a", "a #b", "#c", "# c", "a#b",
	"&a", "*a", "!a", "!!str x", "|", ">", "|-", "%a", "@a", "`a", "[a]", "[", "]", "{a}", "{", "}", ",", "a,b", "'", "\"", "'a'", "\"a\"", "a'b", "a\"b", "\\", "a\\nb",
	"\x00", "\x01", "\x7f", "\u0085", "\u00a0", "\u2028", "\u2029", "\ufeff", "\ufeffa", "😀", "é", " lead", "trail ", "\ttab", "tab\t", "a  b", "a\rb", "\r", "\r\n",
	"\\(", "\"\"\"", "#\"", "key with spaces", "0", "00", "1", "-0", "1.5", "1e400", "12345678901234567890", "0.1", "null: x", "y: n"}

func randStr(r *rand.Rand) string {
	switch r.Intn(4) {
	case 0:
		return pool[r.Intn(len(pool))] + pool[r.Intn(len(pool))]
	default:
		return pool[r.Intn(len(pool))]
	}
}

func genVal(r *rand.Rand, depth int) any {
	switch r.Intn(8) {
	case 0, 1, 2:
		return randStr(r)
	case 3:
		return json.Number([]string{"0", "1", "-1", "1.5", "1e3", "12345678901234567890", "0.1", "-0.0", "1E+2", "1e400", "3.0"}[r.Intn(11)])
	case 4:
		return []any{true, false, nil}[r.Intn(3)]
	case 5, 6:
		if depth == 0 {
			return randStr(r)
		}
		m := ordered{}
		seen := map[string]bool{}
		for i := 0; i < r.Intn(4); i++ {
			k := randStr(r)
			if seen[k] {
				continue
			}
			seen[k] = true
			m = append(m, kv{k, genVal(r, depth-1)})
		}
		return m
	default:
		if depth == 0 {
			return randStr(r)
		}
		var l []any
		for i := 0; i < r.Intn(4); i++ {
			l = append(l, genVal(r, depth-1))
		}
		return l
	}
}

type kv struct {
	k string
	v any
}
type ordered []kv

func toJSON(v any) string {
	switch x := v.(type) {
	case ordered:
		var parts []string
		for _, e := range x {
			kb, _ := json.Marshal(e.k)
			parts = append(parts, string(kb)+":"+toJSON(e.v))
		}
		return "{" + strings.Join(parts, ",") + "}"
	case []any:
		var parts []string
		for _, e := range x {
			parts = append(parts, toJSON(e))
		}
		return "[" + strings.Join(parts, ",") + "]"
	case json.Number:
		return string(x)
	default:
		b, _ := json.Marshal(x)
		return string(b)
	}
}

// canonical data string from cue value (order-preserving)
func data(v cue.Value) string {
	switch v.Kind() {
	case cue.StructKind:
		it, _ := v.Fields()
		var parts []string
		for it.Next() {
			parts = append(parts, fmt.Sprintf("%q:%s", it.Selector().Unquoted(), data(it.Value())))
		}
		return "{" + strings.Join(parts, ",") + "}"
	case cue.ListKind:
		it, _ := v.List()
		var parts []string
		for it.Next() {
			parts = append(parts, data(it.Value()))
		}
		return "[" + strings.Join(parts, ",") + "]"
	case cue.StringKind:
		s, _ := v.String()
		return fmt.Sprintf("%q", s)
	case cue.IntKind, cue.FloatKind, cue.NumberKind:
		return fmt.Sprintf("%v:%v", v.Kind(), v)
	default:
		return fmt.Sprint(v)
	}
}

func main() {
	r := rand.New(rand.NewSource(2))
	ctx := cuecontext.New()
	fails := map[string]int{}
	N := 5000
	for i := 0; i < N; i++ {
		val := genVal(r, 2)
		js := toJSON(val)
		expr, err := cuejson.Extract("x.json", []byte(js))
		if err != nil {
			fails["json-extract"]++
			if fails["json-extract"] <= 5 {
				fmt.Printf("JSON-EXTRACT %s: %v\n", js, err)
			}
			continue
		}
		v := ctx.BuildExpr(expr)
		if v.Err() != nil {
			fails["json-build"]++
			continue
		}
		want := data(v)
		// JSON roundtrip
		mb, err := v.MarshalJSON()
		if err != nil {
			fails["marshal"]++
			continue
		}
		e2, err := cuejson.Extract("y.json", mb)
		if err != nil || data(ctx.BuildExpr(e2)) != want {
			fails["json-rt"]++
			if fails["json-rt"] <= 5 {
				fmt.Printf("JSON-RT %s -> %s\n", js, mb)
			}
		}
		// YAML roundtrip
		yb, err := yaml.Encode(v)
		if err != nil {
			fails["yaml-encode"]++
			if fails["yaml-encode"] <= 5 {
				fmt.Printf("YAML-ENCODE %s: %v\n", js, err)
			}
			continue
		}
		f, err := yaml.Extract("z.yaml", yb)
		if err != nil {
			fails["yaml-extract"]++
			if fails["yaml-extract"] <= 12 {
				fmt.Printf("YAML-EXTRACT json=%s yaml=%q: %v\n", js, yb, err)
			}
			continue
		}
		v2 := ctx.BuildFile(f)
		if got := data(v2); got != want {
			fails["yaml-rt"]++
			if fails["yaml-rt"] <= 25 {
				fmt.Printf("YAML-RT json=%s yaml=%q\n   want %s\n   got  %s\n", js, yb, want, got)
			}
		}
		// JSON via YAML decoder
		f3, err := yaml.Extract("j.yaml", []byte(js))
		if err != nil {
			fails["json-as-yaml-extract"]++
			if fails["json-as-yaml-extract"] <= 8 {
				fmt.Printf("JSON-AS-YAML %s: %v\n", js, err)
			}
			continue
		}
		if got := data(ctx.BuildFile(f3)); got != want {
			fails["json-as-yaml"]++
			if fails["json-as-yaml"] <= 12 {
				fmt.Printf("JSON-AS-YAML-DIFF %s\n   want %s\n   got  %s\n", js, want, got)
			}
		}
	}
	_ = ast.NewIdent
	fmt.Println("N", N, "fails", fails)
}
