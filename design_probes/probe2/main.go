package main

import (
	"bytes"
	"fmt"
	"io/fs"
	"os"
	"path/filepath"
	"reflect"
	"strings"

	"cuelang.org/go/cue/ast"
	"cuelang.org/go/cue/format"
	"cuelang.org/go/cue/parser"
	"cuelang.org/go/cue/token"
	"cuelang.org/go/internal/astinternal"
	"golang.org/x/tools/txtar"
)

var posType = reflect.TypeOf(token.Pos{})

func dump(f *ast.File) string {
	return string(astinternal.AppendDebug(nil, f, astinternal.DebugConfig{
		OmitEmpty: true,
		Filter: func(v reflect.Value) bool {
			return v.Type() != posType
		},
	}))
}

func main() {
	n, perr, ferr, nonidem, astdiff := 0, 0, 0, 0, 0
	check := func(name string, data []byte) {
		f, err := parser.ParseFile(name, data, parser.ParseComments)
		if err != nil {
			perr++
			return
		}
		n++
		var out []byte
		func() {
			defer func() {
				if r := recover(); r != nil {
					err = fmt.Errorf("PANIC %v", r)
				}
			}()
			out, err = format.Source(data)
		}()
		if err != nil {
			ferr++
			fmt.Println("FMTERR", name, err)
			return
		}
		out2, err := format.Source(out)
		if err != nil {
			ferr++
			fmt.Println("FMTERR2", name, err)
			return
		}
		if !bytes.Equal(out, out2) {
			nonidem++
			if nonidem < 10 {
				fmt.Println("NONIDEM", name)
			}
		}
		f2, err := parser.ParseFile(name, out, parser.ParseComments)
		if err != nil {
			ferr++
			fmt.Println("REPARSE-ERR", name, err)
			return
		}
		if d1, d2 := dump(f), dump(f2); d1 != d2 {
			astdiff++
			if astdiff < 12 {
				fmt.Println("ASTDIFF", name)
				os.WriteFile(fmt.Sprintf("/tmp/probe2/ast-%d.a", astdiff), []byte(d1), 0o644)
				os.WriteFile(fmt.Sprintf("/tmp/probe2/ast-%d.b", astdiff), []byte(d2), 0o644)
				os.WriteFile(fmt.Sprintf("/tmp/probe2/ast-%d.cue", astdiff), data, 0o644)
			}
		}
	}
	filepath.WalkDir("/repo", func(p string, d fs.DirEntry, err error) error {
		if err != nil || d.IsDir() {
			return nil
		}
		if strings.HasSuffix(p, ".cue") {
			b, _ := os.ReadFile(p)
			check(p, b)
		}
		if strings.HasSuffix(p, ".txtar") {
			a, err := txtar.ParseFile(p)
			if err != nil {
				return nil
			}
			for _, f := range a.Files {
				if strings.HasSuffix(f.Name, ".cue") {
					check(p+":"+f.Name, f.Data)
				}
			}
		}
		return nil
	})
	fmt.Println("parsed", n, "parse-errors", perr, "fmt errors", ferr, "non-idempotent", nonidem, "ast diffs", astdiff)
}
