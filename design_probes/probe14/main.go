package main

import (
	"bytes"
	"context"
	"fmt"
	"io/fs"
	"os"
	"runtime"
	"sort"
	"strings"

	"cuelabs.dev/go/oci/ociregistry/ocimem"

	"cuelang.org/go/mod/modcache"
	"cuelang.org/go/mod/modregistry"
	"cuelang.org/go/mod/module"
	"cuelang.org/go/mod/modzip"
)

type memFile struct {
	path string
	data []byte
}

var files = []memFile{
	{"cue.mod/module.cue", []byte("module: \"example.com/m@v0\"\nlanguage: version: \"v0.8.0\"\n")},
	{"a.cue", []byte("package m\na: 1\n")},
	{"x/b.cue", []byte("package x\nb: 2\n")},
	{"x/y/c.cue", []byte("package y\nc: 3\n")},
	{"LICENSE", []byte("license text\n")},
	{"z/d.cue", []byte("package z\nd: 4\n")},
}

func want() string {
	var parts []string
	for _, f := range files {
		parts = append(parts, f.path+"="+string(f.data))
	}
	sort.Strings(parts)
	return strings.Join(parts, "|")
}

func main() {
	runtime.LockOSThread()
	cacheDir := os.Args[1]
	mode := os.Args[2] // fetch | check
	ctx := context.Background()
	mv := module.MustNewVersion("example.com/m@v0", "v0.0.1")

	reg := ocimem.New()
	client := modregistry.NewClient(reg)
	var buf bytes.Buffer
	if err := modzip.Create(&buf, mv, files, memIO{}); err != nil {
		panic(err)
	}
	if err := client.PutModule(ctx, mv, bytes.NewReader(buf.Bytes()), int64(buf.Len())); err != nil {
		panic(err)
	}
	c, err := modcache.New(client, cacheDir)
	if err != nil {
		panic(err)
	}
	readLoc := func(loc module.SourceLoc) string {
		var parts []string
		fs.WalkDir(loc.FS, loc.Dir, func(p string, d fs.DirEntry, err error) error {
			if err != nil || d.IsDir() {
				return nil
			}
			b, _ := fs.ReadFile(loc.FS, p)
			parts = append(parts, p+"="+string(b))
			return nil
		})
		sort.Strings(parts)
		return strings.Join(parts, "|")
	}
	// availability invariant first
	if loc, err := c.FetchFromCache(mv); err == nil {
		if got := readLoc(loc); got != want() {
			fmt.Println("INVARIANT-VIOLATION available-but-incomplete:", got)
			os.Exit(3)
		}
		fmt.Println("cache says available and complete")
	}
	if mode == "check" {
		return
	}
	fmt.Fprintln(os.Stderr, "MARK-START")
	loc, err := c.Fetch(ctx, mv)
	if err != nil {
		fmt.Println("FETCH-ERROR", err)
		os.Exit(4)
	}
	if got := readLoc(loc); got != want() {
		fmt.Println("FETCH-INCOMPLETE", got)
		os.Exit(5)
	}
	mf, err := c.ModFile(ctx, mv)
	if err != nil || mf.QualifiedModule() != "example.com/m@v0" {
		fmt.Println("MODFILE-ERROR", err)
		os.Exit(6)
	}
	fmt.Println("OK")
}
