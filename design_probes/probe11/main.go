package main

import (
	"fmt"
	"path/filepath"
	"strings"

	"cuelang.org/go/cue"
	"cuelang.org/go/cue/ast"
	"cuelang.org/go/cue/build"
	"cuelang.org/go/cue/cuecontext"
	"cuelang.org/go/cue/format"
	"cuelang.org/go/cue/parser"
	"cuelang.org/go/tools/trim"
	"golang.org/x/tools/txtar"
)

func buildFiles(ctx *cue.Context, files []*ast.File) cue.Value {
	inst := build.NewContext().NewInstance("/x", nil)
	for _, f := range files {
		inst.AddSyntax(f)
	}
	return ctx.BuildInstance(inst)
}

func main() {
	paths, _ := filepath.Glob("/repo/tools/trim/testdata/*.txtar")
	n, diff, removedSomething := 0, 0, 0
	for _, p := range paths {
		a, _ := txtar.ParseFile(p)
		var srcs [][]byte
		var names []string
		skip := false
		for _, f := range a.Files {
			if strings.HasSuffix(f.Name, ".cue") && !strings.HasPrefix(f.Name, "out/") {
				if strings.Contains(string(f.Data), "import ") {
					skip = true
				}
				srcs = append(srcs, f.Data)
				names = append(names, f.Name)
			}
		}
		if skip || len(srcs) == 0 {
			continue
		}
		func() {
			defer func() {
				if r := recover(); r != nil {
					fmt.Println("PANIC", p, r)
				}
			}()
			ctx := cuecontext.New()
			var files []*ast.File
			for i, s := range srcs {
				f, err := parser.ParseFile("/x/"+names[i], s, parser.ParseComments)
				if err != nil {
					return
				}
				files = append(files, f)
			}
			v := buildFiles(ctx, files)
			before := Canon(v, true)
			var btxt strings.Builder
			for _, f := range files {
				b, _ := format.Node(f)
				btxt.Write(b)
			}
			if err := trim.Files(files, v, &trim.Config{}); err != nil {
				fmt.Println("TRIMERR", p, err)
				return
			}
			var atxt strings.Builder
			var files2 []*ast.File
			for i, f := range files {
				b, _ := format.Node(f)
				atxt.Write(b)
				f2, err := parser.ParseFile("/x/"+names[i], b, parser.ParseComments)
				if err != nil {
					fmt.Println("REPARSE", p, err)
					return
				}
				files2 = append(files2, f2)
			}
			n++
			if atxt.String() != btxt.String() {
				removedSomething++
			}
			v2 := buildFiles(cuecontext.New(), files2)
			after := Canon(v2, true)
			if before != after {
				diff++
				fmt.Printf("DIFF %s\n  before: %.400s\n  after:  %.400s\n", p, before, after)
			}
		}()
	}
	fmt.Println("checked", n, "trim changed text in", removedSomething, "diffs", diff)
}
