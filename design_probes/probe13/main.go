package main

import (
	"fmt"
	"math/rand"
	"strings"

	"cuelang.org/go/cue/cuecontext"
	"cuelang.org/go/cue/literal"
)

var alpha = []string{`"`, `'`, `#`, `\`, "\n", "\r", "\t", "\x00", "a", " ", "(", ")", "\u0085", "\u2028", "\ufeff", "😀", "\x7f", "é", "\\(", `"""`, `'''`, "\xff", "\xc3"}

func main() {
	forms := map[string]literal.Form{
		"String":           literal.String,
		"Bytes":            literal.Bytes,
		"Label":            literal.Label,
		"String.Tab1":      literal.String.WithTabIndent(1),
		"Bytes.Tab2":       literal.Bytes.WithTabIndent(2),
		"String.OptTab1":   literal.String.WithOptionalTabIndent(1),
		"String.ASCII":     literal.String.WithASCIIOnly(),
		"String.Graphic":   literal.String.WithGraphicOnly(),
		"String.OptHashes": literal.String.WithOptionalHashes(),
		"Bytes.OptHashes":  literal.Bytes.WithOptionalHashes(),
		"String.Tab1.Hash": literal.String.WithTabIndent(1).WithOptionalHashes(),
	}
	r := rand.New(rand.NewSource(1))
	var inputs []string
	for _, a := range alpha {
		inputs = append(inputs, a)
		for _, b := range alpha {
			inputs = append(inputs, a+b)
			for k := 0; k < 2; k++ {
				inputs = append(inputs, a+b+alpha[r.Intn(len(alpha))])
			}
		}
	}
	for i := 0; i < 20000; i++ {
		n := 1 + r.Intn(8)
		var sb strings.Builder
		for j := 0; j < n; j++ {
			sb.WriteString(alpha[r.Intn(len(alpha))])
		}
		inputs = append(inputs, sb.String())
	}
	inputs = append(inputs, "")
	ctx := cuecontext.New()
	fail := map[string]int{}
	total := 0
	for name, f := range forms {
		isBytes := strings.HasPrefix(name, "Bytes")
		for _, s := range inputs {
			if !isBytes && !validUTF8(s) {
				continue
			}
			total++
			var q string
			func() {
				defer func() {
					if rec := recover(); rec != nil {
						fail[name+":panic"]++
						if fail[name+":panic"] <= 2 {
							fmt.Printf("PANIC %s %q: %v\n", name, s, rec)
						}
					}
				}()
				q = f.Quote(s)
			}()
			if q == "" {
				continue
			}
			u, err := literal.Unquote(q)
			if err != nil || u != s {
				fail[name+":unquote"]++
				if fail[name+":unquote"] <= 3 {
					fmt.Printf("UNQUOTE %s s=%q q=%q -> %q err=%v\n", name, s, q, u, err)
				}
				continue
			}
			// evaluate via the parser/compiler
			src := "x: " + q
			if strings.Contains(name, "Tab") && strings.Contains(q, "\n") {
				src = "x:\n" + q // multi-line
			}
			if name == "Label" {
				src = q + ": 1"
				v := ctx.CompileString(src)
				it, _ := v.Fields()
				ok := false
				for it.Next() {
					if it.Selector().Unquoted() == s {
						ok = true
					}
				}
				if !ok {
					fail[name+":eval"]++
					if fail[name+":eval"] <= 3 {
						fmt.Printf("EVAL %s s=%q q=%q err=%v\n", name, s, q, v.Err())
					}
				}
				continue
			}
			v := ctx.CompileString(src)
			var got string
			var gerr error
			if isBytes {
				var b []byte
				b, gerr = v.LookupPath(xpath).Bytes()
				got = string(b)
			} else {
				got, gerr = v.LookupPath(xpath).String()
			}
			if gerr != nil || got != s {
				fail[name+":eval"]++
				if fail[name+":eval"] <= 3 {
					fmt.Printf("EVAL %s s=%q q=%q got=%q err=%v\n", name, s, q, got, gerr)
				}
			}
		}
	}
	fmt.Println("total", total, "failures", fail)
}
