package main

import (
	"unicode/utf8"

	"cuelang.org/go/cue"
)

var xpath = cue.ParsePath("x")

func validUTF8(s string) bool { return utf8.ValidString(s) }
