package main

import (
	"fmt"
	"io/fs"
	"math/rand"
	"os"
	"path/filepath"
	"runtime/debug"
	"sort"
	"strings"
	"time"

	"cuelang.org/go/cue"
	"cuelang.org/go/cue/cuecontext"
	"cuelang.org/go/cue/format"
	"cuelang.org/go/cue/scanner"
	"cuelang.org/go/cue/token"
	"cuelang.org/go/encoding/yaml"
	"golang.org/x/tools/txtar"
)

func tokens(src []byte) []string {
	var s scanner.Scanner
	f := token.NewFile("x", -1, len(src))
	s.Init(f, src, nil, 0)
	var out []string
	for {
		_, tok, lit := s.Scan()
		if tok == token.EOF {
			break
		}
		if lit != "" {
			out = append(out, lit)
		} else {
			out = append(out, tok.String())
		}
	}
	return out
}

func pipeline(data []byte) (out string, panicSite string) {
	defer func() {
		if r := recover(); r != nil {
			st := string(debug.Stack())
			// find first cuelang frame after panic
			lines := strings.Split(st, "\n")
			site := ""
			for i, l := range lines {
				if strings.HasPrefix(l, "panic(") {
					for j := i + 2; j < len(lines); j += 2 {
						if strings.Contains(lines[j], "cuelang.org/go") {
							site = strings.TrimSpace(lines[j]) + " <- " + strings.TrimSpace(lines[j+1])
							break
						}
					}
					break
				}
			}
			panicSite = fmt.Sprintf("%v @ %s", r, site)
		}
	}()
	ctx := cuecontext.New()
	v := ctx.CompileBytes(data)
	var sb strings.Builder
	if err := v.Err(); err != nil {
		sb.WriteString("ERR " + err.Error())
	}
	_ = v.Validate()
	_ = v.Validate(cue.Concrete(true))
	n := v.Syntax(cue.Final())
	b, _ := format.Node(n)
	sb.Write(b)
	j, _ := v.MarshalJSON()
	sb.Write(j)
	y, _ := yaml.Encode(v)
	sb.Write(y)
	return sb.String(), ""
}

func main() {
	var srcs [][]byte
	filepath.WalkDir("/repo/cue/testdata", func(p string, d fs.DirEntry, err error) error {
		if err != nil || d.IsDir() || !strings.HasSuffix(p, ".txtar") {
			return nil
		}
		a, _ := txtar.ParseFile(p)
		for _, f := range a.Files {
			if strings.HasSuffix(f.Name, ".cue") && !strings.HasPrefix(f.Name, "out/") && len(f.Data) < 1500 && !strings.Contains(string(f.Data), "import") {
				srcs = append(srcs, f.Data)
			}
		}
		return nil
	})
	rng := rand.New(rand.NewSource(7))
	var pool []string
	for _, s := range srcs {
		pool = append(pool, tokens(s)...)
	}
	fmt.Println("srcs", len(srcs), "pool", len(pool))
	panics := map[string]int{}
	witness := map[string]string{}
	timeouts, nondet, total := 0, 0, 0
	N := 6000
	for i := 0; i < N; i++ {
		src := srcs[rng.Intn(len(srcs))]
		toks := tokens(src)
		if len(toks) == 0 {
			continue
		}
		for k := 0; k < 1+rng.Intn(3); k++ {
			j := rng.Intn(len(toks))
			switch rng.Intn(4) {
			case 0:
				toks = append(toks[:j], toks[j+1:]...)
			case 1:
				toks = append(toks[:j], append([]string{pool[rng.Intn(len(pool))]}, toks[j:]...)...)
			case 2:
				toks[j] = pool[rng.Intn(len(pool))]
			case 3:
				k2 := rng.Intn(len(toks))
				toks[j], toks[k2] = toks[k2], toks[j]
			}
			if len(toks) == 0 {
				break
			}
		}
		data := []byte(strings.Join(toks, " "))
		data = []byte(strings.ReplaceAll(string(data), " , ", ",\n"))
		total++
		done := make(chan [3]string, 1)
		go func() {
			o1, p1 := pipeline(data)
			o2, _ := pipeline(data)
			done <- [3]string{o1, p1, o2}
		}()
		select {
		case r := <-done:
			if r[1] != "" {
				panics[r[1]]++
				if _, ok := witness[r[1]]; !ok {
					witness[r[1]] = string(data)
				}
			} else if r[0] != r[2] {
				nondet++
				if nondet < 4 {
					fmt.Printf("NONDET input:\n%s\n", data)
				}
			}
		case <-time.After(5 * time.Second):
			timeouts++
			os.WriteFile(fmt.Sprintf("/tmp/probe5/timeout-%d.cue", timeouts), data, 0o644)
			if timeouts > 10 {
				fmt.Println("too many timeouts")
				goto end
			}
		}
	}
end:
	fmt.Println("total", total, "timeouts", timeouts, "nondet", nondet, "distinct panic sites", len(panics))
	var keys []string
	for k := range panics {
		keys = append(keys, k)
	}
	sort.Strings(keys)
	for _, k := range keys {
		fmt.Printf("%4d %s\n     witness: %.200q\n", panics[k], k, witness[k])
	}
}
