package main

import (
	"crypto/sha256"
	"fmt"
	"sort"
	"strings"
	"sync"

	"cuelang.org/go/cue"
	"cuelang.org/go/cue/cuecontext"
	"cuelang.org/go/cue/format"
	"cuelang.org/go/encoding/yaml"
)

type op func(v cue.Value) string

func h(s string) string { return fmt.Sprintf("%x", sha256.Sum256([]byte(s)))[:12] }

func fieldPaths(v cue.Value) []cue.Path {
	var out []cue.Path
	it, _ := v.Fields(cue.All())
	for it.Next() {
		out = append(out, cue.MakePath(it.Selector()))
	}
	return out
}

var ops = []op{
	func(v cue.Value) string { // walk fields, kinds, defaults
		var sb strings.Builder
		v.Walk(func(x cue.Value) bool {
			d, ok := x.Default()
			sb.WriteString(fmt.Sprint(x.Path(), x.IncompleteKind(), ok, d.Kind(), x.IsConcrete(), ";"))
			return true
		}, nil)
		return sb.String()
	},
	func(v cue.Value) string { return fmt.Sprint(v.Validate() == nil, v.Validate(cue.Concrete(true)) == nil) },
	func(v cue.Value) string {
		b, err := format.Node(v.Syntax(cue.Final()))
		return string(b) + fmt.Sprint(err == nil)
	},
	func(v cue.Value) string {
		b, err := format.Node(v.Syntax(cue.All()))
		return string(b) + fmt.Sprint(err == nil)
	},
	func(v cue.Value) string {
		b, err := v.MarshalJSON()
		return string(b) + fmt.Sprint(err == nil)
	},
	func(v cue.Value) string {
		b, err := yaml.Encode(v)
		return string(b) + fmt.Sprint(err == nil)
	},
	func(v cue.Value) string {
		var m map[string]any
		err := v.Decode(&m)
		keys := make([]string, 0, len(m))
		for k := range m {
			keys = append(keys, k)
		}
		sort.Strings(keys)
		return fmt.Sprint(keys, err == nil)
	},
	func(v cue.Value) string { // derive: unify with itself & fill
		u := v.Unify(v)
		f := v.FillPath(cue.ParsePath("zz"), 1)
		return fmt.Sprint(u.Validate() == nil, f.LookupPath(cue.ParsePath("zz")).Exists(), v.LookupPath(cue.ParsePath("zz")).Exists())
	},
	func(v cue.Value) string {
		var sb strings.Builder
		for _, p := range fieldPaths(v) {
			x := v.LookupPath(p)
			o, args := x.Expr()
			sb.WriteString(fmt.Sprint(p, o, len(args), x.IsClosed(), x.Allows(cue.Str("qq")), ";"))
		}
		return sb.String()
	},
	func(v cue.Value) string { return fmt.Sprint(v.Subsume(v) == nil, v.Equals(v)) },
}

func main() {
	N := 300
	mismatches := 0
	calls := 0
	for seed := int64(0); seed < int64(N); seed++ {
		src := GenProgram(seed)
		// sequential baseline on fresh context
		base := make([]string, len(ops))
		{
			v := cuecontext.New().CompileString(src)
			for i, o := range ops {
				base[i] = h(o(v))
			}
		}
		for _, pre := range []bool{false, true} {
			ctx := cuecontext.New()
			v := ctx.CompileString(src)
			if pre {
				v.Validate()
			}
			var wg sync.WaitGroup
			var mu sync.Mutex
			G := 8
			for g := 0; g < G; g++ {
				wg.Add(1)
				go func(g int) {
					defer wg.Done()
					for k := 0; k < len(ops); k++ {
						i := (g*3 + k) % len(ops)
						got := h(ops[i](v))
						mu.Lock()
						calls++
						if got != base[i] {
							mismatches++
							if mismatches < 10 {
								fmt.Printf("MISMATCH seed %d op %d pre=%v\n%s\n", seed, i, pre, src)
							}
						}
						mu.Unlock()
					}
				}(g)
			}
			wg.Wait()
			// unchanged afterwards
			for i, o := range ops {
				if h(o(v)) != base[i] {
					mismatches++
					fmt.Printf("CHANGED-AFTER seed %d op %d\n", seed, i)
				}
			}
		}
	}
	fmt.Println("programs", N, "calls", calls, "mismatches", mismatches)
}
