package main

import (
	"context"
	"fmt"
	"math/rand"
	"sort"
	"strings"
	"sync"
	"sync/atomic"
	"time"

	"cuelang.org/go/cue"
	"cuelang.org/go/cue/cuecontext"
	"cuelang.org/go/tools/flow"
)

// DAG: t0..t5 ; deps ground truth
var deps = map[string][]string{
	"t0": {}, "t1": {"t0"}, "t2": {"t0"}, "t3": {"t1", "t2"}, "t4": {}, "t5": {"t3", "t4"},
}

const prog = `
root: {
	t0: {$id: "t0", in: [], out: string}
	t1: {$id: "t1", in: [root.t0.out], out: string}
	t2: {$id: "t2", in: [mid.x], out: string}
	t3: {$id: "t3", in: [root.t1.out, root.t2.out], out: string}
	t4: {$id: "t4", in: [], out: string}
	t5: {$id: "t5", in: ["\(root.t3.out)+\(root.t4.out)"], out: string}
}
mid: x: root.t0.out
`

type ev struct {
	seq  int64
	kind string
	task string
	in   string
}

func main() {
	orders := map[string]int{}
	for trial := 0; trial < 200; trial++ {
		rng := rand.New(rand.NewSource(int64(trial)))
		ctx := cuecontext.New()
		v := ctx.CompileString(prog)
		var seq atomic.Int64
		var mu sync.Mutex
		var log []ev
		gates := map[string]chan struct{}{}
		for k := range deps {
			gates[k] = make(chan struct{}, 1)
		}
		released := map[string]bool{}
		rec := func(kind, task, in string) {
			mu.Lock()
			log = append(log, ev{seq.Add(1), kind, task, in})
			mu.Unlock()
		}
		taskFunc := func(v cue.Value) (flow.Runner, error) {
			id := v.LookupPath(cue.ParsePath("$id"))
			if !id.Exists() {
				return nil, nil
			}
			name, _ := id.String()
			return flow.RunnerFunc(func(t *flow.Task) error {
				var ins []string
				it, _ := t.Value().LookupPath(cue.ParsePath("in")).List()
				for it.Next() {
					s, err := it.Value().String()
					if err != nil {
						s = "<nonconcrete:" + err.Error() + ">"
					}
					ins = append(ins, s)
				}
				rec("start", name, strings.Join(ins, ","))
				<-gates[name]
				out := name + "(" + strings.Join(ins, ",") + ")"
				err := t.Fill(map[string]string{"out": out})
				rec("end", name, out)
				return err
			}), nil
		}
		cfg := &flow.Config{
			Root: cue.ParsePath("root"),
			UpdateFunc: func(c *flow.Controller, t *flow.Task) error {
				// choose one not yet released task among Ready/Running to release
				var cand []string
				for _, x := range c.Tasks() {
					st := x.State()
					name := strings.TrimPrefix(x.Path().String(), "root.")
					if (st == flow.Ready || st == flow.Running) && !released[name] {
						cand = append(cand, name)
					}
				}
				sort.Strings(cand)
				if len(cand) > 0 {
					pick := cand[rng.Intn(len(cand))]
					released[pick] = true
					gates[pick] <- struct{}{}
				}
				return nil
			},
		}
		c := flow.New(cfg, v, taskFunc)
		done := make(chan error, 1)
		go func() { done <- c.Run(context.Background()) }()
		select {
		case err := <-done:
			if err != nil {
				fmt.Println("run error", err)
			}
		case <-time.After(10 * time.Second):
			fmt.Println("HANG trial", trial)
			return
		}
		// check
		endSeq := map[string]int64{}
		var order []string
		starts := map[string]int{}
		for _, e := range log {
			if e.kind == "end" {
				endSeq[e.task] = e.seq
				order = append(order, e.task)
			}
		}
		for _, e := range log {
			if e.kind == "start" {
				starts[e.task]++
				for _, d := range deps[e.task] {
					if s, ok := endSeq[d]; !ok || s > e.seq {
						fmt.Println("ORDER VIOLATION", e.task, "before", d)
					}
				}
				if strings.Contains(e.in, "nonconcrete") {
					fmt.Println("STALE INPUT", e.task, e.in)
				}
			}
		}
		if len(starts) != len(deps) {
			fmt.Println("NOT ALL RAN", starts)
		}
		orders[strings.Join(order, ">")]++
		if trial == 0 {
			final, _ := c.Value().LookupPath(cue.ParsePath("root.t5.out")).String()
			fmt.Println("final t5:", final)
		}
	}
	fmt.Println("distinct completion orders:", len(orders))
}
