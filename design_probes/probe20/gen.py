import random, sys, os
seed=int(sys.argv[1]); n=int(sys.argv[2]); out=sys.argv[3]
r=random.Random(seed)
names=["a","b","c","#D","#E","_h","x"]
def scalar():
    return r.choice(["1","2","int","string",'"s"',">=1","<5",">=1 & <=3","*1 | int","1 | 2","null","bool","true","number","1.5","bytes","'b'","_","_|_","!=null","=~\"^a\""])
def ref(scope):
    if not scope: return scalar()
    p=r.choice(scope)
    if r.random()<0.3: p+= "."+r.choice(names)
    return p
def expr(scope,depth):
    k=r.random()
    if depth<=0 or k<0.25: return scalar()
    if k<0.4: return ref(scope)
    if k<0.5: return "%s & %s"%(expr(scope,depth-1),expr(scope,depth-1))
    if k<0.58: return "%s | %s"%(expr(scope,depth-1),expr(scope,depth-1))
    if k<0.63: return "*%s | %s"%(expr(scope,depth-1),expr(scope,depth-1))
    if k<0.68: return "%s + %s"%(ref(scope),r.choice(["1",ref(scope)]))
    if k<0.72: return '"\\(%s)"'%ref(scope)
    if k<0.76: return "[%s]"%", ".join([expr(scope,depth-1) for _ in range(r.randint(0,3))]+(["..."+scalar()] if r.random()<0.3 else []))
    if k<0.80: return "close(%s)"%struct(scope,depth-1)
    if k<0.83: return "%s.%s"%(struct(scope,depth-1),r.choice(names))
    if k<0.86: return "len(%s)"%ref(scope)
    if k<0.88: return "or([%s, %s])"%(expr(scope,depth-1),expr(scope,depth-1))
    if k<0.90: return "and([%s, %s])"%(expr(scope,depth-1),expr(scope,depth-1))
    if k<0.92: return "matchN(%d, [%s, %s])"%(r.randint(0,2),expr(scope,depth-1),expr(scope,depth-1))
    return struct(scope,depth-1)
def struct(scope,depth):
    decls=[]
    local=list(scope)
    for _ in range(r.randint(0,4)):
        k=r.random()
        nm=r.choice(names)
        if k<0.5:
            m=r.choice(["","","","?","!"])
            decls.append("%s%s: %s"%(nm,m,expr(local+[nm],depth)))
        elif k<0.6:
            decls.append(expr(local,depth))  # embedding
        elif k<0.68:
            decls.append("[%s]: %s"%(r.choice(["string",'=~"^a"','"a"|"b"',"_"]),expr(local,depth)))
        elif k<0.73:
            decls.append("...")
            break
        elif k<0.80:
            decls.append("if %s {%s: %s}"%(r.choice(["true","false",ref(local)+" != _|_",ref(local)+" == 1"]),nm,expr(local,depth)))
        elif k<0.86:
            decls.append('for k, v in %s {"\\(k)": %s}'%(ref(local),r.choice(["v","v & "+scalar(),expr(local,depth-1)])))
        elif k<0.90:
            decls.append("let L = %s"%expr(local,depth)); local.append("L")
        elif k<0.94:
            decls.append("(%s): %s"%(r.choice(['"d"',ref(local)]),scalar()))
        else:
            decls.append("%s: %s: %s"%(nm,r.choice(names),expr(local,depth)))
    return "{"+", ".join(decls)+"}"
os.makedirs(out,exist_ok=True)
for i in range(n):
    top=[]
    scope=["a","b","c","#D","#E","x"]
    for nm in r.sample(scope,r.randint(2,6)):
        top.append("%s: %s"%(nm,expr(scope,3)))
    open(os.path.join(out,"p%05d.cue"%i),"w").write("\n".join(top)+"\n")
