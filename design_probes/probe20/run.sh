#!/bin/bash
# run cue eval on each program with timeout; classify
f=$1
out=$(timeout -s KILL 20 /tmp/cuebin eval -i "$f" 2>&1); rc=$?
if [ $rc -eq 137 ]; then echo "TIMEOUT $f"; exit; fi
if echo "$out" | grep -q "^panic:\|fatal error:\|^goroutine "; then
  site=$(echo "$out" | grep -m3 "cuelang.org/go" | head -3 | tr '\n' ' ' | cut -c1-300)
  kind=$(echo "$out" | grep -m1 "^panic:\|fatal error:" | cut -c1-120)
  echo "CRASH $f :: $kind :: $site"
fi
