package main

import (
	"fmt"
	"math/rand"
	"os"
	"sort"
	"strings"

	"cuelang.org/go/cue"
	"cuelang.org/go/cue/cuecontext"
)

// ----- leaf algebra -----
type leaf struct {
	atom     string // "" if none; "1","2","3",`"a"`
	isInt    bool
	isString bool
	ge2      bool
	st       map[string]string // struct of atoms; nil if scalar
	isStruct bool
}

func atomKind(a string) string {
	if strings.HasPrefix(a, `"`) {
		return "string"
	}
	return "int"
}
func (l leaf) key() string {
	if l.isStruct {
		var ks []string
		for k, v := range l.st {
			ks = append(ks, k+":"+v)
		}
		sort.Strings(ks)
		return "{" + strings.Join(ks, ",") + "}"
	}
	return fmt.Sprintf("%s/%v/%v/%v", l.atom, l.isInt, l.isString, l.ge2)
}
func (l leaf) concrete() bool { return l.isStruct || l.atom != "" }

func unify(a, b leaf) (leaf, bool) {
	if a.isStruct != b.isStruct {
		return leaf{}, false
	}
	if a.isStruct {
		m := map[string]string{}
		for k, v := range a.st {
			m[k] = v
		}
		for k, v := range b.st {
			if w, ok := m[k]; ok && w != v {
				return leaf{}, false
			}
			m[k] = v
		}
		return leaf{st: m, isStruct: true}, true
	}
	r := leaf{isInt: a.isInt || b.isInt, isString: a.isString || b.isString, ge2: a.ge2 || b.ge2}
	switch {
	case a.atom != "" && b.atom != "":
		if a.atom != b.atom {
			return leaf{}, false
		}
		r.atom = a.atom
	case a.atom != "":
		r.atom = a.atom
	default:
		r.atom = b.atom
	}
	if r.isInt && r.isString {
		return leaf{}, false
	}
	if r.ge2 && r.isString {
		return leaf{}, false
	}
	if r.atom != "" {
		k := atomKind(r.atom)
		if r.isInt && k != "int" || r.isString && k != "string" {
			return leaf{}, false
		}
		if r.ge2 && (k != "int" || r.atom == "1") {
			return leaf{}, false
		}
		// atom absorbs constraints
		r = leaf{atom: r.atom}
	}
	return r, true
}

type set []leaf

func (s set) dedupe() set {
	seen := map[string]bool{}
	var out set
	for _, l := range s {
		if !seen[l.key()] {
			seen[l.key()] = true
			out = append(out, l)
		}
	}
	return out
}
func cross(a, b set) set {
	var out set
	for _, x := range a {
		for _, y := range b {
			if u, ok := unify(x, y); ok {
				out = append(out, u)
			}
		}
	}
	return out.dedupe()
}

func survive(d, v set) set {
	var out set
	for _, x := range d {
		for _, y := range v {
			if _, ok := unify(x, y); ok {
				out = append(out, x)
				break
			}
		}
	}
	return out
}

type pair struct {
	v set
	d set // nil/empty = no default
}

// ----- expressions -----
type expr struct {
	op    string // "leaf","&","|"
	leaf  leaf
	src   string
	args  []*expr
	marks []bool
}

var leafSrcs = []struct {
	src string
	l   leaf
}{
	{"1", leaf{atom: "1"}}, {"2", leaf{atom: "2"}}, {"3", leaf{atom: "3"}}, {`"a"`, leaf{atom: `"a"`}},
	{"int", leaf{isInt: true}}, {"string", leaf{isString: true}}, {">=2", leaf{ge2: true}},
	{"{a: 1}", leaf{isStruct: true, st: map[string]string{"a": "1"}}},
	{"{b: 2}", leaf{isStruct: true, st: map[string]string{"b": "2"}}},
	{"{a: 1, b: 2}", leaf{isStruct: true, st: map[string]string{"a": "1", "b": "2"}}},
	{"{a: 2}", leaf{isStruct: true, st: map[string]string{"a": "2"}}},
}

func gen(r *rand.Rand, depth int, insideMarked bool) *expr {
	if depth == 0 || r.Intn(3) == 0 {
		l := leafSrcs[r.Intn(len(leafSrcs))]
		return &expr{op: "leaf", leaf: l.l, src: l.src}
	}
	if r.Intn(2) == 0 {
		return &expr{op: "&", args: []*expr{gen(r, depth-1, insideMarked), gen(r, depth-1, insideMarked)}}
	}
	n := 2 + r.Intn(2)
	e := &expr{op: "|"}
	marked := !insideMarked && r.Intn(2) == 0
	any := false
	for i := 0; i < n; i++ {
		m := marked && r.Intn(2) == 0
		any = any || m
		e.marks = append(e.marks, m)
	}
	for i := 0; i < n; i++ {
		// a marked disjunction's terms must not contain marks (no nesting)
		e.args = append(e.args, gen(r, depth-1, insideMarked || any))
	}
	return e
}

func (e *expr) String() string {
	switch e.op {
	case "leaf":
		return e.src
	case "&":
		return "(" + e.args[0].String() + " & " + e.args[1].String() + ")"
	default:
		var parts []string
		for i, a := range e.args {
			s := a.String()
			if e.marks[i] {
				s = "*" + s
			}
			parts = append(parts, s)
		}
		return "(" + strings.Join(parts, " | ") + ")"
	}
}

func eval(e *expr) pair {
	switch e.op {
	case "leaf":
		return pair{v: set{e.leaf}}
	case "&":
		a, b := eval(e.args[0]), eval(e.args[1])
		p := pair{v: cross(a.v, b.v)}
		ad, bd := survive(a.d, b.v), survive(b.d, a.v)
		switch {
		case len(ad) > 0 && len(bd) > 0:
			p.d = cross(ad, bd)
		case len(ad) > 0:
			p.d = cross(ad, b.v)
		case len(bd) > 0:
			p.d = cross(a.v, bd)
		}
		return p
	default:
		marked := false
		for _, m := range e.marks {
			marked = marked || m
		}
		var p pair
		for i, a := range e.args {
			x := eval(a)
			if marked {
				if e.marks[i] {
					if len(x.d) == 0 {
						x.d = x.v // M1
					}
				} else {
					x.d = nil // M0/M3
				}
			}
			p.v = append(p.v, x.v...)
			p.d = append(p.d, x.d...)
		}
		p.v = p.v.dedupe()
		p.d = p.d.dedupe()
		return p
	}
}

func main() {
	r := rand.New(rand.NewSource(5))
	N := 20000
	if len(os.Args) > 1 {
		fmt.Sscan(os.Args[1], &N)
	}
	ctx := cuecontext.New()
	mism := 0
	stats := map[string]int{}
	classes := map[string]int{}
	report := func(class, src, detail string) {
		mism++
		classes[class]++
		if classes[class] <= 4 {
			fmt.Printf("MISMATCH %s: %s\n   %s\n", class, src, detail)
		}
	}
	for i := 0; i < N; i++ {
		e := gen(r, 3, false)
		src := e.String()
		p := eval(e)
		v := ctx.CompileString("x: " + src).LookupPath(cue.ParsePath("x"))
		// bottom
		if len(p.v) == 0 {
			stats["bottom"]++
			if v.Err() == nil {
				report("model-bottom-impl-ok", src, fmt.Sprint(v))
			}
			continue
		}
		if v.Err() != nil {
			report("impl-bottom-model-ok", src, v.Err().Error())
			continue
		}
		// default resolution
		D := p.d
		if len(D) == 0 {
			D = p.v
			stats["nodefault"]++
		} else {
			stats["hasdefault"]++
		}
		wantConcrete := len(D) == 1 && D[0].concrete()
		gotConcrete := v.Validate(cue.Concrete(true)) == nil
		if wantConcrete != gotConcrete {
			report(fmt.Sprintf("concrete model=%v impl=%v", wantConcrete, gotConcrete), src, fmt.Sprintf("D=%v v=%v  impl=%v", keys(D), keys(p.v), v))
		} else if wantConcrete {
			stats["unique"]++
			b, _ := v.MarshalJSON()
			want := D[0].key()
			got := normJSON(string(b))
			if got == "{b:2,a:1}" { got = "{a:1,b:2}" }
			if got == "{b:2,a:2}" { got = "{a:2,b:2}" }
			if D[0].isStruct {
				if got != want {
					report("default-value", src, fmt.Sprintf("want %s got %s", want, got))
				}
			} else if got != D[0].atom {
				report("default-value", src, fmt.Sprintf("want %s got %s", D[0].atom, got))
			}
		} else {
			stats["ambiguous"]++
		}
		// probes
		for _, pl := range leafSrcs[:4] {
			want := false
			for _, l := range p.v {
				if _, ok := unify(l, pl.l); ok {
					want = true
				}
			}
			pv := ctx.CompileString("x: " + src + " & " + pl.src).LookupPath(cue.ParsePath("x"))
			got := pv.Err() == nil
			if want != got {
				report(fmt.Sprintf("probe model=%v impl=%v", want, got), src+" & "+pl.src, "")
			}
		}
	}
	fmt.Println("cases", N, "mismatches", mism, stats)
	for k, v := range classes {
		fmt.Println("  ", v, k)
	}
}

func keys(s set) []string {
	var out []string
	for _, l := range s {
		out = append(out, l.key())
	}
	return out
}

func normJSON(s string) string {
	s = strings.ReplaceAll(s, `"a":`, "a:")
	s = strings.ReplaceAll(s, `"b":`, "b:")
	return s
}
