package main

import (
	"fmt"
	"sort"
	"strings"

	"cuelang.org/go/cue"
	"cuelang.org/go/internal/core/adt"
	"cuelang.org/go/internal/core/debug"
	"cuelang.org/go/internal/value"
)

type canonizer struct {
	r     adt.Runtime
	ctx   *adt.OpContext
	stack []*adt.Vertex
	// final: take defaults
	final bool
	// regularOnly: only regular fields, no closedness, no patterns
	regularOnly bool
}

func CanonProj(v cue.Value, final, regularOnly bool) string {
	r, n := value.ToInternal(v)
	ctx := adt.NewContext(r, n)
	n.Finalize(ctx)
	c := &canonizer{r: r, ctx: ctx, final: final, regularOnly: regularOnly}
	var sb strings.Builder
	c.vertex(&sb, n, 0)
	return sb.String()
}

func Canon(v cue.Value, final bool) string {
	r, n := value.ToInternal(v)
	ctx := adt.NewContext(r, n)
	n.Finalize(ctx)
	c := &canonizer{r: r, ctx: ctx, final: final}
	var sb strings.Builder
	c.vertex(&sb, n, 0)
	return sb.String()
}

func (c *canonizer) vertex(w *strings.Builder, v *adt.Vertex, depth int) {
	v = v.DerefValue()
	v.Finalize(c.ctx)
	if c.final {
		v = v.Default()
		v = v.DerefValue()
	}
	for _, s := range c.stack {
		if s == v {
			w.WriteString("<cycle>")
			return
		}
	}
	if depth > 40 {
		w.WriteString("<deep>")
		return
	}
	c.stack = append(c.stack, v)
	defer func() { c.stack = c.stack[:len(c.stack)-1] }()

	switch b := v.BaseValue.(type) {
	case nil:
		w.WriteString("<nil>")
	case *adt.Bottom:
		fmt.Fprintf(w, "_|_(%v)", b.Code)
	case *adt.StructMarker:
		c.structv(w, v, depth)
	case *adt.ListMarker:
		w.WriteString("[")
		for e := range v.Elems() {
			c.vertex(w, e, depth+1)
			w.WriteString(",")
		}
		if b.IsOpen {
			w.WriteString("...")
			// element type of the open tail
			c.patterns(w, v, depth)
		}
		w.WriteString("]")
	case *adt.Vertex:
		c.vertex(w, b, depth+1)
	default:
		w.WriteString(c.value(b.(adt.Value), depth))
	}
}

func (c *canonizer) value(x adt.Value, depth int) string {
	switch x := x.(type) {
	case *adt.Vertex:
		var sb strings.Builder
		c.vertex(&sb, x, depth+1)
		return sb.String()
	case *adt.Conjunction:
		var parts []string
		for _, v := range x.Values {
			parts = append(parts, c.value(v, depth))
		}
		sort.Strings(parts)
		return "&(" + strings.Join(parts, ",") + ")"
	case *adt.Disjunction:
		var defs, rest []string
		for i, v := range x.Values {
			s := c.value(v, depth)
			if i < x.NumDefaults {
				defs = append(defs, s)
			} else {
				rest = append(rest, s)
			}
		}
		sort.Strings(defs)
		sort.Strings(rest)
		return "|(*" + strings.Join(defs, ",*") + ";" + strings.Join(rest, ",") + ")"
	case *adt.Num:
		return fmt.Sprintf("%v:%s", x.K, x.X.String())
	default:
		return debug.NodeString(c.r, x, &debug.Config{Compact: true})
	}
}

func (c *canonizer) patterns(w *strings.Builder, v *adt.Vertex, depth int) {
	if v.PatternConstraints == nil {
		return
	}
	var parts []string
	for _, p := range v.PatternConstraints.Pairs {
		var sb strings.Builder
		sb.WriteString("[" + c.value(p.Pattern, depth) + "]:")
		c.vertex(&sb, p.Constraint, depth+1)
		parts = append(parts, sb.String())
	}
	sort.Strings(parts)
	w.WriteString(strings.Join(parts, ";"))
}

func (c *canonizer) structv(w *strings.Builder, v *adt.Vertex, depth int) {
	var parts []string
	for _, a := range v.Arcs {
		if a.Label.IsLet() {
			continue
		}
		if c.regularOnly && (!a.Label.IsRegular() || a.ArcType != adt.ArcMember) {
			continue
		}
		var sb strings.Builder
		sb.WriteString(a.Label.SelectorString(c.r))
		switch a.ArcType {
		case adt.ArcMember:
		case adt.ArcOptional:
			sb.WriteString("?")
		case adt.ArcRequired:
			sb.WriteString("!")
		default:
			continue // not present / pending
		}
		sb.WriteString(":")
		c.vertex(&sb, a, depth+1)
		parts = append(parts, sb.String())
	}
	sort.Strings(parts)
	w.WriteString("{")
	if v.IsClosedStruct() && !c.regularOnly {
		w.WriteString("#closed;")
	}
	w.WriteString(strings.Join(parts, ";"))
	if !c.final && !c.regularOnly {
		w.WriteString("|P:")
		c.patterns(w, v, depth)
	}
	w.WriteString("}")
}
