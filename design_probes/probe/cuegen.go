package main

import (
	"fmt"
	"math/rand"
	"strings"
)

// Prototype program generator (design probe). Acyclic references by construction:
// top-level fields are generated in sequence and may only refer to earlier ones.

type shape struct {
	kind     string // "int","str","struct","list","def"
	concrete bool
	fields   map[string]*shape // for struct/def
	order    []string
}

type gen struct {
	r      *rand.Rand
	top    []string          // names of generated top-level fields in order
	shapes map[string]*shape // top-level name -> shape
	defs   []string
}

var fieldNames = []string{"a", "b", "c", "d", "e"}

func (g *gen) pick(xs []string) string { return xs[g.r.Intn(len(xs))] }

func (g *gen) refsOf(kind string, concreteOnly bool) []string {
	var out []string
	for _, n := range g.top {
		s := g.shapes[n]
		if s.kind == kind && (!concreteOnly || s.concrete) {
			out = append(out, n)
		}
		if s.kind == "struct" {
			for _, fn := range s.order {
				fs := s.fields[fn]
				if fs.kind == kind && (!concreteOnly || fs.concrete) && !strings.HasSuffix(fn, "?") {
					out = append(out, n+"."+fn)
				}
			}
		}
	}
	return out
}

func (g *gen) intExpr() (string, *shape) {
	refs := g.refsOf("int", true)
	switch g.r.Intn(10) {
	case 0:
		return "int", &shape{kind: "int"}
	case 1:
		lo := g.r.Intn(5)
		return fmt.Sprintf(">=%d & <=%d", lo, lo+g.r.Intn(6)), &shape{kind: "int"}
	case 2:
		return fmt.Sprintf("*%d | int", g.r.Intn(5)), &shape{kind: "int"}
	case 3:
		return fmt.Sprintf("%d | %d", g.r.Intn(3), 3+g.r.Intn(3)), &shape{kind: "int"}
	case 4, 5:
		if len(refs) > 0 {
			op := g.pick([]string{"+", "-", "*"})
			return fmt.Sprintf("%s %s %d", g.pick(refs), op, g.r.Intn(4)), &shape{kind: "int", concrete: true}
		}
	case 6:
		if len(refs) > 0 {
			return g.pick(refs), &shape{kind: "int", concrete: true}
		}
	case 7:
		return fmt.Sprintf("uint8 & >%d", g.r.Intn(4)), &shape{kind: "int"}
	}
	return fmt.Sprint(g.r.Intn(7)), &shape{kind: "int", concrete: true}
}

func (g *gen) strExpr() (string, *shape) {
	refs := append(g.refsOf("str", true), g.refsOf("int", true)...)
	switch g.r.Intn(8) {
	case 0:
		return "string", &shape{kind: "str"}
	case 1:
		return `=~"^a"`, &shape{kind: "str"}
	case 2:
		return `*"ax" | string`, &shape{kind: "str"}
	case 3:
		return `"ax" | "bx"`, &shape{kind: "str"}
	case 4, 5:
		if len(refs) > 0 {
			return fmt.Sprintf(`"a\(%s)z"`, g.pick(refs)), &shape{kind: "str", concrete: true}
		}
	}
	return fmt.Sprintf("%q", g.pick([]string{"ax", "bx", "a b", "", "null"})), &shape{kind: "str", concrete: true}
}

func (g *gen) scalar() (string, *shape) {
	if g.r.Intn(2) == 0 {
		return g.intExpr()
	}
	return g.strExpr()
}

func (g *gen) structLit(depth int, inDef bool) (string, *shape) {
	sh := &shape{kind: "struct", fields: map[string]*shape{}}
	var parts []string
	n := 1 + g.r.Intn(3)
	used := map[string]bool{}
	for i := 0; i < n; i++ {
		name := g.pick(fieldNames)
		if used[name] {
			continue
		}
		used[name] = true
		marker := ""
		if g.r.Intn(5) == 0 {
			marker = "?"
		} else if inDef && g.r.Intn(8) == 0 {
			marker = "!"
		}
		var src string
		var fs *shape
		if depth > 0 && g.r.Intn(3) == 0 {
			src, fs = g.structLit(depth-1, inDef)
		} else if depth > 0 && g.r.Intn(6) == 0 {
			src, fs = g.listLit()
		} else {
			src, fs = g.scalar()
		}
		parts = append(parts, fmt.Sprintf("%s%s: %s", name, marker, src))
		if marker == "" {
			sh.fields[name] = fs
			sh.order = append(sh.order, name)
		}
	}
	if g.r.Intn(6) == 0 {
		parts = append(parts, `[=~"^z"]: int`)
	}
	if g.r.Intn(10) == 0 {
		parts = append(parts, "...")
	}
	if g.r.Intn(8) == 0 {
		// conditional field on an earlier concrete int
		if refs := g.refsOf("int", true); len(refs) > 0 {
			parts = append(parts, fmt.Sprintf("if %s > %d {y: 1}", g.pick(refs), g.r.Intn(4)))
		}
	}
	if g.r.Intn(10) == 0 {
		parts = append(parts, "_h: 1")
	}
	return "{" + strings.Join(parts, ", ") + "}", sh
}

func (g *gen) listLit() (string, *shape) {
	var parts []string
	for i := 0; i < g.r.Intn(4); i++ {
		s, _ := g.scalar()
		parts = append(parts, s)
	}
	if g.r.Intn(4) == 0 {
		parts = append(parts, "...int")
	}
	return "[" + strings.Join(parts, ", ") + "]", &shape{kind: "list"}
}

// Program returns source text.
func (g *gen) Program() string {
	g.shapes = map[string]*shape{}
	var decls []string
	nDefs := g.r.Intn(3)
	for i := 0; i < nDefs; i++ {
		name := fmt.Sprintf("#D%d", i)
		src, sh := g.structLit(1, true)
		sh.kind = "def"
		decls = append(decls, name+": "+src)
		g.defs = append(g.defs, name)
		g.shapes[name] = sh
	}
	n := 2 + g.r.Intn(5)
	for i := 0; i < n; i++ {
		name := fmt.Sprintf("f%d", i)
		var src string
		var sh *shape
		switch g.r.Intn(14) {
		case 9:
			// disjunction of structs with optional default
			s1, _ := g.structLit(1, false)
			s2, _ := g.structLit(1, false)
			star := g.pick([]string{"", "*"})
			src, sh = star+s1+" | "+s2, &shape{kind: "other"}
		case 10:
			// close() and embedding of a definition
			s1, sh1 := g.structLit(1, false)
			if len(g.defs) > 0 && g.r.Intn(2) == 0 {
				src = "{" + g.pick(g.defs) + ", " + strings.TrimPrefix(s1, "{")
			} else {
				src = "close(" + s1 + ")"
			}
			sh = &shape{kind: "other", fields: sh1.fields}
		case 11:
			// earlier struct unified with a literal
			var structs []string
			for _, n := range g.top {
				if k := g.shapes[n].kind; k == "struct" {
					structs = append(structs, n)
				}
			}
			s1, _ := g.structLit(1, false)
			if len(structs) > 0 {
				src = g.pick(structs) + " & " + s1
			} else {
				src = s1
			}
			sh = &shape{kind: "other"}
		case 12:
			// list of structs, possibly open
			s1, _ := g.structLit(1, false)
			s2, _ := g.structLit(0, false)
			src = "[" + s1 + ", " + s2 + g.pick([]string{"", ", ...{a?: int}"}) + "]"
			sh = &shape{kind: "list"}
		case 13:
			// let + hidden field
			e, _ := g.intExpr()
			src = "{let L = " + e + ", _p: L, a: _p, b: L}"
			sh = &shape{kind: "other"}
		case 0, 1, 2:
			src, sh = g.scalar()
		case 3, 4:
			src, sh = g.structLit(2, false)
		case 5:
			src, sh = g.listLit()
		case 6:
			if len(g.defs) > 0 {
				d := g.pick(g.defs)
				// use of a definition with some data
				var data []string
				ds := g.shapes[d]
				for _, fn := range ds.order {
					if g.r.Intn(2) == 0 {
						fs := ds.fields[fn]
						switch fs.kind {
						case "int":
							data = append(data, fmt.Sprintf("%s: %d", fn, g.r.Intn(6)))
						case "str":
							data = append(data, fmt.Sprintf("%s: %q", fn, g.pick([]string{"ax", "bx"})))
						}
					}
				}
				if g.r.Intn(6) == 0 {
					data = append(data, "q: 1") // likely not allowed
				}
				src = d + " & {" + strings.Join(data, ", ") + "}"
				sh = &shape{kind: "other"}
			} else {
				src, sh = g.scalar()
			}
		case 7:
			// conjunction of struct literals / same field declared twice
			s1, sh1 := g.structLit(1, false)
			s2, _ := g.structLit(1, false)
			src, sh = s1+" & "+s2, &shape{kind: "other", fields: sh1.fields}
		case 8:
			// struct comprehension over an earlier struct
			var structs []string
			for _, n := range g.top {
				if g.shapes[n].kind == "struct" {
					structs = append(structs, n)
				}
			}
			if len(structs) > 0 {
				src = fmt.Sprintf(`{for k, v in %s {"\(k)x": v}}`, g.pick(structs))
				sh = &shape{kind: "other"}
			} else {
				src, sh = g.scalar()
			}
		}
		decls = append(decls, name+": "+src)
		// occasionally add a second declaration of the same field (extra conjunct)
		if sh.kind == "int" && !sh.concrete && g.r.Intn(3) == 0 {
			decls = append(decls, fmt.Sprintf("%s: %d", name, g.r.Intn(6)))
			sh.concrete = true
		}
		g.top = append(g.top, name)
		g.shapes[name] = sh
	}
	return strings.Join(decls, "\n") + "\n"
}

func GenProgram(seed int64) string {
	g := &gen{r: rand.New(rand.NewSource(seed))}
	return g.Program()
}
