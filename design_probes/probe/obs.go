package main

import (
	"fmt"
	"sort"
	"strings"

	"cuelang.org/go/cue"
	"cuelang.org/go/internal/core/adt"
	"cuelang.org/go/internal/value"
)

// Observe builds an order-insensitive description of v from the public API,
// plus the error class taken from adt.Bottom.Code.
//
// mode: "raw" | "final" | "data"
type observer struct {
	ctx    *cue.Context
	mode   string
	probes []cue.Value // probe atoms
	psrc   []string
	labels []string // label alphabet for Allows
	depth  int
}

func newObserver(ctx *cue.Context, mode string, probeSrc []string, labels []string) *observer {
	o := &observer{ctx: ctx, mode: mode, labels: labels}
	for _, s := range probeSrc {
		o.probes = append(o.probes, ctx.CompileString(s))
		o.psrc = append(o.psrc, s)
	}
	return o
}

func errClass(v cue.Value) string {
	_, n := value.ToInternal(v)
	if n == nil {
		return "nil"
	}
	if b, ok := n.BaseValue.(*adt.Bottom); ok && b != nil {
		if b.ChildError && len(n.Arcs) > 0 {
			return ""
		}
		switch b.Code {
		case adt.IncompleteError:
			return "incomplete"
		case adt.CycleError:
			return "cycle"
		case adt.StructuralCycleError:
			return "structcycle"
		default:
			return "eval"
		}
	}
	return ""
}

func (o *observer) obs(v cue.Value, depth int) string {
	if depth > 12 {
		return "<deep>"
	}
	if !v.Exists() {
		return "<absent>"
	}
	if o.mode != "raw" {
		if d, ok := v.Default(); ok {
			v = d
		}
	}
	if c := errClass(v); c != "" {
		return "_|_(" + c + ")"
	}
	k := v.IncompleteKind()
	if _, n := value.ToInternal(v); n != nil {
		if b, ok := n.BaseValue.(*adt.Bottom); ok && b != nil && b.ChildError && len(n.Arcs) > 0 {
			return o.arcsObs(v, n, depth)
		}
	}
	switch {
	case k == cue.StructKind && v.Kind() == cue.StructKind || k == cue.StructKind:
		return o.structObs(v, depth)
	case k == cue.ListKind:
		var parts []string
		it, err := v.List()
		if err == nil {
			for it.Next() {
				parts = append(parts, o.obs(it.Value(), depth+1))
			}
		}
		open := ""
		if l := v.Len(); !l.IsConcrete() {
			open = ",..." + o.obs(v.LookupPath(cue.MakePath(cue.AnyIndex)), depth+1)
		}
		return "[" + strings.Join(parts, ",") + open + "]"
	}
	if v.IsConcrete() {
		switch v.Kind() {
		case cue.NullKind:
			return "null"
		case cue.BoolKind:
			b, _ := v.Bool()
			return fmt.Sprint(b)
		case cue.IntKind, cue.FloatKind:
			return fmt.Sprintf("%v:%v", v.Kind(), v)
		case cue.StringKind:
			s, _ := v.String()
			return fmt.Sprintf("%q", s)
		case cue.BytesKind:
			b, _ := v.Bytes()
			return fmt.Sprintf("'%x'", b)
		}
	}
	// non-concrete scalar: kind + probe acceptance vector + default info
	var sb strings.Builder
	fmt.Fprintf(&sb, "<%v", k)
	if o.mode == "raw" {
		if d, ok := v.Default(); ok {
			sb.WriteString(" def=" + o.obs(d, depth+1))
		}
	}
	sb.WriteString(" acc=")
	for i, p := range o.probes {
		u := v.Unify(p)
		if u.Validate() == nil {
			sb.WriteString(o.psrc[i] + ";")
		}
	}
	sb.WriteString(">")
	return sb.String()
}

func (o *observer) structObs(v cue.Value, depth int) string {
	var parts []string
	opts := []cue.Option{cue.All()}
	if o.mode == "data" {
		opts = nil
	}
	if o.mode == "final" {
		opts = []cue.Option{cue.Optional(false), cue.Definitions(false), cue.Hidden(false)}
	}
	it, err := v.Fields(opts...)
	if err != nil {
		return "_|_(fields:" + errClass(v) + ")"
	}
	for it.Next() {
		sel := it.Selector()
		parts = append(parts, sel.String()+":"+o.obs(it.Value(), depth+1))
	}
	sort.Strings(parts)
	extra := ""
	if o.mode == "raw" {
		var al []string
		for _, l := range o.labels {
			if v.Allows(cue.Str(l)) {
				al = append(al, l)
			}
		}
		extra = fmt.Sprintf("|closed=%v allows=%s any=%v", v.IsClosed(), strings.Join(al, ","), v.Allows(cue.AnyString))
		// pattern constraints: observe what a fresh matching field would be constrained to
		for _, l := range o.labels {
			if v.Allows(cue.Str(l)) && !v.LookupPath(cue.MakePath(cue.Str(l))).Exists() {
				f := v.FillPath(cue.MakePath(cue.Str(l)), o.ctx.CompileString("_"))
				fv := f.LookupPath(cue.MakePath(cue.Str(l)))
				if fv.Exists() && depth < 3 {
					extra += "|new." + l + "=" + o.obs(fv, depth+4)
				}
			}
		}
	}
	return "{" + strings.Join(parts, ";") + extra + "}"
}

var defaultProbes = []string{"0", "1", "2", "3", "4", "5", "6", "7", "-1", "100", "255", "256", "1.5", `"ax"`, `"bx"`, `"a b"`, `""`, `"zz"`, "true", "null", "'b'"}
var defaultLabels = []string{"a", "b", "c", "d", "e", "q", "y", "z1", "zq"}

func ObserveSrc(data []byte, mode string) (string, error) {
	ctx := newCtx()
	v := ctx.CompileBytes(data)
	if v.Err() != nil && !v.Exists() {
		return "", v.Err()
	}
	return newObserver(ctx, mode, defaultProbes, defaultLabels).obs(v, 0), nil
}

// arcsObs describes a struct or list whose own value is a child error, by
// walking the internal arcs (the public Fields API refuses erroneous structs).
func (o *observer) arcsObs(v cue.Value, n *adt.Vertex, depth int) string {
	r, _ := value.ToInternal(v)
	var parts []string
	isList := false
	for _, a := range n.Arcs {
		if a.Label.IsLet() {
			continue
		}
		if a.Label.IsInt() {
			isList = true
		}
		m := ""
		switch a.ArcType {
		case adt.ArcMember:
		case adt.ArcOptional:
			m = "?"
		case adt.ArcRequired:
			m = "!"
		default:
			continue
		}
		if o.mode != "raw" && (m != "" || !a.Label.IsRegular()) {
			continue
		}
		av := value.Make(adt.NewContext(r, a), a)
		parts = append(parts, a.Label.SelectorString(r)+m+":"+o.obs(av, depth+1))
	}
	if isList {
		return "E[" + strings.Join(parts, ",") + "]"
	}
	sort.Strings(parts)
	return "E{" + strings.Join(parts, ";") + "}"
}
