package main

import (
	"fmt"
	"io/fs"
	"math/rand"
	"os"
	"path/filepath"
	"strings"
	"time"

	"cuelang.org/go/cue"
	"cuelang.org/go/cue/ast"
	"cuelang.org/go/cue/cuecontext"
	"cuelang.org/go/cue/format"
	"cuelang.org/go/cue/parser"
	"golang.org/x/tools/txtar"
)

type src struct {
	name string
	data []byte
}

func corpus(root string) []src {
	var out []src
	filepath.WalkDir(root, func(p string, d fs.DirEntry, err error) error {
		if err != nil || d.IsDir() || !strings.HasSuffix(p, ".txtar") {
			return nil
		}
		a, err := txtar.ParseFile(p)
		if err != nil {
			return nil
		}
		var cues []txtar.File
		for _, f := range a.Files {
			if strings.HasSuffix(f.Name, ".cue") && !strings.HasPrefix(f.Name, "out/") {
				cues = append(cues, f)
			}
		}
		for _, f := range cues {
			if strings.Contains(string(f.Data), "\nimport ") || strings.HasPrefix(string(f.Data), "import ") {
				continue
			}
			out = append(out, src{p + ":" + f.Name, f.Data})
		}
		return nil
	})
	return out
}

func permuteDecls(rng *rand.Rand, decls []ast.Decl) []ast.Decl {
	// keep preamble and ellipsis in place
	var idx []int
	for i, d := range decls {
		switch d.(type) {
		case *ast.Package, *ast.ImportDecl, *ast.Ellipsis, *ast.CommentGroup, *ast.Attribute, *ast.BadDecl:
		default:
			idx = append(idx, i)
		}
	}
	perm := rng.Perm(len(idx))
	out := make([]ast.Decl, len(decls))
	copy(out, decls)
	for k, i := range idx {
		out[i] = decls[idx[perm[k]]]
	}
	return out
}

func permuteFile(rng *rand.Rand, f *ast.File) {
	f.Decls = permuteDecls(rng, f.Decls)
	ast.Walk(f, func(n ast.Node) bool {
		if s, ok := n.(*ast.StructLit); ok {
			s.Elts = permuteDecls(rng, s.Elts)
		}
		return true
	}, nil)
}

func evalCanon(data []byte, final bool) (s string, err error) {
	defer func() {
		if r := recover(); r != nil {
			err = fmt.Errorf("PANIC: %v", r)
		}
	}()
	ctx := cuecontext.New()
	v := ctx.CompileBytes(data)
	if v.Err() != nil && !v.Exists() {
		return "", v.Err()
	}
	return Canon(v, final), nil
}

func newCtx() *cue.Context { return cuecontext.New() }

func withTimeout(d time.Duration, f func()) bool {
	done := make(chan struct{})
	go func() { defer close(done); f() }()
	select {
	case <-done:
		return true
	case <-time.After(d):
		return false
	}
}

func main() {
	cmd := os.Args[1]
	root := "/repo/cue/testdata"
	if len(os.Args) > 2 {
		root = os.Args[2]
	}
	srcs := corpus(root)
	fmt.Println("corpus files:", len(srcs))
	rng := rand.New(rand.NewSource(1))
	switch cmd {
	case "obsrt":
		N := 2000
		stats := map[string]int{}
		for seed := int64(0); seed < int64(N); seed++ {
			src := []byte(GenProgram(seed))
			r0, e0 := ObserveSrc(src, "raw")
			if e0 != nil || strings.Contains(r0, "_|_") {
				stats["skipped-error"]++
				continue
			}
			f0, _ := ObserveSrc(src, "final")
			d0, _ := ObserveSrc(src, "data")
			v := newCtx().CompileBytes(src)
			type prof struct {
				name string
				opts []cue.Option
				mode string
				want string
			}
			profs := []prof{
				{"all", []cue.Option{cue.All()}, "raw", r0},
				{"default", nil, "raw", r0},
				{"final", []cue.Option{cue.Final()}, "final", f0},
				{"evalcmd", []cue.Option{cue.Final(), cue.Definitions(true), cue.Optional(true), cue.Attributes(true)}, "final", f0},
			}
			if v.Validate(cue.Concrete(true)) == nil {
				profs = append(profs, prof{"concrete", []cue.Option{cue.Concrete(true)}, "data", d0})
			}
			for _, p := range profs {
				b, err := format.Node(v.Syntax(p.opts...))
				if err != nil {
					stats[p.name+":fmterr"]++
					continue
				}
				got, err := ObserveSrc(b, p.mode)
				if err != nil {
					stats[p.name+":recompile-err"]++
					if stats[p.name+":recompile-err"] <= 3 {
						fmt.Printf("RECOMPILE-ERR %s seed %d: %v\n--- src\n%s--- out\n%s\n", p.name, seed, err, src, b)
					}
					continue
				}
				if got != p.want {
					stats[p.name+":diff"]++
					if stats[p.name+":diff"] <= 3 {
						a, bb := p.want, got
						i := 0
						for i < len(a) && i < len(bb) && a[i] == bb[i] {
							i++
						}
						lo := max(0, i-80)
						fmt.Printf("OBS-RT-DIFF %s seed %d\n--- src\n%s--- out\n%s\n  A: ...%.200s\n  B: ...%.200s\n", p.name, seed, src, b, a[lo:], bb[lo:])
					}
				} else {
					stats[p.name+":ok"]++
				}
			}
		}
		fmt.Println(stats)
	case "obsperm":
		N := 2000
		diffs, errs := 0, 0
		for seed := int64(0); seed < int64(N); seed++ {
			src := []byte(GenProgram(seed))
			r0, e0 := ObserveSrc(src, "raw")
			f0, _ := ObserveSrc(src, "final")
			if e0 != nil {
				errs++
				continue
			}
			for trial := 0; trial < 3; trial++ {
				f, err := parser.ParseFile("x.cue", src)
				if err != nil {
					break
				}
				permuteFile(rng, f)
				b, _ := format.Node(f)
				r1, e1 := ObserveSrc(b, "raw")
				f1, _ := ObserveSrc(b, "final")
				if e1 != nil || r1 != r0 || f1 != f0 {
					diffs++
					if !strings.Contains(r0, "_|_") {
						fmt.Println("DIFF-IN-ERROR-FREE-PROGRAM seed", seed)
					}
					if diffs <= 8 {
						a, bb := r0, r1
						if a == bb {
							a, bb = f0, f1
						}
						i := 0
						for i < len(a) && i < len(bb) && a[i] == bb[i] {
							i++
						}
						lo := i - 60
						if lo < 0 {
							lo = 0
						}
						fmt.Printf("OBS-PERM-DIFF seed %d err=%v\n--- orig\n%s--- perm\n%s  A: ...%.160s\n  B: ...%.160s\n", seed, e1, src, b, a[lo:], bb[lo:])
					}
					break
				}
			}
		}
		fmt.Println("programs", N, "compile errors", errs, "diffs", diffs)
	case "genperm", "genrt":
		N := 3000
		diffs := 0
		classes := map[string]int{}
		evalOK, hasErr := 0, 0
		for seed := int64(0); seed < int64(N); seed++ {
			src := []byte(GenProgram(seed))
			var c0 string
			var e0 error
			if !withTimeout(10*time.Second, func() { c0, e0 = evalCanon(src, false) }) {
				fmt.Println("TIMEOUT", seed)
				continue
			}
			if e0 != nil {
				fmt.Printf("COMPILE-ERR seed %d: %v\n%s\n", seed, e0, src)
				continue
			}
			if strings.Contains(c0, "_|_") {
				hasErr++
			} else {
				evalOK++
			}
			if cmd == "genperm" {
				for trial := 0; trial < 4; trial++ {
					f, err := parser.ParseFile("x.cue", src)
					if err != nil {
						fmt.Println("PARSE-ERR", seed, err)
						break
					}
					permuteFile(rng, f)
					b, _ := format.Node(f)
					c1, e1 := evalCanon(b, false)
					if e1 != nil || c1 != c0 {
						diffs++
						if diffs <= 12 {
							fmt.Printf("PERM-DIFF seed %d err=%v\n--- orig\n%s--- perm\n%s  A: %.600s\n  B: %.600s\n", seed, e1, src, b, c0, c1)
						}
						break
					}
				}
				continue
			}
			// genrt
			if strings.Contains(c0, "_|_") {
				continue
			}
			ctx := cuecontext.New()
			v := ctx.CompileBytes(src)
			type prof struct {
				name        string
				opts        []cue.Option
				final, regO bool
			}
			profs := []prof{
				{"all", []cue.Option{cue.All()}, false, false},
				{"default", nil, false, false},
				{"final", []cue.Option{cue.Final()}, true, true},
				{"evalcmd", []cue.Option{cue.Final(), cue.Definitions(true), cue.Optional(true), cue.Attributes(true)}, true, true},
			}
			if v.Validate(cue.Concrete(true)) == nil {
				profs = append(profs, prof{"concrete", []cue.Option{cue.Concrete(true)}, true, true})
			}
			for _, p := range profs {
				func() {
					defer func() {
						if r := recover(); r != nil {
							classes[p.name+":panic"]++
							fmt.Println("PANIC", p.name, seed, r)
						}
					}()
					want := CanonProj(v, p.final, p.regO)
					node := v.Syntax(p.opts...)
					b, err := format.Node(node)
					if err != nil {
						classes[p.name+":fmterr"]++
						return
					}
					v2 := cuecontext.New().CompileBytes(b)
					if v2.Err() != nil && !v2.Exists() {
						classes[p.name+":recompile"]++
						if classes[p.name+":recompile"] <= 3 {
							fmt.Printf("RECOMPILE-ERR %s seed %d: %v\n--- src\n%s--- out\n%s\n", p.name, seed, v2.Err(), src, b)
						}
						return
					}
					got := CanonProj(v2, p.final, p.regO)
					if got != want {
						classes[p.name+":diff"]++
						if classes[p.name+":diff"] <= 4 {
							fmt.Printf("RT-DIFF %s seed %d\n--- src\n%s--- out\n%s\n  A: %.500s\n  B: %.500s\n", p.name, seed, src, b, want, got)
						}
					} else {
						classes[p.name+":ok"]++
					}
				}()
			}
		}
		fmt.Println("programs", N, "evalOK", evalOK, "withErrors", hasErr, "permdiffs", diffs, classes)
	case "perm":
		n, diff, skipped := 0, 0, 0
		for _, s := range srcs {
			f, err := parser.ParseFile(s.name, s.data, parser.ParseComments)
			if err != nil {
				skipped++
				continue
			}
			var c0 string
			var e0 error
			if !withTimeout(10*time.Second, func() { c0, e0 = evalCanon(s.data, false) }) {
				fmt.Println("TIMEOUT", s.name)
				continue
			}
			if e0 != nil {
				skipped++
				continue
			}
			for trial := 0; trial < 3; trial++ {
				f, _ = parser.ParseFile(s.name, s.data)
				permuteFile(rng, f)
				b, err := format.Node(f)
				if err != nil {
					fmt.Println("FMTERR", s.name, err)
					break
				}
				var c1 string
				var e1 error
				if !withTimeout(10*time.Second, func() { c1, e1 = evalCanon(b, false) }) {
					fmt.Println("TIMEOUT-perm", s.name)
					break
				}
				n++
				if e1 != nil {
					diff++
					fmt.Printf("DIFF(err) %s: %v\n", s.name, e1)
					os.WriteFile(fmt.Sprintf("/tmp/probe/out/perm-%d.cue", diff), b, 0o644)
					break
				}
				if c0 != c1 {
					diff++
					fmt.Printf("DIFF %s\n", s.name)
					os.WriteFile(fmt.Sprintf("/tmp/probe/out/perm-%d.cue", diff), []byte(fmt.Sprintf("// %s\n// A: %s\n// B: %s\n%s", s.name, c0, c1, b)), 0o644)
					break
				}
			}
		}
		fmt.Println("checked", n, "diffs", diff, "skipped", skipped)
	case "rt":
		profiles := map[string][]cue.Option{
			"final":    {cue.Final()},
			"concrete": {cue.Concrete(true)},
			"all":      {cue.All()},
			"default":  {},
			"evalcmd":  {cue.Final(), cue.Docs(true), cue.Attributes(true), cue.Optional(true), cue.Definitions(true)},
		}
		stats := map[string][3]int{}
		for _, s := range srcs {
			ctx := cuecontext.New()
			var v cue.Value
			ok := withTimeout(10*time.Second, func() {
				defer func() { recover() }()
				v = ctx.CompileBytes(s.data)
				v.Validate()
			})
			if !ok || !v.Exists() || v.Err() != nil {
				continue
			}
			for name, opts := range profiles {
				st := stats[name]
				func() {
					defer func() {
						if r := recover(); r != nil {
							fmt.Println("PANIC", name, s.name, r)
						}
					}()
					if name == "concrete" && v.Validate(cue.Concrete(true)) != nil {
						return
					}
					final := name == "final" || name == "concrete" || name == "evalcmd"
					c0 := Canon(v, final)
					node := v.Syntax(opts...)
					b, err := format.Node(node)
					if err != nil {
						st[1]++
						fmt.Println("FMTERR", name, s.name, err)
						return
					}
					st[0]++
					v2 := cuecontext.New().CompileBytes(b)
					if v2.Err() != nil && !v2.Exists() {
						st[1]++
						fmt.Printf("RECOMPILE-ERR %s %s: %v\n", name, s.name, v2.Err())
						return
					}
					c1 := Canon(v2, final)
					if c0 != c1 {
						st[2]++
						if st[2] < 15 {
							fmt.Printf("RT-DIFF %s %s\n  A: %.300s\n  B: %.300s\n", name, s.name, c0, c1)
						}
					}
				}()
				stats[name] = st
			}
		}
		fmt.Println("profile: [printed, errors, diffs]", stats)
	}
}
