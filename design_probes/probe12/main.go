package main

import (
	"archive/zip"
	"bytes"
	"fmt"
	"io"
	"io/fs"
	"math/rand"
	"os"
	"path/filepath"
	"sort"
	"strings"
	"time"

	"cuelang.org/go/mod/module"
	"cuelang.org/go/mod/modzip"
)

type memFile struct {
	path string
	data []byte
	mode fs.FileMode
}
type memIO struct{}

func (memIO) Path(f memFile) string { return f.path }
func (memIO) Lstat(f memFile) (os.FileInfo, error) {
	return fi{f}, nil
}
func (memIO) Open(f memFile) (io.ReadCloser, error) {
	return io.NopCloser(bytes.NewReader(f.data)), nil
}

type fi struct{ f memFile }

func (i fi) Name() string       { return filepath.Base(i.f.path) }
func (i fi) Size() int64        { return int64(len(i.f.data)) }
func (i fi) Mode() fs.FileMode  { return i.f.mode }
func (i fi) ModTime() time.Time { return time.Time{} }
func (i fi) IsDir() bool        { return false }
func (i fi) Sys() any           { return nil }

var elems = []string{"a", "B", "b", "ß", "SS", "K", "K", "x.cue", "X.CUE", "cue.mod", "CUE.MOD", "module.cue", "Module.cue", "vendor", ".git", "con", "aux.txt", "nul", "a b", "..", ".", "...", "a.", "~1", "a\\b", "c:", "*", "LICENSE", "local-module.cue", "pkg", "é", "é", strings.Repeat("l", 300), "", "-x", "a\x00b", "a\nb"}

func genName(r *rand.Rand) string {
	n := 1 + r.Intn(3)
	var parts []string
	for i := 0; i < n; i++ {
		parts = append(parts, elems[r.Intn(len(elems))])
	}
	s := strings.Join(parts, "/")
	switch r.Intn(12) {
	case 0:
		s = "/" + s
	case 1:
		s = "../" + s
	case 2:
		s = s + "/"
	case 3:
		s = "./" + s
	}
	return s
}

func snapshot(root string) map[string]string {
	m := map[string]string{}
	filepath.Walk(root, func(p string, info os.FileInfo, err error) error {
		if err != nil {
			return nil
		}
		rel, _ := filepath.Rel(root, p)
		m[rel] = fmt.Sprintf("%v/%d", info.Mode().Type(), info.Size())
		if info.Mode().IsRegular() {
			b, _ := os.ReadFile(p)
			m[rel] += "/" + fmt.Sprint(len(b)) + ":" + string(b[:min(len(b), 8)])
		}
		return nil
	})
	return m
}

func main() {
	r := rand.New(rand.NewSource(11))
	mv := module.MustNewVersion("example.com/m@v0", "v0.0.1")
	modcue := []byte("module: \"example.com/m@v0\"\nlanguage: version: \"v0.8.0\"\n")
	base, _ := os.MkdirTemp("", "zipprobe")
	defer os.RemoveAll(base)
	stats := map[string]int{}
	for i := 0; i < 3000; i++ {
		// hostile raw zip
		var buf bytes.Buffer
		zw := zip.NewWriter(&buf)
		type ent struct {
			name string
			data []byte
		}
		var ents []ent
		add := func(name string, data []byte, mode fs.FileMode) {
			h := &zip.FileHeader{Name: name, Method: zip.Deflate}
			h.SetMode(mode)
			w, err := zw.CreateHeader(h)
			if err != nil {
				return
			}
			w.Write(data)
			ents = append(ents, ent{name, data})
		}
		if r.Intn(10) != 0 {
			add("cue.mod/module.cue", modcue, 0o644)
		}
		for k := 0; k < 1+r.Intn(5); k++ {
			mode := fs.FileMode(0o644)
			switch r.Intn(8) {
			case 0:
				mode |= fs.ModeSymlink
			case 1:
				mode |= fs.ModeDir
			case 2:
				mode |= fs.ModeDevice
			}
			add(genName(r), []byte(fmt.Sprintf("data%d", k)), mode)
		}
		zw.Close()
		root := filepath.Join(base, fmt.Sprint(i))
		os.MkdirAll(filepath.Join(root, "outside"), 0o755)
		os.WriteFile(filepath.Join(root, "outside", "sentinel"), []byte("s"), 0o644)
		os.WriteFile(filepath.Join(root, "target-sibling"), []byte("s"), 0o644)
		zipPath := filepath.Join(root, "m.zip")
		os.WriteFile(zipPath, buf.Bytes(), 0o644)
		before := snapshot(root)
		target := filepath.Join(root, "target")
		var err error
		func() {
			defer func() {
				if rec := recover(); rec != nil {
					err = fmt.Errorf("PANIC %v", rec)
					fmt.Println("PANIC", rec)
				}
			}()
			err = modzip.Unzip(target, mv, zipPath)
		}()
		after := snapshot(root)
		// outside unchanged
		for k, v := range before {
			if after[k] != v {
				fmt.Println("OUTSIDE CHANGED", k, v, after[k])
			}
		}
		for k, v := range after {
			if _, ok := before[k]; ok {
				continue
			}
			if !strings.HasPrefix(k, "target") {
				fmt.Println("ESCAPE", k, v)
				stats["escape"]++
			}
			if !strings.HasPrefix(v, "d---------") && !strings.HasPrefix(v, "----------") {
				fmt.Println("NONREGULAR", k, v)
			}
		}
		if err == nil {
			stats["unzip-ok"]++
			// content equals entries
			var names []string
			for _, e := range ents {
				if strings.HasSuffix(e.name, "/") {
					continue
				}
				names = append(names, e.name)
				b, rerr := os.ReadFile(filepath.Join(target, e.name))
				if rerr != nil || !bytes.Equal(b, e.data) {
					fmt.Println("CONTENT MISMATCH", e.name, rerr)
				}
			}
			sort.Strings(names)
			if i%200 == 0 {
				fmt.Println("ok sample:", names)
			}
		} else {
			stats["unzip-err"]++
		}
		modcheck(r, stats)
		os.RemoveAll(root)
	}
	fmt.Println(stats)
}

// three-way agreement on file lists (files vs zip created from them)
func modcheck(r *rand.Rand, stats map[string]int) {
	mv := module.MustNewVersion("example.com/m@v0", "v0.0.1")
	modcue := []byte("module: \"example.com/m@v0\"\nlanguage: version: \"v0.8.0\"\n")
	files := []memFile{{"cue.mod/module.cue", modcue, 0o644}}
	seen := map[string]bool{"cue.mod/module.cue": true}
	for k := 0; k < 1+r.Intn(4); k++ {
		n := genName(r)
		if seen[n] {
			continue
		}
		seen[n] = true
		files = append(files, memFile{n, []byte("x"), 0o644})
	}
	cf, _ := modzip.CheckFiles(files, memIO{})
	var buf bytes.Buffer
	err := modzip.Create(&buf, mv, files, memIO{})
	if err != nil {
		stats["create-err"]++
		if cf.Err() == nil {
			fmt.Println("CREATE ERR but CheckFiles ok", err)
		}
		return
	}
	stats["create-ok"]++
	_, _, zcf, zerr := modzip.CheckZip(mv, bytes.NewReader(buf.Bytes()), int64(buf.Len()))
	if zerr != nil {
		fmt.Println("CREATED ZIP FAILS CheckZip:", zerr, cf.Valid)
		stats["created-zip-fails-check"]++
		return
	}
	a := append([]string(nil), cf.Valid...)
	b := append([]string(nil), zcf.Valid...)
	sort.Strings(a)
	sort.Strings(b)
	if strings.Join(a, "|") != strings.Join(b, "|") {
		fmt.Println("VALID SETS DIFFER", a, b)
	}
}
