package main

import (
	"bufio"
	"encoding/json"
	"fmt"
	"math/rand"
	"os"
	"os/exec"
	"strings"

	"cuelang.org/go/cue"
	"cuelang.org/go/cue/cuecontext"
	"cuelang.org/go/cue/format"
	cuejson "cuelang.org/go/encoding/json"
	"cuelang.org/go/encoding/jsonschema"
)

type M = map[string]any

var props = []string{"a", "b", "c"}

func genSchema(r *rand.Rand, depth int) any {
	if depth == 0 || r.Intn(4) == 0 {
		switch r.Intn(8) {
		case 0:
			return M{"type": []string{"string", "integer", "number", "boolean", "null", "object", "array"}[r.Intn(7)]}
		case 1:
			return M{"const": genInst(r, 1)}
		case 2:
			return M{"enum": []any{genInst(r, 1), genInst(r, 1)}}
		case 3:
			return M{"type": "integer", "minimum": r.Intn(4), "maximum": 2 + r.Intn(4)}
		case 4:
			return M{"type": "string", "minLength": r.Intn(2), "maxLength": 1 + r.Intn(2)}
		case 5:
			return M{"type": "string", "pattern": []string{"^a", "b$", "^[a-c]+$"}[r.Intn(3)]}
		case 6:
			return true
		default:
			return M{"type": []any{"string", "integer"}}
		}
	}
	switch r.Intn(10) {
	case 0, 1:
		s := M{"type": "object"}
		ps := M{}
		for _, p := range props {
			if r.Intn(2) == 0 {
				ps[p] = genSchema(r, depth-1)
			}
		}
		s["properties"] = ps
		if r.Intn(2) == 0 {
			s["required"] = []string{props[r.Intn(3)]}
		}
		switch r.Intn(4) {
		case 0:
			s["additionalProperties"] = false
		case 1:
			s["additionalProperties"] = genSchema(r, depth-1)
		}
		if r.Intn(4) == 0 {
			s["patternProperties"] = M{"^a": genSchema(r, depth-1)}
		}
		if r.Intn(5) == 0 {
			s["minProperties"] = 1
		}
		if r.Intn(5) == 0 {
			s["maxProperties"] = 2
		}
		return s
	case 2:
		s := M{"type": "array", "items": genSchema(r, depth-1)}
		if r.Intn(2) == 0 {
			s["minItems"] = r.Intn(3)
		}
		if r.Intn(2) == 0 {
			s["maxItems"] = 1 + r.Intn(3)
		}
		if r.Intn(4) == 0 {
			s["uniqueItems"] = true
		}
		if r.Intn(4) == 0 {
			s["contains"] = genSchema(r, depth-1)
		}
		return s
	case 3:
		return M{"allOf": []any{genSchema(r, depth-1), genSchema(r, depth-1)}}
	case 4:
		return M{"anyOf": []any{genSchema(r, depth-1), genSchema(r, depth-1)}}
	case 5:
		return M{"oneOf": []any{genSchema(r, depth-1), genSchema(r, depth-1)}}
	case 6:
		return M{"not": genSchema(r, depth-1)}
	case 7:
		return M{"if": genSchema(r, depth-1), "then": genSchema(r, depth-1), "else": genSchema(r, depth-1)}
	case 8:
		return M{"$defs": M{"d": genSchema(r, depth-1)}, "allOf": []any{M{"$ref": "#/$defs/d"}, genSchema(r, depth-1)}}
	default:
		return M{"type": "object", "propertyNames": M{"pattern": "^[ab]"}, "properties": M{"a": genSchema(r, depth-1)}}
	}
}

func genInst(r *rand.Rand, depth int) any {
	switch r.Intn(9) {
	case 0:
		return nil
	case 1:
		return r.Intn(2) == 0
	case 2:
		return r.Intn(6)
	case 3:
		return []string{"a", "b", "ab", "", "abc", "c"}[r.Intn(6)]
	case 4:
		return float64(r.Intn(6)) + 0.5
	case 5, 6:
		if depth == 0 {
			return 1
		}
		o := M{}
		for _, p := range append(props, "ax") {
			if r.Intn(3) == 0 {
				o[p] = genInst(r, depth-1)
			}
		}
		return o
	default:
		if depth == 0 {
			return "a"
		}
		var l []any
		for i := 0; i < r.Intn(4); i++ {
			l = append(l, genInst(r, depth-1))
		}
		if l == nil {
			l = []any{}
		}
		return l
	}
}

func main() {
	r := rand.New(rand.NewSource(3))
	N := 400
	f, _ := os.Create("/tmp/probe10/cases.jsonl")
	w := bufio.NewWriter(f)
	type cs struct {
		Schema any   `json:"schema"`
		Insts  []any `json:"instances"`
	}
	var cases []cs
	for i := 0; i < N; i++ {
		s := genSchema(r, 2)
		if m, ok := s.(M); ok {
			m["$schema"] = "https://json-schema.org/draft/2020-12/schema"
		}
		c := cs{Schema: s}
		for j := 0; j < 12; j++ {
			c.Insts = append(c.Insts, genInst(r, 2))
		}
		cases = append(cases, c)
		b, _ := json.Marshal(c)
		w.Write(b)
		w.WriteByte('\n')
	}
	w.Flush()
	f.Close()
	out, err := exec.Command("python3-vt", "/tmp/probe10/oracle.py", "/tmp/probe10/cases.jsonl").Output()
	if err != nil {
		fmt.Println("oracle error", err)
		return
	}
	var verdicts [][]bool
	for _, line := range strings.Split(strings.TrimSpace(string(out)), "\n") {
		var v []bool
		json.Unmarshal([]byte(line), &v)
		verdicts = append(verdicts, v)
	}
	ctx := cuecontext.New()
	gf, _ := os.Create("/tmp/probe10/cases2.jsonl")
	gw := bufio.NewWriter(gf)
	var genIdx []int
	genFail := 0
	extractFail, compileFail, mism, total, valid := 0, 0, 0, 0, 0
	classes := map[string]int{}
	for i, c := range cases {
		sb, _ := json.Marshal(c.Schema)
		jast, err := cuejson.Extract("schema.json", sb)
		if err != nil {
			panic(err)
		}
		jv := ctx.BuildExpr(jast)
		sast, err := jsonschema.Extract(jv, &jsonschema.Config{StrictFeatures: true})
		if err != nil {
			extractFail++
			continue
		}
		b, err := format.Node(sast, format.Simplify())
		if err != nil {
			compileFail++
			continue
		}
		sv := ctx.CompileBytes(b)
		if sv.Err() != nil {
			compileFail++
			fmt.Printf("COMPILE-FAIL schema=%s\n  cue=%s\n  err=%v\n", sb, b, sv.Err())
			continue
		}
		// reverse direction
		if gexpr, gerr := jsonschema.Generate(sv, nil); gerr != nil {
			genFail++
		} else {
			gv := ctx.BuildExpr(gexpr)
			if gb, merr := gv.MarshalJSON(); merr == nil {
				var sch any
				json.Unmarshal(gb, &sch)
				line, _ := json.Marshal(cs{Schema: sch, Insts: c.Insts})
				gw.Write(line)
				gw.WriteByte('\n')
				genIdx = append(genIdx, i)
			} else {
				genFail++
			}
		}
		for j, inst := range c.Insts {
			ib, _ := json.Marshal(inst)
			iast, _ := cuejson.Extract("inst.json", ib)
			iv := ctx.BuildExpr(iast)
			got := iv.Unify(sv).Validate(cue.Concrete(true)) == nil
			want := verdicts[i][j]
			total++
			if want {
				valid++
			}
			if got != want {
				mism++
				// class by top-level keywords
				var ks []string
				if m, ok := c.Schema.(M); ok {
					for k := range m {
						if k != "$schema" {
							ks = append(ks, k)
						}
					}
				}
				key := fmt.Sprintf("oracle=%v cue=%v", want, got)
				classes[key]++
				if classes[key] <= 8 {
					fmt.Printf("MISMATCH %s\n  schema=%s\n  inst=%s\n  cue=%s\n", key, sb, ib, strings.ReplaceAll(string(b), "\n", " "))
				}
			}
		}
	}
	gw.Flush()
	gf.Close()
	out2, err := exec.Command("python3-vt", "/tmp/probe10/oracle.py", "/tmp/probe10/cases2.jsonl").Output()
	if err != nil {
		fmt.Println("oracle2 error", err)
	}
	rm, rt := 0, 0
	for k, line := range strings.Split(strings.TrimSpace(string(out2)), "\n") {
		var v []*bool
		json.Unmarshal([]byte(line), &v)
		i := genIdx[k]
		for j := range v {
			if v[j] == nil {
				continue
			}
			rt++
			if *v[j] != verdicts[i][j] {
				rm++
				if rm <= 6 {
					sb, _ := json.Marshal(cases[i].Schema)
					ib, _ := json.Marshal(cases[i].Insts[j])
					fmt.Printf("REVERSE-MISMATCH orig-oracle=%v generated-schema-oracle=%v\n  schema=%s\n  inst=%s\n", verdicts[i][j], *v[j], sb, ib)
				}
			}
		}
	}
	fmt.Println("reverse: generated", len(genIdx), "genFail", genFail, "verdicts", rt, "mismatch-vs-original-oracle", rm)
	fmt.Println("schemas", N, "extractFail", extractFail, "compileFail", compileFail, "verdicts", total, "valid", valid, "mismatches", mism, classes)
}
