import sys, json
from jsonschema import Draft202012Validator
for line in open(sys.argv[1]):
    c = json.loads(line)
    try:
        v = Draft202012Validator(c["schema"])
        print(json.dumps([v.is_valid(i) for i in c["instances"]]))
    except Exception as e:
        print(json.dumps([None]*len(c["instances"])))
