package main

import (
	"fmt"
	"math/rand"
	"os"
	"regexp"
	"sort"
	"strings"

	"cuelang.org/go/cue"
	"cuelang.org/go/cue/cuecontext"
)

// ---------- schema AST ----------
type Val struct {
	leaf string // "int","string","1","\"x\"" or "" if struct
	st   *Sch
}
type Fld struct {
	label  string
	marker string // "", "?", "!"
	val    Val
}
type Pat struct {
	pat string // CUE pattern expr: `string`, `=~"^a"`, `"a"|"b"`
	val Val
}
type Sch struct {
	fields   []Fld
	pats     []Pat
	ellipsis bool
	embeds   []Conj
}
type Conj struct {
	kind string // "lit","close","def"
	s    *Sch
}

var labels = []string{"a", "b", "c"}
var leaves = []string{"int", "string", "1", `"x"`}
var pats = []string{`string`, `=~"^a"`, `"a"|"b"`}

func genVal(r *rand.Rand, depth int) Val {
	if depth > 0 && r.Intn(3) == 0 {
		return Val{st: genSch(r, depth-1, false)}
	}
	return Val{leaf: leaves[r.Intn(len(leaves))]}
}
func genSch(r *rand.Rand, depth int, allowEmbed bool) *Sch {
	s := &Sch{}
	for _, l := range labels {
		if r.Intn(3) == 0 {
			m := []string{"", "", "?", "!"}[r.Intn(4)]
			s.fields = append(s.fields, Fld{l, m, genVal(r, depth)})
		}
	}
	if r.Intn(4) == 0 {
		s.pats = append(s.pats, Pat{pats[r.Intn(len(pats))], genVal(r, depth)})
	}
	if r.Intn(6) == 0 {
		s.ellipsis = true
	}
	if allowEmbed && r.Intn(3) == 0 {
		s.embeds = append(s.embeds, genConj(r, depth, false))
	}
	return s
}
func genConj(r *rand.Rand, depth int, allowEmbed bool) Conj {
	k := []string{"lit", "close", "def"}[r.Intn(3)]
	return Conj{k, genSch(r, depth, allowEmbed)}
}

// ---------- printing ----------
type printer struct {
	defs []string
}

func (p *printer) val(v Val) string {
	if v.st != nil {
		return p.sch(v.st)
	}
	return v.leaf
}
func (p *printer) sch(s *Sch) string {
	var parts []string
	for _, e := range s.embeds {
		parts = append(parts, p.conj(e))
	}
	for _, f := range s.fields {
		parts = append(parts, fmt.Sprintf("%s%s: %s", f.label, f.marker, p.val(f.val)))
	}
	for _, pt := range s.pats {
		parts = append(parts, fmt.Sprintf("[%s]: %s", pt.pat, p.val(pt.val)))
	}
	if s.ellipsis {
		parts = append(parts, "...")
	}
	return "{" + strings.Join(parts, ", ") + "}"
}
func (p *printer) conj(c Conj) string {
	switch c.kind {
	case "lit":
		return p.sch(c.s)
	case "close":
		return "close(" + p.sch(c.s) + ")"
	default:
		name := fmt.Sprintf("#D%d", len(p.defs))
		p.defs = append(p.defs, "") // reserve
		idx := len(p.defs) - 1
		p.defs[idx] = name + ": " + p.sch(c.s)
		return name
	}
}

// ---------- data ----------
type Data map[string]any // values: "1", "\"x\"" or Data

func genData(r *rand.Rand, depth int) Data {
	d := Data{}
	for _, l := range labels {
		if r.Intn(2) == 0 {
			if depth > 0 && r.Intn(3) == 0 {
				d[l] = genData(r, depth-1)
			} else {
				d[l] = []string{"1", `"x"`}[r.Intn(2)]
			}
		}
	}
	return d
}
func printData(d Data) string {
	var ks []string
	for k := range d {
		ks = append(ks, k)
	}
	sort.Strings(ks)
	var parts []string
	for _, k := range ks {
		switch v := d[k].(type) {
		case string:
			parts = append(parts, k+": "+v)
		case Data:
			parts = append(parts, k+": "+printData(v))
		}
	}
	return "{" + strings.Join(parts, ", ") + "}"
}

// ---------- model ----------
type inst struct {
	s    *Sch
	mode int // 0 open, 1 close one level, 2 recursive
}

func patMatch(p, f string) bool {
	switch p {
	case `string`:
		return true
	case `=~"^a"`:
		return regexp.MustCompile("^a").MatchString(f)
	case `"a"|"b"`:
		return f == "a" || f == "b"
	}
	panic(p)
}

// group info for one top-level conjunct (with embeddings flattened)
type group struct {
	closed   bool
	open     bool // has ellipsis
	names    map[string]bool
	pats     []string
	members  []inst // all struct bodies contributing constraints, with their recursion mode
}

func flatten(c inst, g *group) {
	if c.mode != 0 {
		g.closed = true
	}
	if c.s.ellipsis {
		g.open = true
	}
	for _, f := range c.s.fields {
		g.names[f.label] = true
	}
	for _, p := range c.s.pats {
		g.pats = append(g.pats, p.pat)
	}
	g.members = append(g.members, c)
	for _, e := range c.s.embeds {
		m := 0
		switch e.kind {
		case "close":
			m = 1
		case "def":
			m = 2
		case "lit":
			// an embedded literal inherits recursive closedness of the definition it is in
			if c.mode == 2 {
				m = 2
			}
		}
		flatten(inst{e.s, m}, g)
	}
}

func (g *group) allows(f string) bool {
	if !g.closed || g.open {
		return true
	}
	if g.names[f] {
		return true
	}
	for _, p := range g.pats {
		if patMatch(p, f) {
			return true
		}
	}
	return false
}

// valid reports whether conjs & data is a valid concrete struct.
func valid(conjs []inst, data Data, why *string) bool {
	var groups []*group
	for _, c := range conjs {
		g := &group{names: map[string]bool{}}
		flatten(c, g)
		groups = append(groups, g)
	}
	present := map[string]bool{}
	for k := range data {
		present[k] = true
	}
	for _, g := range groups {
		for _, m := range g.members {
			for _, f := range m.s.fields {
				if f.marker == "" {
					present[f.label] = true
				}
			}
		}
	}
	// required
	for _, g := range groups {
		for _, m := range g.members {
			for _, f := range m.s.fields {
				if f.marker == "!" && !present[f.label] {
					*why = "required " + f.label
					return false
				}
			}
		}
	}
	for f := range present {
		for _, g := range groups {
			if !g.allows(f) {
				*why = "not allowed " + f
				return false
			}
		}
		// collect constraints
		var leafs []string
		var subs []inst
		add := func(v Val, mode int) {
			if v.st != nil {
				sm := 0
				if mode == 2 {
					sm = 2
				}
				subs = append(subs, inst{v.st, sm})
			} else {
				leafs = append(leafs, v.leaf)
			}
		}
		for _, g := range groups {
			for _, m := range g.members {
				for _, fl := range m.s.fields {
					if fl.label == f {
						add(fl.val, m.mode)
					}
				}
				for _, p := range m.s.pats {
					if patMatch(p.pat, f) {
						add(p.val, m.mode)
					}
				}
			}
		}
		var dsub Data
		dataIsStruct := false
		if dv, ok := data[f]; ok {
			switch v := dv.(type) {
			case string:
				leafs = append(leafs, v)
			case Data:
				dsub = v
				dataIsStruct = true
			}
		}
		if len(leafs) > 0 && (len(subs) > 0 || dataIsStruct) {
			*why = "leaf/struct conflict " + f
			return false
		}
		if len(leafs) > 0 {
			// unify leaves: kinds int{int,1} string{string,"x"}
			kind := ""
			concrete := false
			for _, l := range leafs {
				k := "int"
				if l == "string" || l == `"x"` {
					k = "string"
				}
				if kind != "" && kind != k {
					*why = "kind conflict " + f
					return false
				}
				kind = k
				if l == "1" || l == `"x"` {
					concrete = true
				}
			}
			if !concrete {
				*why = "non-concrete " + f
				return false
			}
			continue
		}
		if dsub == nil {
			dsub = Data{}
		}
		if !valid(subs, dsub, why) {
			*why = f + "." + *why
			return false
		}
	}
	return true
}

func main() {
	r := rand.New(rand.NewSource(42))
	N := 20000
	if len(os.Args) > 1 {
		fmt.Sscan(os.Args[1], &N)
	}
	mism, acc, rej := 0, 0, 0
	classes := map[string]int{}
	for i := 0; i < N; i++ {
		nc := 1 + r.Intn(2)
		var conjs []Conj
		for j := 0; j < nc; j++ {
			conjs = append(conjs, genConj(r, 1, true))
		}
		data := genData(r, 1)
		p := &printer{}
		var exprs []string
		var insts []inst
		for _, c := range conjs {
			exprs = append(exprs, p.conj(c))
			m := map[string]int{"lit": 0, "close": 1, "def": 2}[c.kind]
			insts = append(insts, inst{c.s, m})
		}
		src := strings.Join(p.defs, "\n") + "\nout: " + strings.Join(exprs, " & ") + " & " + printData(data) + "\n"
		why := ""
		want := valid(insts, data, &why)
		ctx := cuecontext.New()
		v := ctx.CompileString(src)
		got := v.LookupPath(cue.ParsePath("out")).Validate(cue.Concrete(true)) == nil
		if want {
			acc++
		} else {
			rej++
		}
		if got != want {
			mism++
			key := fmt.Sprintf("model=%v(%s)", want, strings.TrimLeft(why, "abc."))
			classes[key]++
			if classes[key] <= 3 {
				fmt.Printf("MISMATCH %s impl=%v\n%s", key, got, src)
				if !got {
					fmt.Println("   err:", v.LookupPath(cue.ParsePath("out")).Validate(cue.Concrete(true)))
				}
			}
		}
	}
	fmt.Println("cases", N, "model accept", acc, "reject", rej, "mismatches", mism)
	for k, v := range classes {
		fmt.Println("  ", v, k)
	}
}
