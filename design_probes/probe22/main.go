package main

import (
	"bytes"
	"context"
	"fmt"
	"io"
	"io/fs"
	"math/rand"
	"os"
	"sort"
	"strings"
	"sync"
	"sync/atomic"
	"time"

	"cuelabs.dev/go/oci/ociregistry"
	"cuelabs.dev/go/oci/ociregistry/ocimem"
	"github.com/anishathalye/porcupine"

	"cuelang.org/go/mod/modcache"
	"cuelang.org/go/mod/modregistry"
	"cuelang.org/go/mod/module"
	"cuelang.org/go/mod/modzip"
)

type memFile struct {
	path string
	data []byte
}

func filesFor(v string) []memFile {
	return []memFile{
		{"cue.mod/module.cue", []byte("module: \"example.com/m@v0\"\nlanguage: version: \"v0.8.0\"\n")},
		{"a.cue", []byte("package m\na: \"" + v + "\"\n")},
		{"x/b.cue", []byte("package x\nb: 2\n")},
		{"x/y/c.cue", []byte("package y\nc: 3\n")},
	}
}

func want(v string) string {
	var parts []string
	for _, f := range filesFor(v) {
		parts = append(parts, f.path+"="+string(f.data))
	}
	sort.Strings(parts)
	return strings.Join(parts, "|")
}

// countingRegistry wraps an ociregistry.Interface counting blob fetches and adding jitter.
type countingRegistry struct {
	ociregistry.Interface
	blobs atomic.Int64
	r     *rand.Rand
	mu    sync.Mutex
}

func (c *countingRegistry) GetBlob(ctx context.Context, repo string, d ociregistry.Digest) (ociregistry.BlobReader, error) {
	c.blobs.Add(1)
	c.mu.Lock()
	n := c.r.Intn(300)
	c.mu.Unlock()
	time.Sleep(time.Duration(n) * time.Microsecond)
	return c.Interface.GetBlob(ctx, repo, d)
}

type input struct {
	op  string // fetch | fromcache
	ver string
}
type output struct {
	found   bool
	content string
	err     string
}

func readLoc(loc module.SourceLoc) string {
	var parts []string
	fs.WalkDir(loc.FS, loc.Dir, func(p string, d fs.DirEntry, err error) error {
		if err != nil || d.IsDir() {
			return nil
		}
		b, _ := fs.ReadFile(loc.FS, p)
		parts = append(parts, p+"="+string(b))
		return nil
	})
	sort.Strings(parts)
	return strings.Join(parts, "|")
}

func main() {
	ctx := context.Background()
	versions := []string{"v0.0.1", "v0.0.2"}
	model := porcupine.Model{
		Partition: func(history []porcupine.Operation) [][]porcupine.Operation {
			m := map[string][]porcupine.Operation{}
			for _, o := range history {
				k := o.Input.(input).ver
				m[k] = append(m[k], o)
			}
			var out [][]porcupine.Operation
			for _, v := range m {
				out = append(out, v)
			}
			return out
		},
		Init: func() any { return false }, // present?
		Step: func(st, in, out any) (bool, any) {
			i, o := in.(input), out.(output)
			present := st.(bool)
			switch i.op {
			case "fetch":
				ok := o.err == "" && o.content == want(i.ver)
				return ok, true
			default:
				if present {
					return o.found && o.content == want(i.ver), true
				}
				return !o.found, false
			}
		},
		DescribeOperation: func(in, out any) string { return fmt.Sprintf("%v -> %+v", in, out) },
	}
	illegal, unknown, totalOps := 0, 0, 0
	var maxBlob int64
	for hist := 0; hist < 40; hist++ {
		dir, _ := os.MkdirTemp("", "c16")
		reg := ocimem.New()
		client0 := modregistry.NewClient(reg)
		for _, v := range versions {
			mv := module.MustNewVersion("example.com/m@v0", v)
			var buf bytes.Buffer
			if err := modzip.Create(&buf, mv, filesFor(v), memIO{}); err != nil {
				panic(err)
			}
			if err := client0.PutModule(ctx, mv, bytes.NewReader(buf.Bytes()), int64(buf.Len())); err != nil {
				panic(err)
			}
		}
		var mu sync.Mutex
		var ops []porcupine.Operation
		var wg sync.WaitGroup
		G := 6
		start := time.Now()
		for g := 0; g < G; g++ {
			wg.Add(1)
			go func(g int) {
				defer wg.Done()
				r := rand.New(rand.NewSource(int64(hist*100 + g)))
				creg := &countingRegistry{Interface: reg, r: r}
				c, err := modcache.New(modregistry.NewClient(creg), dir)
				if err != nil {
					panic(err)
				}
				for k := 0; k < 6; k++ {
					in := input{op: []string{"fetch", "fromcache", "fromcache"}[r.Intn(3)], ver: versions[r.Intn(2)]}
					mv := module.MustNewVersion("example.com/m@v0", in.ver)
					call := time.Since(start).Nanoseconds()
					var out output
					if in.op == "fetch" {
						loc, err := c.Fetch(ctx, mv)
						if err != nil {
							out.err = err.Error()
						} else {
							out.found = true
							out.content = readLoc(loc)
						}
					} else {
						loc, err := c.FetchFromCache(mv)
						if err == nil {
							out.found = true
							out.content = readLoc(loc)
						}
					}
					ret := time.Since(start).Nanoseconds()
					mu.Lock()
					ops = append(ops, porcupine.Operation{ClientId: g, Input: in, Call: call, Output: out, Return: ret})
					mu.Unlock()
				}
				if b := creg.blobs.Load(); b > maxBlob {
					maxBlob = b
				}
			}(g)
		}
		wg.Wait()
		totalOps += len(ops)
		res, _ := porcupine.CheckOperationsVerbose(model, ops, 30*time.Second)
		switch res {
		case porcupine.Illegal:
			illegal++
			fmt.Println("ILLEGAL history", hist)
			for _, o := range ops {
				fmt.Printf("  c%d [%d,%d] %v -> found=%v err=%q ok=%v\n", o.ClientId, o.Call, o.Return, o.Input, o.Output.(output).found, o.Output.(output).err, o.Output.(output).content == want(o.Input.(input).ver))
			}
		case porcupine.Unknown:
			unknown++
		}
		modcache.RemoveAll(dir)
	}
	fmt.Println("histories 40 ops", totalOps, "illegal", illegal, "unknown", unknown, "max blob fetches per client", maxBlob)
	_ = io.EOF
}
