package main

import (
	"bytes"
	"io"
	"io/fs"
	"os"
	"path/filepath"
	"time"
)

type memIO struct{}

func (memIO) Path(f memFile) string                  { return f.path }
func (memIO) Lstat(f memFile) (os.FileInfo, error)   { return fi{f}, nil }
func (memIO) Open(f memFile) (io.ReadCloser, error)  { return io.NopCloser(bytes.NewReader(f.data)), nil }

type fi struct{ f memFile }

func (i fi) Name() string       { return filepath.Base(i.f.path) }
func (i fi) Size() int64        { return int64(len(i.f.data)) }
func (i fi) Mode() fs.FileMode  { return 0o644 }
func (i fi) ModTime() time.Time { return time.Time{} }
func (i fi) IsDir() bool        { return false }
func (i fi) Sys() any           { return nil }
