package main

import (
	"fmt"
	"math/big"
	"math/rand"
	"runtime"
	"sort"
	"strings"
	"sync"
	"sync/atomic"

	"cuelang.org/go/internal/mod/mvs"
	"cuelang.org/go/internal/mod/semver"
)

type mv struct{ path, ver string }

type reqs struct {
	g       map[mv][]mv
	r       *rand.Rand
	mu      sync.Mutex
	calls   map[mv]int
	conc    int32
	maxConc int32
	order   []string
	delays  map[mv]int
}

func (q *reqs) New(p, v string) (mv, error) { return mv{p, v}, nil }
func (q *reqs) Path(m mv) string            { return m.path }
func (q *reqs) Version(m mv) string         { return m.ver }
func (q *reqs) Max(a, b string) string {
	if a == "none" || b == "" {
		return b
	}
	if b == "none" || a == "" {
		return a
	}
	if semver.Compare(a, b) > 0 {
		return a
	}
	return b
}
func (q *reqs) Required(m mv) ([]mv, error) {
	c := atomic.AddInt32(&q.conc, 1)
	q.mu.Lock()
	q.calls[m]++
	if c > q.maxConc {
		q.maxConc = c
	}
	q.order = append(q.order, m.path+"@"+m.ver)
	d := q.delays[m]
	q.mu.Unlock()
	for i := 0; i < d; i++ {
		runtime.Gosched()
	}
	atomic.AddInt32(&q.conc, -1)
	return q.g[m], nil
}

func brute(target mv, g map[mv][]mv, max func(a, b string) string) []string {
	seen := map[mv]bool{target: true}
	stack := []mv{target}
	sel := map[string]string{target.path: target.ver}
	for len(stack) > 0 {
		m := stack[len(stack)-1]
		stack = stack[:len(stack)-1]
		for _, d := range g[m] {
			if cur, ok := sel[d.path]; !ok || max(cur, d.ver) != cur {
				sel[d.path] = d.ver
			}
			if !seen[d] {
				seen[d] = true
				stack = append(stack, d)
			}
		}
	}
	var out []string
	for p, v := range sel {
		if p != target.path {
			out = append(out, p+"@"+v)
		}
	}
	sort.Strings(out)
	return append([]string{target.path + "@" + target.ver}, out...)
}

// --- semver model ---
type sv struct {
	nums [3]*big.Int
	pre  []string
	ok   bool
}

func isNum(s string) bool {
	if s == "" {
		return false
	}
	for _, c := range s {
		if c < '0' || c > '9' {
			return false
		}
	}
	return true
}
func validNumField(s string) bool { return isNum(s) && (s == "0" || s[0] != '0') }
func identOK(s string) bool {
	if s == "" {
		return false
	}
	for _, c := range s {
		if !(c >= '0' && c <= '9' || c >= 'a' && c <= 'z' || c >= 'A' && c <= 'Z' || c == '-') {
			return false
		}
	}
	return true
}
func parseSV(v string) sv {
	if !strings.HasPrefix(v, "v") {
		return sv{}
	}
	v = v[1:]
	if i := strings.IndexByte(v, '+'); i >= 0 {
		b := v[i+1:]
		v = v[:i]
		for _, id := range strings.Split(b, ".") {
			if !identOK(id) {
				return sv{}
			}
		}
		if strings.Count(v, ".") != 2 { // build only allowed on full versions
			return sv{}
		}
	}
	pre := ""
	hasPre := false
	if i := strings.IndexByte(v, '-'); i >= 0 {
		pre = v[i+1:]
		v = v[:i]
		hasPre = true
	}
	parts := strings.Split(v, ".")
	if len(parts) > 3 || (hasPre && len(parts) != 3) {
		return sv{}
	}
	var out sv
	for i := 0; i < 3; i++ {
		out.nums[i] = big.NewInt(0)
	}
	for i, p := range parts {
		if !validNumField(p) {
			return sv{}
		}
		out.nums[i].SetString(p, 10)
	}
	if hasPre {
		for _, id := range strings.Split(pre, ".") {
			if !identOK(id) || (isNum(id) && !validNumField(id)) {
				return sv{}
			}
			out.pre = append(out.pre, id)
		}
	}
	out.ok = true
	return out
}
func cmpSV(a, b string) int {
	x, y := parseSV(a), parseSV(b)
	if !x.ok && !y.ok {
		return 0
	}
	if !x.ok {
		return -1
	}
	if !y.ok {
		return 1
	}
	for i := 0; i < 3; i++ {
		if c := x.nums[i].Cmp(y.nums[i]); c != 0 {
			return c
		}
	}
	if len(x.pre) == 0 && len(y.pre) == 0 {
		return 0
	}
	if len(x.pre) == 0 {
		return 1
	}
	if len(y.pre) == 0 {
		return -1
	}
	for i := 0; i < len(x.pre) && i < len(y.pre); i++ {
		p, q := x.pre[i], y.pre[i]
		if p == q {
			continue
		}
		pn, qn := isNum(p), isNum(q)
		switch {
		case pn && qn:
			pi, _ := new(big.Int).SetString(p, 10)
			qi, _ := new(big.Int).SetString(q, 10)
			return pi.Cmp(qi)
		case pn:
			return -1
		case qn:
			return 1
		default:
			return strings.Compare(p, q)
		}
	}
	switch {
	case len(x.pre) < len(y.pre):
		return -1
	case len(x.pre) > len(y.pre):
		return 1
	}
	return 0
}

func genVer(r *rand.Rand) string {
	num := func() string {
		return []string{"0", "1", "2", "9", "10", "11", "01", "100", "99999999999999999999", ""}[r.Intn(10)]
	}
	id := func() string {
		return []string{"alpha", "beta", "1", "2", "10", "01", "0", "a-b", "-", "A", "a", "rc1", "", "x_y"}[r.Intn(14)]
	}
	s := "v" + num()
	if r.Intn(8) > 0 {
		s += "." + num()
		if r.Intn(8) > 0 {
			s += "." + num()
		}
	}
	if r.Intn(2) == 0 {
		s += "-" + id()
		for r.Intn(2) == 0 {
			s += "." + id()
		}
	}
	if r.Intn(4) == 0 {
		s += "+" + id()
	}
	if r.Intn(20) == 0 {
		s = s[1:]
	}
	return s
}

func main() {
	r := rand.New(rand.NewSource(4))
	// semver
	bad := 0
	var vs []string
	for i := 0; i < 400; i++ {
		vs = append(vs, genVer(r))
	}
	for _, a := range vs {
		if semver.IsValid(a) != parseSV(a).ok {
			bad++
			if bad < 10 {
				fmt.Println("VALIDITY", a, semver.IsValid(a), parseSV(a).ok)
			}
		}
		for _, b := range vs {
			if semver.Compare(a, b) != cmpSV(a, b) {
				bad++
				if bad < 10 {
					fmt.Println("COMPARE", a, b, semver.Compare(a, b), cmpSV(a, b))
				}
			}
		}
	}
	fmt.Println("semver pairs", len(vs)*len(vs), "disagreements", bad)

	// mvs
	vers := []string{"v0.1.0", "v0.2.0", "v0.2.1-pre", "v0.10.0"}
	mism := 0
	orders := map[string]bool{}
	var maxc int32
	dup := 0
	for trial := 0; trial < 3000; trial++ {
		n := 3 + r.Intn(6)
		g := map[mv][]mv{}
		target := mv{"main", ""}
		var all []mv
		for i := 0; i < n; i++ {
			for _, v := range vers {
				all = append(all, mv{fmt.Sprintf("m%d", i), v})
			}
		}
		pick := func(k int) []mv {
			var out []mv
			seen := map[string]bool{}
			for i := 0; i < k; i++ {
				m := all[r.Intn(len(all))]
				if !seen[m.path] {
					seen[m.path] = true
					out = append(out, m)
				}
			}
			return out
		}
		g[target] = pick(1 + r.Intn(3))
		for _, m := range all {
			if r.Intn(2) == 0 {
				g[m] = pick(r.Intn(3))
			}
		}
		var results []string
		for run := 0; run < 4; run++ {
			// permute requirement lists
			g2 := map[mv][]mv{}
			for k, v := range g {
				w := append([]mv(nil), v...)
				r.Shuffle(len(w), func(i, j int) { w[i], w[j] = w[j], w[i] })
				g2[k] = w
			}
			q := &reqs{g: g2, r: r, calls: map[mv]int{}, delays: map[mv]int{}}
			for _, m := range all {
				q.delays[m] = r.Intn(50)
			}
			list, err := mvs.BuildList([]mv{target}, q)
			if err != nil {
				fmt.Println("ERR", err)
				continue
			}
			var got []string
			for _, m := range list {
				got = append(got, m.path+"@"+m.ver)
			}
			sort.Strings(got[1:])
			results = append(results, strings.Join(got, " "))
			for _, c := range q.calls {
				if c > 1 {
					dup++
				}
			}
			if q.maxConc > maxc {
				maxc = q.maxConc
			}
			orders[fmt.Sprint(trial)+":"+strings.Join(q.order, ",")] = true
		}
		want := strings.Join(brute(target, g, (&reqs{}).Max), " ")
		for _, res := range results {
			if res != want {
				mism++
				if mism < 5 {
					fmt.Println("MVS MISMATCH\n got ", res, "\n want", want)
				}
			}
		}
	}
	fmt.Println("mvs trials 3000x4, mismatches", mism, "duplicate Required calls", dup, "max concurrent", maxc, "distinct call orders", len(orders))
}
