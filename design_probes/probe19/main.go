package main

import (
	"bytes"
	"fmt"
	"io/fs"
	"math/rand"
	"os"
	"path/filepath"
	"strings"

	"cuelang.org/go/cue/format"
	"cuelang.org/go/cue/literal"
	"cuelang.org/go/cue/parser"
	"cuelang.org/go/cue/scanner"
	"cuelang.org/go/cue/token"
	"golang.org/x/tools/txtar"
)

type tok struct {
	off int
	end int
	tok token.Token
	lit string
}

func scan(src []byte) ([]tok, bool) {
	var s scanner.Scanner
	f := token.NewFile("x", -1, len(src))
	errs := 0
	s.Init(f, src, func(pos token.Pos, msg string, args []interface{}) { errs++ }, scanner.ScanComments)
	var out []tok
	for {
		pos, t, lit := s.Scan()
		if t == token.EOF {
			break
		}
		l := lit
		if l == "" {
			l = t.String()
		}
		out = append(out, tok{pos.Offset(), pos.Offset() + len(l), t, lit})
	}
	return out, errs == 0
}

// normalised token stream: drops commas (explicit or implied), normalises string literal text
func stream(src []byte) string {
	toks, _ := scan(src)
	var sb strings.Builder
	for _, t := range toks {
		if t.tok == token.COMMA {
			continue
		}
		switch t.tok {
		case token.STRING:
			if u, err := literal.Unquote(t.lit); err == nil {
				sb.WriteString("S:" + u)
			} else {
				// normalise indentation inside multi-line
				sb.WriteString("s:" + strings.Join(strings.Fields(t.lit), " "))
			}
		case token.INTERPOLATION:
			sb.WriteString("i:" + strings.Join(strings.Fields(t.lit), " "))
		case token.COMMENT:
			sb.WriteString("C:" + strings.TrimRight(t.lit, " \t\r"))
		default:
			if t.lit != "" {
				sb.WriteString(t.lit)
			} else {
				sb.WriteString(t.tok.String())
			}
		}
		sb.WriteByte('\n')
	}
	return sb.String()
}

func mutate(r *rand.Rand, src []byte) []byte {
	toks, ok := scan(src)
	if !ok || len(toks) < 2 {
		return nil
	}
	out := append([]byte(nil), src...)
	n := 1 + r.Intn(3)
	for k := 0; k < n; k++ {
		toks, ok = scan(out)
		if !ok || len(toks) < 2 {
			return nil
		}
		i := r.Intn(len(toks))
		t := toks[i]
		if t.tok == token.COMMA && t.lit == "\n" {
			continue
		}
		at := t.off
		var ins string
		switch r.Intn(6) {
		case 0:
			ins = "// c" + fmt.Sprint(k) + "\n"
		case 1:
			ins = "\n"
		case 2:
			ins = "\n\n"
		case 3:
			ins = " // trailing\n"
			at = t.end
		case 4:
			ins = "\t  "
		case 5:
			ins = "\n// lead\n"
		}
		if t.tok == token.STRING || t.tok == token.INTERPOLATION || t.tok == token.COMMENT {
			if at != t.off {
				continue
			}
		}
		out = append(out[:at], append([]byte(ins), out[at:]...)...)
	}
	return out
}

func main() {
	var srcs [][]byte
	var names []string
	filepath.WalkDir("/repo", func(p string, d fs.DirEntry, err error) error {
		if err != nil || d.IsDir() {
			return nil
		}
		if strings.HasSuffix(p, ".txtar") {
			a, err := txtar.ParseFile(p)
			if err != nil {
				return nil
			}
			for _, f := range a.Files {
				if strings.HasSuffix(f.Name, ".cue") && len(f.Data) < 3000 {
					srcs = append(srcs, f.Data)
					names = append(names, p+":"+f.Name)
				}
			}
		}
		return nil
	})
	r := rand.New(rand.NewSource(3))
	stats := map[string]int{}
	// first: unmutated corpus with token-stream oracle
	for i, s := range srcs {
		if _, err := parser.ParseFile("x.cue", s, parser.ParseComments); err != nil {
			continue
		}
		out, err := format.Source(s)
		if err != nil {
			stats["corpus-fmt-err"]++
			continue
		}
		if stream(s) != stream(out) {
			stats["corpus-stream-diff"]++
			if stats["corpus-stream-diff"] <= 5 {
				fmt.Println("CORPUS STREAM DIFF", names[i])
				os.WriteFile(fmt.Sprintf("/tmp/probe19/cs-%d.a", stats["corpus-stream-diff"]), []byte(stream(s)), 0o644)
				os.WriteFile(fmt.Sprintf("/tmp/probe19/cs-%d.b", stats["corpus-stream-diff"]), []byte(stream(out)), 0o644)
			}
		}
	}
	for i := 0; i < 20000; i++ {
		j := r.Intn(len(srcs))
		m := mutate(r, srcs[j])
		if m == nil {
			continue
		}
		if _, err := parser.ParseFile("x.cue", m, parser.ParseComments); err != nil {
			stats["mutant-noparse"]++
			continue
		}
		stats["mutants"]++
		var out []byte
		var err error
		func() {
			defer func() {
				if rec := recover(); rec != nil {
					err = fmt.Errorf("PANIC %v", rec)
				}
			}()
			out, err = format.Source(m)
		}()
		if err != nil {
			stats["fmt-err"]++
			if stats["fmt-err"] <= 3 {
				fmt.Printf("FMT-ERR %v\n%s\n", err, m)
			}
			continue
		}
		if _, err := parser.ParseFile("x.cue", out, parser.ParseComments); err != nil {
			stats["reparse-err"]++
			if stats["reparse-err"] <= 3 {
				fmt.Printf("REPARSE-ERR %v\n--- in\n%s\n--- out\n%s\n", err, m, out)
			}
			continue
		}
		out2, err := format.Source(out)
		if err != nil || !bytes.Equal(out, out2) {
			stats["non-idempotent"]++
			if stats["non-idempotent"] <= 6 {
				os.WriteFile(fmt.Sprintf("/tmp/probe19/ni-%d.in", stats["non-idempotent"]), m, 0o644)
				os.WriteFile(fmt.Sprintf("/tmp/probe19/ni-%d.out1", stats["non-idempotent"]), out, 0o644)
				os.WriteFile(fmt.Sprintf("/tmp/probe19/ni-%d.out2", stats["non-idempotent"]), out2, 0o644)
			}
		}
		if stream(m) != stream(out) {
			stats["stream-diff"]++
			if stats["stream-diff"] <= 6 {
				os.WriteFile(fmt.Sprintf("/tmp/probe19/sd-%d.in", stats["stream-diff"]), m, 0o644)
				os.WriteFile(fmt.Sprintf("/tmp/probe19/sd-%d.out", stats["stream-diff"]), out, 0o644)
			}
		}
	}
	fmt.Println(len(srcs), "sources", stats)
}
