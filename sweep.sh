#!/bin/bash
# usage: ./sweep.sh <tier> <seed> <parallel> [ids...]  -- runs checks, one log per id under /var/tmp/verif-sweep/<tier>-<seed>/
TIER=${1:-quick}; SEED=${2:-1}; PAR=${3:-2}; shift 3 2>/dev/null
IDS=${*:-C01 C02 C03 C04 C05 C06 C07 C08 C09 C10 C11 C12 C13 C14 C15 C16 C17 C18 C19 C20}
OUT=/var/tmp/verif-sweep/$TIER-$SEED; mkdir -p $OUT
cd "$(dirname "$0")"
printf '%s\n' $IDS | xargs -P $PAR -I{} sh -c "s=\$(date +%s); VERIF_SEED=$SEED ./check {} $TIER > $OUT/{}.log 2>&1; rc=\$?; echo {} rc=\$rc \$((\$(date +%s)-s))s \$(grep -c '^VIOLATION' $OUT/{}.log) viol \$(grep -c '^KNOWN-FINDING' $OUT/{}.log) known | tee -a $OUT/summary"
