// Package gen holds the workload generators shared by the monitors.
package gen

import (
	"fmt"
	"math/rand/v2"
	"strings"
)

// Prototype program generator (design probe). Acyclic references by construction:
// top-level fields are generated in sequence and may only refer to earlier ones.

type shape struct {
	kind     string // "int","str","struct","list","def"
	concrete bool
	fields   map[string]*shape // for struct/def
	order    []string
}

type gen struct {
	r      *rand.Rand
	top    []string          // names of generated top-level fields in order
	shapes map[string]*shape // top-level name -> shape
	defs   []string
}

var fieldNames = []string{"a", "b", "c", "d", "e"}
var quotedNames = []string{`"a b"`, `"a-b"`, `"1x"`, `"_h"`, `"#D0"`, `"if"`, `"a.b"`, `"é"`, `"\"q"`, `"null"`, `"0"`}

func (g *gen) pick(xs []string) string { return xs[g.r.IntN(len(xs))] }

func (g *gen) refsOf(kind string, concreteOnly bool) []string {
	var out []string
	for _, n := range g.top {
		s := g.shapes[n]
		if s.kind == kind && (!concreteOnly || s.concrete) {
			out = append(out, n)
		}
		if s.kind == "struct" {
			for _, fn := range s.order {
				fs := s.fields[fn]
				if fs.kind == kind && (!concreteOnly || fs.concrete) && !strings.HasSuffix(fn, "?") {
					out = append(out, n+"."+fn)
				}
			}
		}
	}
	return out
}

func (g *gen) intExpr() (string, *shape) {
	refs := g.refsOf("int", true)
	switch g.r.IntN(10) {
	case 0, 8:
		return g.pick([]string{"int", "int", "number"}), &shape{kind: "int"}
	case 1:
		lo := g.r.IntN(5)
		switch g.r.IntN(4) {
		case 0: // open interval, possibly empty for integers only
			return fmt.Sprintf(">%d & <%d", lo, lo+1+g.r.IntN(3)), &shape{kind: "num"}
		case 1: // fractional bounds
			return fmt.Sprintf(">=%d.%d & <=%d.%d", lo, 1+g.r.IntN(8), lo+g.r.IntN(2), 1+g.r.IntN(9)), &shape{kind: "num"}
		}
		return fmt.Sprintf(">=%d & <=%d", lo, lo+g.r.IntN(6)), &shape{kind: "int"}
	case 2:
		return fmt.Sprintf("*%d | int", g.r.IntN(5)), &shape{kind: "int"}
	case 3:
		return fmt.Sprintf("%d | %d", g.r.IntN(3), 3+g.r.IntN(3)), &shape{kind: "int"}
	case 4, 5:
		if len(refs) > 0 {
			op := g.pick([]string{"+", "-", "*"})
			return fmt.Sprintf("%s %s %d", g.pick(refs), op, g.r.IntN(4)), &shape{kind: "int", concrete: true}
		}
	case 6:
		if len(refs) > 0 {
			return g.pick(refs), &shape{kind: "int", concrete: true}
		}
	case 7:
		return fmt.Sprintf("uint8 & >%d", g.r.IntN(4)), &shape{kind: "int"}
	}
	return fmt.Sprint(g.r.IntN(7)), &shape{kind: "int", concrete: true}
}

func (g *gen) strExpr() (string, *shape) {
	refs := append(g.refsOf("str", true), g.refsOf("int", true)...)
	switch g.r.IntN(8) {
	case 0:
		return "string", &shape{kind: "str"}
	case 1:
		return `=~"^a"`, &shape{kind: "str"}
	case 2:
		return `*"ax" | string`, &shape{kind: "str"}
	case 3:
		return `"ax" | "bx"`, &shape{kind: "str"}
	case 4, 5:
		if len(refs) > 0 {
			return fmt.Sprintf(`"a\(%s)z"`, g.pick(refs)), &shape{kind: "str", concrete: true}
		}
	}
	return fmt.Sprintf("%q", g.pick([]string{"ax", "bx", "a b", "", "null"})), &shape{kind: "str", concrete: true}
}

func (g *gen) scalar() (string, *shape) {
	if g.r.IntN(2) == 0 {
		return g.intExpr()
	}
	return g.strExpr()
}

func (g *gen) structLit(depth int, inDef bool) (string, *shape) {
	sh := &shape{kind: "struct", fields: map[string]*shape{}}
	var parts []string
	n := 1 + g.r.IntN(3)
	used := map[string]bool{}
	for i := 0; i < n; i++ {
		name := g.pick(fieldNames)
		if g.r.IntN(12) == 0 {
			// labels that only exist in quoted form (string labels that look like hidden fields,
			// definitions, numbers, keywords, or contain blanks / punctuation)
			name = g.pick(quotedNames)
		}
		if used[name] {
			continue
		}
		used[name] = true
		marker := ""
		if g.r.IntN(5) == 0 {
			marker = "?"
		} else if inDef && g.r.IntN(8) == 0 {
			marker = "!"
		}
		var src string
		var fs *shape
		if depth > 0 && g.r.IntN(3) == 0 {
			src, fs = g.structLit(depth-1, inDef)
		} else if depth > 0 && g.r.IntN(6) == 0 {
			src, fs = g.listLit()
		} else {
			src, fs = g.scalar()
		}
		parts = append(parts, fmt.Sprintf("%s%s: %s", name, marker, src))
		if marker == "" {
			sh.fields[name] = fs
			sh.order = append(sh.order, name)
		}
	}
	if g.r.IntN(6) == 0 {
		parts = append(parts, `[=~"^z"]: int`)
	}
	if g.r.IntN(10) == 0 {
		parts = append(parts, "...")
	}
	if g.r.IntN(8) == 0 {
		// conditional field on an earlier concrete int
		if refs := g.refsOf("int", true); len(refs) > 0 {
			parts = append(parts, fmt.Sprintf("if %s > %d {y: 1}", g.pick(refs), g.r.IntN(4)))
		}
	}
	if g.r.IntN(10) == 0 {
		parts = append(parts, "_h: 1")
	}
	return "{" + strings.Join(parts, ", ") + "}", sh
}

func (g *gen) listLit() (string, *shape) {
	var parts []string
	for i := 0; i < g.r.IntN(4); i++ {
		s, _ := g.scalar()
		parts = append(parts, s)
	}
	if g.r.IntN(4) == 0 {
		parts = append(parts, "...int")
	}
	return "[" + strings.Join(parts, ", ") + "]", &shape{kind: "list"}
}

// Program returns source text.
func (g *gen) Program() string {
	g.shapes = map[string]*shape{}
	var decls []string
	nDefs := g.r.IntN(3)
	for i := 0; i < nDefs; i++ {
		name := fmt.Sprintf("#D%d", i)
		src, sh := g.structLit(1, true)
		sh.kind = "def"
		decls = append(decls, name+": "+src)
		g.defs = append(g.defs, name)
		g.shapes[name] = sh
	}
	n := 2 + g.r.IntN(5)
	for i := 0; i < n; i++ {
		name := fmt.Sprintf("f%d", i)
		var src string
		var sh *shape
		switch g.r.IntN(20) {
		case 9:
			// disjunction of structs with optional default
			s1, _ := g.structLit(1, false)
			s2, _ := g.structLit(1, false)
			star := g.pick([]string{"", "*"})
			src, sh = star+s1+" | "+s2, &shape{kind: "other"}
		case 10:
			// close() and embedding of a definition
			s1, sh1 := g.structLit(1, false)
			if len(g.defs) > 0 && g.r.IntN(2) == 0 {
				src = "{" + g.pick(g.defs) + ", " + strings.TrimPrefix(s1, "{")
			} else {
				src = "close(" + s1 + ")"
			}
			sh = &shape{kind: "other", fields: sh1.fields}
		case 11:
			// earlier struct unified with a literal
			var structs []string
			for _, n := range g.top {
				if k := g.shapes[n].kind; k == "struct" {
					structs = append(structs, n)
				}
			}
			s1, _ := g.structLit(1, false)
			if len(structs) > 0 {
				src = g.pick(structs) + " & " + s1
			} else {
				src = s1
			}
			sh = &shape{kind: "other"}
		case 12:
			// list of structs, possibly open
			s1, _ := g.structLit(1, false)
			s2, _ := g.structLit(0, false)
			src = "[" + s1 + ", " + s2 + g.pick([]string{"", ", ...{a?: int}"}) + "]"
			sh = &shape{kind: "list"}
		case 13:
			// let + hidden field
			e, _ := g.intExpr()
			src = "{let L = " + e + ", _p: L, a: _p, b: L}"
			sh = &shape{kind: "other"}
		case 14, 15, 16, 17:
			// conjunction of references to earlier (possibly non-concrete) scalar fields with types,
			// bounds and atoms, operands in PRNG order: constraints meet through references
			var cands []string
			for _, n := range g.top {
				switch g.shapes[n].kind {
				case "int", "num", "str":
					cands = append(cands, n)
				}
			}
			var ops []string
			if g.r.IntN(2) == 0 {
				// a pure type (or bound) reached only through a reference
				tn := fmt.Sprintf("t%d", i)
				decls = append(decls, tn+": "+g.pick([]string{"int", "int", "number", "float", "string", ">=0", "uint8"}))
				g.top = append(g.top, tn)
				g.shapes[tn] = &shape{kind: "type"}
				ops = append(ops, tn)
			}
			for k := 0; k < g.r.IntN(3) && len(cands) > 0; k++ {
				ops = append(ops, g.pick(cands))
			}
			for k := 0; k < 1+g.r.IntN(3); k++ {
				lo := g.r.IntN(5)
				ops = append(ops, g.pick([]string{"int", "number", "float", fmt.Sprintf(">%d", lo), fmt.Sprintf("<%d", lo+1+g.r.IntN(2)), fmt.Sprintf(">=%d.5", lo),
					fmt.Sprintf("<=%d", lo+g.r.IntN(3)), fmt.Sprintf("!=%d", lo), fmt.Sprint(lo), "string", `=~"^a"`, `!="ax"`, "uint8", fmt.Sprintf("%d.0", lo), fmt.Sprintf("*%d | int", lo)}))
			}
			if g.r.IntN(2) == 0 {
				// a range that is empty for integers only
				lo := g.r.IntN(4)
				ops = append(ops, g.pick([]string{fmt.Sprintf(">%d & <%d", lo, lo+1), fmt.Sprintf(">=%d.1 & <=%d.%d", lo, lo, 2+g.r.IntN(7)), fmt.Sprintf(">%d.5 & <%d", lo, lo+1)}))
			}
			g.r.Shuffle(len(ops), func(i, j int) { ops[i], ops[j] = ops[j], ops[i] })
			for i, o := range ops {
				if strings.Contains(o, "|") {
					ops[i] = "(" + o + ")"
				}
			}
			if g.r.IntN(3) == 0 && len(ops) >= 3 {
				// explicit grouping so that re-association has something to work on
				src = "(" + ops[0] + " & " + ops[1] + ") & " + strings.Join(ops[2:], " & ")
			} else {
				src = strings.Join(ops, " & ")
			}
			sh = &shape{kind: "num"}
		case 18, 19:
			// expression over free (non-concrete) variables: stays an expression in the evaluated value;
			// right-nested operands of the same precedence need parentheses when printed
			var free []string
			for _, n := range g.top {
				if g.shapes[n].kind == "free" {
					free = append(free, n)
				}
			}
			for len(free) < 3 {
				vn := fmt.Sprintf("n%d_%d", i, len(free))
				decls = append(decls, vn+": "+g.pick([]string{"int", "int", "number"}))
				g.top = append(g.top, vn)
				g.shapes[vn] = &shape{kind: "free"}
				free = append(free, vn)
			}
			a, b, c := g.pick(free), g.pick(free), g.pick(free)
			k := fmt.Sprint(1 + g.r.IntN(4))
			src = g.pick([]string{
				a + " - (" + b + " - " + c + ")", a + " - (" + b + " + " + c + ")", a + " / (" + b + " / " + k + ")", a + " * (" + b + " + " + c + ")",
				"(" + a + " + " + b + ") * " + c, a + " - " + b + " - " + c, "(" + a + " < " + b + ") == (" + b + " < " + c + ")", a + " + " + b + " * " + c,
				"-(" + a + " - " + b + ")", "<(" + a + " - (" + b + " - " + k + "))", ">=" + a + " & <=(" + b + " + (" + c + " * " + k + "))", a + " - (" + b + " - (" + c + " - " + k + "))",
				"div(" + a + ", " + k + ") - (" + b + " - " + c + ")", "[" + a + " - (" + b + " - " + c + "), " + a + "]", "{v: " + a + " - (" + b + " - " + c + ")}",
			})
			sh = &shape{kind: "other"}
		case 0, 1, 2:
			src, sh = g.scalar()
		case 3, 4:
			src, sh = g.structLit(2, false)
		case 5:
			src, sh = g.listLit()
		case 6:
			if len(g.defs) > 0 {
				d := g.pick(g.defs)
				// use of a definition with some data
				var data []string
				ds := g.shapes[d]
				for _, fn := range ds.order {
					if g.r.IntN(2) == 0 {
						fs := ds.fields[fn]
						switch fs.kind {
						case "int":
							data = append(data, fmt.Sprintf("%s: %d", fn, g.r.IntN(6)))
						case "str":
							data = append(data, fmt.Sprintf("%s: %q", fn, g.pick([]string{"ax", "bx"})))
						}
					}
				}
				if g.r.IntN(6) == 0 {
					data = append(data, "q: 1") // likely not allowed
				}
				src = d + " & {" + strings.Join(data, ", ") + "}"
				sh = &shape{kind: "other"}
			} else {
				src, sh = g.scalar()
			}
		case 7:
			// conjunction of struct literals / same field declared twice
			s1, sh1 := g.structLit(1, false)
			s2, _ := g.structLit(1, false)
			src, sh = s1+" & "+s2, &shape{kind: "other", fields: sh1.fields}
		case 8:
			// struct comprehension over an earlier struct
			var structs []string
			for _, n := range g.top {
				if g.shapes[n].kind == "struct" {
					structs = append(structs, n)
				}
			}
			if len(structs) > 0 {
				src = fmt.Sprintf(`{for k, v in %s {"\(k)x": v}}`, g.pick(structs))
				sh = &shape{kind: "other"}
			} else {
				src, sh = g.scalar()
			}
		}
		decls = append(decls, name+": "+src)
		// occasionally add a second declaration of the same field (extra conjunct)
		if sh.kind == "int" && !sh.concrete && g.r.IntN(3) == 0 {
			decls = append(decls, fmt.Sprintf("%s: %d", name, g.r.IntN(6)))
			sh.concrete = true
		}
		g.top = append(g.top, name)
		g.shapes[name] = sh
	}
	return strings.Join(decls, "\n") + "\n"
}

// Program generates one CUE program of the acyclic core fragment (references
// only go to earlier top-level fields; the textual order is the generation order).
func Program(r *rand.Rand) string {
	g := &gen{r: r}
	return g.Program()
}

// EmbedProgram generates programs in which structs embed fields and nested paths of themselves while other
// declarations (written before or after, directly or through another embedded field) add conjuncts to those very
// paths.  The leaves are integers and the base fields p < q < r of a struct only mention earlier base names as inner
// labels, so every program is finite and acyclic: its value is the same for every order of declarations.
func EmbedProgram(r *rand.Rand, withDefs bool) string {
	pick := func(xs []string) string { return xs[r.IntN(len(xs))] }
	var b strings.Builder
	base := []string{"p", "q", "r"}
	inner := []string{"a", "b"}
	leafs := []string{"x", "y", "z", "w"}
	leaf := func() string {
		l := pick(leafs)
		// one value per leaf name: repeated declarations agree; markers vary
		v := map[string]int{"x": 1, "y": 2, "z": 3, "w": 4}[l]
		switch r.IntN(8) {
		case 0:
			return fmt.Sprintf("%s?: int", l)
		case 1:
			return fmt.Sprintf("%s: int", l)
		case 2:
			return fmt.Sprintf("%s: *%d | int", l, v)
		default:
			return fmt.Sprintf("%s: %d", l, v)
		}
	}
	leafStruct := func() string {
		n := 1 + r.IntN(2)
		var parts []string
		for i := 0; i < n; i++ {
			parts = append(parts, leaf())
		}
		if r.IntN(8) == 0 {
			parts = append(parts, "...")
		}
		return "{" + strings.Join(parts, ", ") + "}"
	}
	nDefs := r.IntN(2)
	if !withDefs {
		nDefs = 0
	}
	for d := 0; d < nDefs; d++ {
		fmt.Fprintf(&b, "#E%d: {%s: %s: %s}\n", d, pick(base[:2]), pick(inner), leafStruct())
	}
	nT := 1 + r.IntN(3)
	for t := 0; t < nT; t++ {
		name := fmt.Sprintf("t%d", t)
		if withDefs && r.IntN(6) == 0 {
			name = fmt.Sprintf("#T%d", t)
		}
		var decls []string
		// paths that exist in this struct: base name followed by labels
		var paths [][]string
		nb := 2 + r.IntN(2)
		for bi := 0; bi < nb; bi++ {
			bn := base[bi]
			for k := 0; k < 1+r.IntN(2); k++ {
				// bn: [earlier base:]* inner: {leafs}
				path := []string{bn}
				if bi > 0 && r.IntN(2) == 0 {
					path = append(path, base[r.IntN(bi)])
					if len(path) == 2 && path[1] != base[0] && r.IntN(2) == 0 {
						path = append(path, base[0])
					}
				}
				path = append(path, pick(inner))
				decls = append(decls, strings.Join(path, ": ")+": "+leafStruct())
				paths = append(paths, path)
			}
		}
		// embeddings of own fields and of nested paths of own fields
		ne := 1 + r.IntN(3)
		for k := 0; k < ne; k++ {
			p := paths[r.IntN(len(paths))]
			cut := 1 + r.IntN(len(p))
			// never embed a leaf struct's parent chain that ends in a base name used as a field of this struct at
			// top level only: any prefix is a struct
			decls = append(decls, strings.Join(p[:cut], "."))
		}
		if nDefs > 0 && r.IntN(3) == 0 {
			decls = append(decls, fmt.Sprintf("#E%d", r.IntN(nDefs)))
		}
		// regular fields that refer to the same paths
		if r.IntN(2) == 0 {
			p := paths[r.IntN(len(paths))]
			decls = append(decls, "v: "+strings.Join(p[:1+r.IntN(len(p))], "."))
		}
		if r.IntN(3) == 0 {
			p := paths[r.IntN(len(paths))]
			decls = append(decls, "u: "+strings.Join(p[:1+r.IntN(len(p))], ".")+" & "+leafStruct())
		}
		r.Shuffle(len(decls), func(i, j int) { decls[i], decls[j] = decls[j], decls[i] })
		fmt.Fprintf(&b, "%s: {\n\t%s\n}\n", name, strings.Join(decls, "\n\t"))
		if strings.HasPrefix(name, "#") {
			fmt.Fprintf(&b, "t%d: %s & {%s}\n", t, name, leaf())
		}
	}
	return b.String()
}
