package gen

import (
	"bytes"
	"encoding/base64"
	"encoding/json"
	"fmt"
	"math/big"
	"math/rand/v2"
	"strings"
	"unicode/utf8"

	"cuelang.org/go/cue"
)

// Data is a concrete data tree with its ground truth.
type Data struct {
	Kind  string // null bool int float string list struct
	B     bool
	Num   *big.Rat
	Lit   string // spelling of the number as generated
	S     string
	Elems []*Data
	Keys  []string
	Vals  []*Data
	// CUELit, if set, is the CUE spelling of the leaf (a bytes literal whose JSON form is the base64 string S)
	CUELit string
}

// Pool is the adversarial string pool: every YAML 1.1/1.2 implicit spelling, document markers,
// indicator characters in first/inner/last position, control characters, blank-only and
// newline-only strings, CUE/JSON/TOML-special spellings.
var Pool = []string{"y", "Y", "yes", "Yes", "no", "n", "N", "on", "off", "true", "True", "TRUE", "false", "null", "Null", "NULL", "~", "", " ", "  ", "\n", "\n\n", " \n", "a\n", "\na", "a\nb", "a\n\nb\n", "\t", "a\tb",
	"0x10", "0o17", "017", "0b11", "1_000", "1e3", "1E3", ".5", "5.", "+1", "-1", "1.0", ".inf", "-.inf", "+.inf", ".Inf", ".nan", ".NaN", "1:30", "190:20:30",
	"2001-01-01", "2001-01-01T00:00:00Z", "2001-12-14 21:59:43.10 -5", "<<", "=", "---", "...", "--- a", "... a", "...1.0", "- x", "-", "- ", "?", "? a", ":", "a: b", "a:", ":a", "a #b", "#c", "# c", "a#b",
	"&a", "*a", "!a", "!!str x", "!!int 3", "|", ">", "|-", ">+", "%a", "%YAML 1.2", "@a", "`a", "[a]", "[", "]", "{a}", "{", "}", ",", "a,b", "a, b", "'", "\"", "'a'", "\"a\"", "a'b", "a\"b", "\\", "a\\nb", "\\n",
	"\x00", "\x01", "\a", "\b", "\v", "\f", "\x1b", "\x1f", "\x7f", "\U000e0001", "\U000f0000", "\u0085", "\u00a0", "\u00a0x", "\u2028", "\u2029", "\ufeff", "\ufeffa", "a\ufeff", "😀", "é", "\U0010ffff", " lead", "trail ", "\ttab", "tab\t", "a  b", "a\rb", "\r", "\r\n",
	"\\(", "\\(x)", "\"\"\"", "#\"", "key with spaces", "0", "00", "1", "-0", "1.5", "1e400", "12345678901234567890", "0.1", "null: x", "y: n", "a.b", "a.b.c", "\"q\".x", "", "<a>&b", "</script>", "<",
	"a\\", "\\u0041", "%20", "$x", "${x}", "*", "**", "a=b", "[x]]", "1 2", "0.", "1e", "e1", "inf", "nan", "NaN", "Infinity", "-Infinity"}

var numPool = []string{"0", "1", "-1", "7", "42", "-0", "1.5", "-1.5", "0.1", "1e3", "1E+2", "1e-2", "3.0", "-0.0", "12345678901234567890", "9007199254740993", "9223372036854775807", "9223372036854775808", "-9223372036854775809",
	"18446744073709551616", "1e400", "1e-400", "0.30000000000000004", "3.141592653589793238462643383279502884197", "100000000000000000000000000000000000000001", "2.5e10", "1E0", "0e0", "0.0e-5", "123456789.123456789e5"}

// Options select the subset of data that a format can represent.
type DataOpts struct {
	MaxDepth    int
	NoNull      bool // TOML
	Int64Only   bool // TOML
	NoFloatExp  bool
	Keys        []string // extra keys
	ASCIIKeys   bool
	NoEmptyKey  bool
	NoMultiLine bool
}

var linePool = []string{"", "", " ", "\t", "a", " a", "a ", "\u00a0", "#c", "- x", "k: v", "  ind", "\t\t", "...", "---", "|", ">", "b:", "'", "\"", "x\\"}

// multiLine builds a string of 2-5 lines from linePool (blank, tab-only and padded lines next to content).
func multiLine(r *rand.Rand) string {
	n := 2 + r.IntN(4)
	lines := make([]string, n)
	for i := range lines {
		lines[i] = linePool[r.IntN(len(linePool))]
	}
	s := strings.Join(lines, "\n")
	if r.IntN(3) == 0 {
		s += "\n"
	}
	return s
}

func (o DataOpts) str(r *rand.Rand) string {
	if !o.NoMultiLine && r.IntN(8) == 0 {
		return multiLine(r)
	}
	switch r.IntN(6) {
	case 0:
		return Pool[r.IntN(len(Pool))] + Pool[r.IntN(len(Pool))]
	case 1:
		return []string{"a", "b", "name", "x y", "id"}[r.IntN(5)]
	default:
		return Pool[r.IntN(len(Pool))]
	}
}

// GenData generates a data tree.
func GenData(r *rand.Rand, o DataOpts, depth int) *Data {
	if o.MaxDepth == 0 {
		o.MaxDepth = 4
	}
	k := r.IntN(10)
	if depth >= o.MaxDepth && k >= 6 {
		k = r.IntN(6)
	}
	switch k {
	case 0, 1, 2:
		return &Data{Kind: "string", S: o.str(r)}
	case 3:
		lit := numPool[r.IntN(len(numPool))]
		if o.Int64Only {
			lit = []string{"0", "1", "-1", "42", "9223372036854775807", "-9223372036854775808", "1.5", "-0.25", "1e3", "3.0"}[r.IntN(10)]
		}
		return NumData(lit)
	case 4:
		if o.NoNull || r.IntN(3) > 0 {
			return &Data{Kind: "bool", B: r.IntN(2) == 0}
		}
		return &Data{Kind: "null"}
	case 5:
		if r.IntN(2) == 0 {
			return &Data{Kind: "string", S: o.str(r)}
		}
		return NumData(fmt.Sprint(r.IntN(2000) - 1000))
	case 6, 7, 8:
		d := &Data{Kind: "struct"}
		seen := map[string]bool{}
		n := r.IntN(5)
		for i := 0; i < n; i++ {
			key := o.str(r)
			if o.NoEmptyKey && key == "" {
				continue
			}
			if seen[key] || !utf8.ValidString(key) {
				continue
			}
			seen[key] = true
			d.Keys = append(d.Keys, key)
			d.Vals = append(d.Vals, GenData(r, o, depth+1))
		}
		return d
	default:
		d := &Data{Kind: "list"}
		n := r.IntN(5)
		for i := 0; i < n; i++ {
			d.Elems = append(d.Elems, GenData(r, o, depth+1))
		}
		return d
	}
}

// NumData builds a number node from a JSON/CUE decimal spelling.
func NumData(lit string) *Data {
	x, ok := new(big.Rat).SetString(lit)
	if !ok {
		panic("bad number " + lit)
	}
	kind := "int"
	if strings.ContainsAny(lit, ".eE") {
		kind = "float"
	}
	return &Data{Kind: kind, Num: x, Lit: lit}
}

// CUEString quotes s as a CUE (and JSON) string literal with \u escapes only.
func CUEString(s string) string {
	var sb strings.Builder
	sb.WriteByte('"')
	for _, r := range s {
		switch {
		case r == '"':
			sb.WriteString(`\"`)
		case r == '\\':
			sb.WriteString(`\\`)
		case r == '\n':
			sb.WriteString(`\n`)
		case r == '\r':
			sb.WriteString(`\r`)
		case r == '\t':
			sb.WriteString(`\t`)
		case r < 0x20 || r == 0x7f || r == 0x85 || r == 0xa0 || r == 0x2028 || r == 0x2029 || r == 0xfeff || r == utf8.RuneError:
			fmt.Fprintf(&sb, `\u%04x`, r)
		case r > 0xffff:
			fmt.Fprintf(&sb, `\U%08x`, r)
		default:
			sb.WriteRune(r)
		}
	}
	sb.WriteByte('"')
	return sb.String()
}

// CUE prints d as CUE source (an expression).
func (d *Data) CUE() string {
	var sb strings.Builder
	d.cue(&sb, "")
	return sb.String()
}

func (d *Data) cue(sb *strings.Builder, ind string) {
	switch d.Kind {
	case "null":
		sb.WriteString("null")
	case "bool":
		fmt.Fprint(sb, d.B)
	case "int", "float":
		lit := d.Lit
		if strings.HasPrefix(lit, "-") {
			lit = "(" + lit + ")"
		}
		sb.WriteString(lit)
	case "string":
		if d.CUELit != "" {
			sb.WriteString(d.CUELit)
		} else {
			sb.WriteString(CUEString(d.S))
		}
	case "list":
		sb.WriteString("[")
		for i, e := range d.Elems {
			if i > 0 {
				sb.WriteString(", ")
			}
			e.cue(sb, ind+"\t")
		}
		sb.WriteString("]")
	case "struct":
		sb.WriteString("{\n")
		for i, k := range d.Keys {
			sb.WriteString(ind + "\t" + CUEString(k) + ": ")
			d.Vals[i].cue(sb, ind+"\t")
			sb.WriteString("\n")
		}
		sb.WriteString(ind + "}")
	}
}

// JSON prints d as a JSON document; with r != nil it varies escapes, whitespace and number spellings
// (all denoting the same data).
func (d *Data) JSON(r *rand.Rand) string {
	var sb strings.Builder
	d.json(&sb, r)
	return sb.String()
}

func jsonWS(r *rand.Rand) string {
	if r == nil || r.IntN(3) > 0 {
		return ""
	}
	return []string{" ", "\n", "\t", "\r\n", "  "}[r.IntN(5)]
}

// JSONString encodes s with PRNG-chosen escape spellings.
func JSONString(r *rand.Rand, s string) string {
	var sb strings.Builder
	sb.WriteByte('"')
	for _, c := range s {
		esc := r != nil && r.IntN(8) == 0
		switch {
		case c == '"':
			sb.WriteString(`\"`)
		case c == '\\':
			sb.WriteString(`\\`)
		case c == '/' && esc:
			sb.WriteString(`\/`)
		case c == '\n':
			sb.WriteString(`\n`)
		case c == '\r':
			sb.WriteString(`\r`)
		case c == '\t':
			sb.WriteString(`\t`)
		case c == '\b':
			sb.WriteString(`\b`)
		case c == '\f':
			sb.WriteString(`\f`)
		case c < 0x20:
			fmt.Fprintf(&sb, `\u%04x`, c)
		case c == utf8.RuneError:
			sb.WriteString(`�`)
		case esc && c <= 0xffff:
			if r.IntN(2) == 0 {
				fmt.Fprintf(&sb, `\u%04X`, c)
			} else {
				fmt.Fprintf(&sb, `\u%04x`, c)
			}
		case esc && c > 0xffff:
			c2 := c - 0x10000
			fmt.Fprintf(&sb, `\u%04x\u%04x`, 0xd800+(c2>>10), 0xdc00+(c2&0x3ff))
		default:
			sb.WriteRune(c)
		}
	}
	sb.WriteByte('"')
	return sb.String()
}

func (d *Data) json(sb *strings.Builder, r *rand.Rand) {
	sb.WriteString(jsonWS(r))
	switch d.Kind {
	case "null":
		sb.WriteString("null")
	case "bool":
		fmt.Fprint(sb, d.B)
	case "int", "float":
		sb.WriteString(d.Lit)
	case "string":
		sb.WriteString(JSONString(r, d.S))
	case "list":
		sb.WriteString("[")
		for i, e := range d.Elems {
			if i > 0 {
				sb.WriteString(",")
			}
			e.json(sb, r)
		}
		sb.WriteString(jsonWS(r) + "]")
	case "struct":
		sb.WriteString("{")
		for i, k := range d.Keys {
			if i > 0 {
				sb.WriteString(",")
			}
			sb.WriteString(jsonWS(r) + JSONString(r, k) + jsonWS(r) + ":")
			d.Vals[i].json(sb, r)
		}
		sb.WriteString(jsonWS(r) + "}")
	}
	sb.WriteString(jsonWS(r))
}

// FromJSON reads a JSON document with encoding/json (token stream: key order and duplicates kept, numbers exact).
func FromJSON(b []byte) (*Data, error) {
	dec := json.NewDecoder(bytes.NewReader(b))
	dec.UseNumber()
	d, err := fromTokens(dec)
	if err != nil {
		return nil, err
	}
	if _, err := dec.Token(); err == nil {
		return nil, fmt.Errorf("trailing data after JSON value")
	}
	return d, nil
}

func fromTokens(dec *json.Decoder) (*Data, error) {
	t, err := dec.Token()
	if err != nil {
		return nil, err
	}
	switch x := t.(type) {
	case nil:
		return &Data{Kind: "null"}, nil
	case bool:
		return &Data{Kind: "bool", B: x}, nil
	case json.Number:
		return NumData(string(x)), nil
	case string:
		return &Data{Kind: "string", S: x}, nil
	case json.Delim:
		switch x {
		case '[':
			d := &Data{Kind: "list"}
			for dec.More() {
				e, err := fromTokens(dec)
				if err != nil {
					return nil, err
				}
				d.Elems = append(d.Elems, e)
			}
			_, err := dec.Token()
			return d, err
		case '{':
			d := &Data{Kind: "struct"}
			for dec.More() {
				kt, err := dec.Token()
				if err != nil {
					return nil, err
				}
				k, _ := kt.(string)
				v, err := fromTokens(dec)
				if err != nil {
					return nil, err
				}
				d.Keys = append(d.Keys, k)
				d.Vals = append(d.Vals, v)
			}
			_, err := dec.Token()
			return d, err
		}
	}
	return nil, fmt.Errorf("unexpected token %v", t)
}

// Diff returns "" if a and b denote the same data (same order, strings byte for byte, numbers by exact
// value; kindStrict also requires the same int/float kind), else a description of the first difference.
func Diff(a, b *Data, path string, kindStrict bool, orderInsensitive bool) string {
	if a == nil || b == nil {
		return path + ": missing"
	}
	an, bn := a.Kind == "int" || a.Kind == "float", b.Kind == "int" || b.Kind == "float"
	if an && bn {
		if a.Num.Cmp(b.Num) != 0 {
			return fmt.Sprintf("%s: number %s ≠ %s", path, a.Lit, b.Lit)
		}
		if kindStrict && a.Kind != b.Kind {
			return fmt.Sprintf("%s: %s (%s) vs %s (%s)", path, a.Lit, a.Kind, b.Lit, b.Kind)
		}
		return ""
	}
	if a.Kind != b.Kind {
		return fmt.Sprintf("%s: kind %s ≠ %s", path, a.Kind, b.Kind)
	}
	switch a.Kind {
	case "bool":
		if a.B != b.B {
			return path + ": bool differs"
		}
	case "string":
		if a.S != b.S {
			return fmt.Sprintf("%s: string %q ≠ %q", path, a.S, b.S)
		}
	case "list":
		if len(a.Elems) != len(b.Elems) {
			return fmt.Sprintf("%s: list length %d ≠ %d", path, len(a.Elems), len(b.Elems))
		}
		for i := range a.Elems {
			if d := Diff(a.Elems[i], b.Elems[i], fmt.Sprintf("%s[%d]", path, i), kindStrict, orderInsensitive); d != "" {
				return d
			}
		}
	case "struct":
		if len(a.Keys) != len(b.Keys) {
			return fmt.Sprintf("%s: %d keys %q ≠ %d keys %q", path, len(a.Keys), a.Keys, len(b.Keys), b.Keys)
		}
		if orderInsensitive {
			for i, k := range a.Keys {
				j := -1
				for jj, kk := range b.Keys {
					if kk == k {
						j = jj
					}
				}
				if j < 0 {
					return fmt.Sprintf("%s: key %q missing", path, k)
				}
				if d := Diff(a.Vals[i], b.Vals[j], path+"."+fmt.Sprintf("%q", k), kindStrict, orderInsensitive); d != "" {
					return d
				}
			}
			return ""
		}
		for i := range a.Keys {
			if a.Keys[i] != b.Keys[i] {
				return fmt.Sprintf("%s: key %d is %q ≠ %q (keys %q vs %q)", path, i, a.Keys[i], b.Keys[i], a.Keys, b.Keys)
			}
			if d := Diff(a.Vals[i], b.Vals[i], path+"."+fmt.Sprintf("%q", a.Keys[i]), kindStrict, orderInsensitive); d != "" {
				return d
			}
		}
	}
	return ""
}

// FromValue reads a concrete cue.Value back as data (regular fields in order).
func FromValue(v cue.Value) (*Data, error) {
	if err := v.Err(); err != nil {
		return nil, err
	}
	switch v.Kind() {
	case cue.NullKind:
		return &Data{Kind: "null"}, nil
	case cue.BoolKind:
		b, _ := v.Bool()
		return &Data{Kind: "bool", B: b}, nil
	case cue.IntKind, cue.FloatKind:
		s := fmt.Sprint(v)
		x, ok := new(big.Rat).SetString(s)
		if !ok {
			return nil, fmt.Errorf("unreadable number %q", s)
		}
		k := "int"
		if v.Kind() == cue.FloatKind {
			k = "float"
		}
		return &Data{Kind: k, Num: x, Lit: s}, nil
	case cue.StringKind:
		s, err := v.String()
		return &Data{Kind: "string", S: s}, err
	case cue.BytesKind:
		b, err := v.Bytes()
		return &Data{Kind: "bytes", S: string(b)}, err
	case cue.ListKind:
		d := &Data{Kind: "list"}
		it, err := v.List()
		if err != nil {
			return nil, err
		}
		for it.Next() {
			e, err := FromValue(it.Value())
			if err != nil {
				return nil, err
			}
			d.Elems = append(d.Elems, e)
		}
		return d, nil
	case cue.StructKind:
		d := &Data{Kind: "struct"}
		it, err := v.Fields()
		if err != nil {
			return nil, err
		}
		for it.Next() {
			e, err := FromValue(it.Value())
			if err != nil {
				return nil, err
			}
			d.Keys = append(d.Keys, it.Selector().Unquoted())
			d.Vals = append(d.Vals, e)
		}
		return d, nil
	}
	return nil, fmt.Errorf("not concrete data: %v", v.Kind())
}

// BytesData is a bytes leaf: a CUE bytes literal whose JSON form is the base64 string.
func BytesData(b []byte) *Data {
	var sb strings.Builder
	sb.WriteByte('\'')
	for _, c := range b {
		switch {
		case c == '\n':
			sb.WriteString("\\n")
		case c == '\'' || c == '\\':
			fmt.Fprintf(&sb, "\\x%02x", c)
		case c >= 0x20 && c < 0x7f:
			sb.WriteByte(c)
		default:
			fmt.Fprintf(&sb, "\\x%02x", c)
		}
	}
	sb.WriteByte('\'')
	return &Data{Kind: "string", S: base64.StdEncoding.EncodeToString(b), CUELit: sb.String()}
}
