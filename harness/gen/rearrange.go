package gen

import (
	"math/rand/v2"

	"cuelang.org/go/cue/ast"
	"cuelang.org/go/cue/token"
)

// Rearrangement kinds (C01): every one preserves the meaning of the program
// per spec §Unification (commutative, associative, idempotent), §Structs
// (declaration order is irrelevant), §Embedding.
const (
	RPermute   = "permute-declarations"
	RSwap      = "swap-&-operands"
	RReassoc   = "reassociate-&"
	RDuplicate = "duplicate-conjunct"
	RSplit     = "split-field"
	RMerge     = "merge-fields"
	RTop       = "unify-with-top"
	RWrap      = "wrap-as-sole-embedding"
)

var AllRearrangements = []string{RPermute, RSwap, RReassoc, RDuplicate, RSplit, RMerge, RTop, RWrap}

func movable(d ast.Decl) bool {
	switch d.(type) {
	case *ast.Package, *ast.ImportDecl, *ast.Ellipsis, *ast.CommentGroup, *ast.Attribute, *ast.BadDecl:
		return false
	}
	return true
}

func permuteDecls(r *rand.Rand, decls []ast.Decl) ([]ast.Decl, bool) {
	var idx []int
	for i, d := range decls {
		if movable(d) {
			idx = append(idx, i)
		}
	}
	if len(idx) < 2 {
		return decls, false
	}
	perm := r.Perm(len(idx))
	out := make([]ast.Decl, len(decls))
	copy(out, decls)
	changed := false
	for k, i := range idx {
		out[i] = decls[idx[perm[k]]]
		if perm[k] != k {
			changed = true
		}
	}
	return out, changed
}

func paren(e ast.Expr) ast.Expr {
	switch e.(type) {
	case *ast.BasicLit, *ast.Ident, *ast.StructLit, *ast.ListLit, *ast.ParenExpr, *ast.CallExpr, *ast.SelectorExpr, *ast.IndexExpr, *ast.Interpolation:
		return e
	}
	return &ast.ParenExpr{X: e}
}

func and(x, y ast.Expr) ast.Expr {
	return &ast.BinaryExpr{Op: token.AND, X: paren(x), Y: paren(y)}
}

// plainField reports whether f is a field whose value may be rewritten freely
// (no alias binding that a rewrite could orphan).
func plainField(f *ast.Field) bool {
	if f.Alias != nil { //nolint
		return false
	}
	if _, ok := f.Value.(*ast.Alias); ok {
		return false
	}
	if _, ok := f.Label.(*ast.Alias); ok {
		return false
	}
	return true
}

func labelKey(f *ast.Field) (string, bool) {
	switch l := f.Label.(type) {
	case *ast.Ident:
		return "i:" + l.Name + f.Constraint.String(), true
	case *ast.BasicLit:
		return "s:" + l.Value + f.Constraint.String(), true
	}
	return "", false
}

func clearPos(n ast.Node) {
	ast.Walk(n, func(n ast.Node) bool {
		return true
	}, nil)
}

// Rearrange applies the rearrangement kinds in want (each at PRNG-chosen sites)
// to f in place and returns the kinds that actually changed something.
func Rearrange(r *rand.Rand, f *ast.File, want map[string]bool) []string {
	applied := map[string]bool{}
	var rewriteDecls func(decls []ast.Decl) []ast.Decl
	var rewriteExpr func(e ast.Expr) ast.Expr

	rewriteExpr = func(e ast.Expr) ast.Expr {
		switch x := e.(type) {
		case *ast.BinaryExpr:
			x.X = rewriteExpr(x.X)
			x.Y = rewriteExpr(x.Y)
			if x.Op == token.AND {
				if want[RSwap] && r.IntN(2) == 0 {
					x.X, x.Y = x.Y, x.X
					applied[RSwap] = true
				}
				if want[RReassoc] && r.IntN(2) == 0 {
					// (a & b) & c  →  a & (b & c)
					if l, ok := x.X.(*ast.BinaryExpr); ok && l.Op == token.AND {
						a, b, c := l.X, l.Y, x.Y
						applied[RReassoc] = true
						return &ast.BinaryExpr{Op: token.AND, X: a, Y: &ast.ParenExpr{X: &ast.BinaryExpr{Op: token.AND, X: b, Y: c}}}
					}
					if p, ok := x.X.(*ast.ParenExpr); ok {
						if l, ok := p.X.(*ast.BinaryExpr); ok && l.Op == token.AND {
							a, b, c := l.X, l.Y, x.Y
							applied[RReassoc] = true
							return &ast.BinaryExpr{Op: token.AND, X: a, Y: &ast.ParenExpr{X: &ast.BinaryExpr{Op: token.AND, X: b, Y: c}}}
						}
					}
				}
			}
			return x
		case *ast.ParenExpr:
			x.X = rewriteExpr(x.X)
			return x
		case *ast.StructLit:
			x.Elts = rewriteDecls(x.Elts)
			return x
		case *ast.ListLit:
			for i, el := range x.Elts {
				if _, ok := el.(*ast.Ellipsis); ok {
					continue
				}
				x.Elts[i] = rewriteExpr(el)
			}
			return x
		case *ast.UnaryExpr:
			// do not descend into *x default marks: the operand stays as is
			return x
		}
		return e
	}

	rewriteDecls = func(decls []ast.Decl) []ast.Decl {
		var out []ast.Decl
		for _, d := range decls {
			switch x := d.(type) {
			case *ast.Field:
				x.Value = rewriteExpr(x.Value)
				if plainField(x) {
					if want[RSplit] && r.IntN(3) == 0 {
						if b, ok := x.Value.(*ast.BinaryExpr); ok && b.Op == token.AND {
							f2 := &ast.Field{Label: x.Label, Constraint: x.Constraint, Value: b.Y}
							x.Value = b.X
							out = append(out, x, f2)
							applied[RSplit] = true
							continue
						}
					}
					if want[RDuplicate] && r.IntN(4) == 0 {
						if r.IntN(2) == 0 {
							x.Value = and(x.Value, x.Value)
						} else {
							out = append(out, &ast.Field{Label: x.Label, Constraint: x.Constraint, Value: x.Value})
						}
						applied[RDuplicate] = true
					}
					if want[RTop] && r.IntN(4) == 0 {
						if r.IntN(2) == 0 {
							x.Value = and(x.Value, ast.NewIdent("_"))
						} else {
							x.Value = and(ast.NewIdent("_"), x.Value)
						}
						applied[RTop] = true
					}
					if want[RWrap] && r.IntN(4) == 0 {
						x.Value = &ast.StructLit{Elts: []ast.Decl{&ast.EmbedDecl{Expr: x.Value}}}
						applied[RWrap] = true
					}
				}
				out = append(out, x)
			case *ast.EmbedDecl:
				x.Expr = rewriteExpr(x.Expr)
				out = append(out, x)
			case *ast.Comprehension:
				if s, ok := x.Value.(*ast.StructLit); ok {
					s.Elts = rewriteDecls(s.Elts)
				}
				out = append(out, x)
			default:
				out = append(out, d)
			}
		}
		if want[RMerge] {
			// merge two plain fields with the same label into one
			seen := map[string]*ast.Field{}
			var merged []ast.Decl
			for _, d := range out {
				if fd, ok := d.(*ast.Field); ok && plainField(fd) {
					if k, ok := labelKey(fd); ok {
						if prev, dup := seen[k]; dup && r.IntN(2) == 0 {
							prev.Value = and(prev.Value, fd.Value)
							applied[RMerge] = true
							continue
						}
						seen[k] = fd
					}
				}
				merged = append(merged, d)
			}
			out = merged
		}
		if want[RPermute] {
			var ch bool
			out, ch = permuteDecls(r, out)
			if ch {
				applied[RPermute] = true
			}
		}
		return out
	}
	f.Decls = rewriteDecls(f.Decls)
	var kinds []string
	for _, k := range AllRearrangements {
		if applied[k] {
			kinds = append(kinds, k)
		}
	}
	return kinds
}
