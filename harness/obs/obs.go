// Package obs builds order-insensitive observations of cue.Values, almost
// entirely from the public API (see DESIGN.md §3.2).
package obs

import (
	"fmt"
	"runtime/debug"
	"sort"
	"strings"

	"cuelang.org/go/cue"
	"cuelang.org/go/internal/core/adt"
	"cuelang.org/go/internal/value"
)

// Observe builds an order-insensitive description of v from the public API,
// plus the error class taken from adt.Bottom.Code.
//
// mode: "raw" | "final" | "data"
type Observer struct {
	ctx    *cue.Context
	mode   string
	probes []cue.Value // probe atoms
	psrc   []string
	labels []string // label alphabet for Allows
	depth  int

	// IgnoreLabels lists field labels that are not part of the observation (e.g. the helper
	// definition _#def that the exporter adds to keep a value closed).
	IgnoreLabels map[string]bool
	// NoNewProbe disables the "what would a new field be constrained to" probe.
	NoNewProbe bool
	// Panics collects panics raised by cue API calls made by probes (stack top inside cue).
	Panics []string
}

func New(ctx *cue.Context, mode string, probeSrc []string, labels []string) *Observer {
	o := &Observer{ctx: ctx, mode: mode, labels: labels}
	for _, s := range probeSrc {
		o.probes = append(o.probes, ctx.CompileString(s))
		o.psrc = append(o.psrc, s)
	}
	return o
}

// ErrClass returns the error class of v itself ("" if none).
func ErrClass(v cue.Value) string {
	_, n := value.ToInternal(v)
	if n == nil {
		return "nil"
	}
	if b, ok := n.BaseValue.(*adt.Bottom); ok && b != nil {
		if b.ChildError && len(n.Arcs) > 0 {
			return ""
		}
		switch b.Code {
		case adt.IncompleteError:
			return "incomplete"
		case adt.CycleError:
			return "cycle"
		case adt.StructuralCycleError:
			return "structcycle"
		default:
			return "eval"
		}
	}
	return ""
}

// Observe returns the observation of v.
func (o *Observer) Observe(v cue.Value) string { return o.obs(v, 0) }

func (o *Observer) obs(v cue.Value, depth int) string {
	if depth > 12 {
		return "<deep>"
	}
	if !v.Exists() {
		return "<absent>"
	}
	if o.mode != "raw" {
		if d, ok := v.Default(); ok {
			v = d
		}
	}
	if c := ErrClass(v); c != "" {
		return "_|_(" + c + ")"
	}
	k := v.IncompleteKind()
	if args := disjuncts(v); len(args) > 1 && depth < 10 {
		// an unresolved disjunction is observed as the set of its distinct (projected) disjuncts;
		// in raw mode its default, if any, is part of the observation.  The disjuncts are read from
		// the evaluated value (adt.Disjunction), not from the source expression, so that the
		// observation does not depend on how the value was written.
		set := map[string]bool{}
		for _, a := range args {
			set[o.obs(a, depth+1)] = true
		}
		var parts []string
		for p := range set {
			parts = append(parts, p)
		}
		sort.Strings(parts)
		if len(parts) == 1 {
			return parts[0]
		}
		def := ""
		if o.mode == "raw" {
			if d, ok := v.Default(); ok {
				def = "|default=" + o.obs(d, depth+1)
			}
		}
		return "OR(" + strings.Join(parts, " | ") + def + ")"
	}
	if _, n := value.ToInternal(v); n != nil {
		if b, ok := n.BaseValue.(*adt.Bottom); ok && b != nil && b.ChildError && len(n.Arcs) > 0 {
			return o.arcsObs(v, n, depth)
		}
	}
	switch {
	case k == cue.StructKind && v.Kind() == cue.StructKind || k == cue.StructKind:
		return o.structObs(v, depth)
	case k == cue.ListKind:
		var parts []string
		it, err := v.List()
		if err == nil {
			for it.Next() {
				parts = append(parts, o.obs(it.Value(), depth+1))
			}
		}
		open := ""
		if l := v.Len(); !l.IsConcrete() {
			open = ",..." + o.obs(v.LookupPath(cue.MakePath(cue.AnyIndex)), depth+1)
		}
		return "[" + strings.Join(parts, ",") + open + "]"
	}
	if v.IsConcrete() {
		switch v.Kind() {
		case cue.NullKind:
			return "null"
		case cue.BoolKind:
			b, _ := v.Bool()
			return fmt.Sprint(b)
		case cue.IntKind, cue.FloatKind:
			return fmt.Sprintf("%v:%v", v.Kind(), v)
		case cue.StringKind:
			s, _ := v.String()
			return fmt.Sprintf("%q", s)
		case cue.BytesKind:
			b, _ := v.Bytes()
			return fmt.Sprintf("'%x'", b)
		}
	}
	// non-concrete scalar: kind + probe acceptance vector + default info
	var sb strings.Builder
	fmt.Fprintf(&sb, "<%v", k)
	if o.mode == "raw" {
		if d, ok := v.Default(); ok {
			sb.WriteString(" def=" + o.obs(d, depth+1))
		}
	}
	sb.WriteString(" acc=")
	for i, p := range o.probes {
		u := v.Unify(p)
		if u.Validate() == nil {
			sb.WriteString(o.psrc[i] + ";")
		}
	}
	sb.WriteString(">")
	return sb.String()
}

func (o *Observer) structObs(v cue.Value, depth int) string {
	var parts []string
	opts := []cue.Option{cue.All()}
	if o.mode == "data" {
		opts = nil
	}
	if o.mode == "final" {
		opts = []cue.Option{cue.Optional(false), cue.Definitions(false), cue.Hidden(false)}
	}
	if o.mode == "finaldefs" { // what `cue eval` shows: defaults taken, definitions shown
		opts = []cue.Option{cue.Optional(false), cue.Definitions(true), cue.Hidden(false)}
	}
	it, err := v.Fields(opts...)
	if err != nil {
		return "_|_(fields:" + ErrClass(v) + ")"
	}
	for it.Next() {
		sel := it.Selector()
		if o.IgnoreLabels[sel.String()] {
			continue
		}
		parts = append(parts, sel.String()+":"+o.obs(it.Value(), depth+1))
	}
	sort.Strings(parts)
	extra := ""
	if o.mode == "raw" {
		var al []string
		for _, l := range o.labels {
			if v.Allows(cue.Str(l)) {
				al = append(al, l)
			}
		}
		anyStr := v.Allows(cue.AnyString)
		if anyStr && len(al) == len(o.labels) {
			// open to every field (ellipsis / open struct): the IsClosed bit carries no membership information
			extra = "|open"
		} else {
			extra = fmt.Sprintf("|closed=%v allows=%s any=%v", v.IsClosed(), strings.Join(al, ","), anyStr)
		}
		// pattern constraints: observe what a fresh matching field would be constrained to
		for _, l := range o.labels {
			if o.NoNewProbe {
				break
			}
			if v.Allows(cue.Str(l)) && !v.LookupPath(cue.MakePath(cue.Str(l))).Exists() {
				extra += o.newProbe(v, l, depth)
			}
		}
	}
	return "{" + strings.Join(parts, ";") + extra + "}"
}

// DefaultProbes are the probe atoms unified with non-concrete leaves.
var DefaultProbes = []string{"0", "1", "2", "3", "4", "5", "6", "7", "-1", "100", "255", "256", "1.5", `"ax"`, `"bx"`, `"a b"`, `""`, `"zz"`, "true", "null", "'b'"}
// DefaultLabels is the label alphabet used for Allows.
var DefaultLabels = []string{"a", "b", "c", "d", "e", "q", "y", "z1", "zq"}

// arcsObs describes a struct or list whose own value is a child error, by
// walking the internal arcs (the public Fields API refuses erroneous structs).
func (o *Observer) arcsObs(v cue.Value, n *adt.Vertex, depth int) string {
	r, _ := value.ToInternal(v)
	var parts []string
	isList := false
	for _, a := range n.Arcs {
		if a.Label.IsLet() {
			continue
		}
		if a.Label.IsInt() {
			isList = true
		}
		m := ""
		switch a.ArcType {
		case adt.ArcMember:
		case adt.ArcOptional:
			m = "?"
		case adt.ArcRequired:
			m = "!"
		default:
			continue
		}
		if o.mode != "raw" && (m != "" || !a.Label.IsRegular()) {
			continue
		}
		av := value.Make(adt.NewContext(r, a), a)
		parts = append(parts, a.Label.SelectorString(r)+m+":"+o.obs(av, depth+1))
	}
	if isList {
		return "E[" + strings.Join(parts, ",") + "]"
	}
	sort.Strings(parts)
	return "E{" + strings.Join(parts, ";") + "}"
}

// TopLevel observes every top-level field of v separately (regular,
// optional/required, hidden and definition fields), keyed by label+marker.
// It walks the internal arcs so that a root with child errors can still be
// described field by field.
func (o *Observer) TopLevel(v cue.Value) map[string]string {
	out := map[string]string{}
	r, n := value.ToInternal(v)
	if n == nil {
		return out
	}
	if b, ok := n.BaseValue.(*adt.Bottom); ok && b != nil && !(b.ChildError && len(n.Arcs) > 0) {
		out["<root>"] = "_|_(" + ErrClass(v) + ")"
		return out
	}
	for _, a := range n.Arcs {
		if a.Label.IsLet() {
			continue
		}
		m := ""
		switch a.ArcType {
		case adt.ArcMember:
		case adt.ArcOptional:
			m = "?"
		case adt.ArcRequired:
			m = "!"
		default:
			continue
		}
		if o.mode != "raw" && (m != "" || !a.Label.IsRegular()) {
			continue
		}
		av := value.Make(adt.NewContext(r, a), a)
		out[a.Label.SelectorString(r)+m] = o.obs(av, 1)
	}
	if o.mode == "raw" && n.BaseValue != nil {
		if _, isBottom := n.BaseValue.(*adt.Bottom); !isBottom {
			// closedness and patterns of the root itself
			var al []string
			for _, l := range o.labels {
				if v.Allows(cue.Str(l)) {
					al = append(al, l)
				}
			}
			out["<root>"] = fmt.Sprintf("closed=%v allows=%s", v.IsClosed(), strings.Join(al, ","))
		}
	}
	return out
}

// newProbe observes what a fresh field l of v would be constrained to
// (patterns, closedness).  Value.FillPath is a public API call on an
// evaluated value: a panic escaping from it is recorded, not propagated.
func (o *Observer) newProbe(v cue.Value, l string, depth int) (out string) {
	defer func() {
		if r := recover(); r != nil {
			site := "?"
			for _, line := range strings.Split(string(debug.Stack()), "\n") {
				if strings.HasPrefix(line, "cuelang.org/go/") && !strings.Contains(line, "/verifh/") {
					site = line
					if i := strings.IndexByte(site, '('); i > 0 {
						site = site[:i]
					}
					if j := strings.LastIndexByte(site, '.'); j > 0 {
						site = site[j+1:]
					}
					break
				}
			}
			o.Panics = append(o.Panics, fmt.Sprintf("LookupPath(%s?): %v at %s", l, r, site))
			out = "|new." + l + "=PANIC(" + site + ")"
		}
	}()
	// The constraint a new field l would get (optional fields and pattern constraints) is read with
	// an optional-selector lookup.  (Value.FillPath(l, _) would observe the same, but on the pinned
	// tree it can die with a fatal stack overflow in typocheck.go – see the C02 finding – and a fatal
	// error cannot be contained in-process.)
	fv := v.LookupPath(cue.MakePath(cue.Str(l).Optional()))
	if fv.Exists() && depth < 3 {
		return "|new." + l + "=" + o.obs(fv, depth+4)
	}
	return ""
}

// disjuncts returns the disjuncts of an evaluated, unresolved disjunction (nil otherwise).
func disjuncts(v cue.Value) []cue.Value {
	r, n := value.ToInternal(v)
	if n == nil {
		return nil
	}
	d, ok := n.DerefValue().BaseValue.(*adt.Disjunction)
	if !ok || d == nil {
		return nil
	}
	var out []cue.Value
	for _, x := range d.Values {
		out = append(out, value.Make(adt.NewContext(r, n), x))
	}
	return out
}
