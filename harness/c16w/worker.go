package c16w

// C16 worker: a child process that performs module-cache operations (and may
// be killed at a hook or by strace) or inspects a cache directory.

import (
	"bytes"
	"context"
	"crypto/sha256"
	"encoding/json"
	"errors"
	"fmt"
	"io"
	"io/fs"
	"net/http"
	"net/http/httptest"
	"os"
	"path/filepath"
	"runtime"
	"sort"
	"strings"
	"sync"
	"sync/atomic"
	"time"

	"cuelabs.dev/go/oci/ociregistry"
	"cuelabs.dev/go/oci/ociregistry/ociclient"
	"cuelabs.dev/go/oci/ociregistry/ocimem"
	"cuelabs.dev/go/oci/ociregistry/ociserver"
	"golang.org/x/sys/unix"

	"cuelang.org/go/mod/modcache"
	"cuelang.org/go/mod/modregistry"
	"cuelang.org/go/mod/module"
	"cuelang.org/go/mod/modzip"
)

type Op struct {
	Op  string `json:"op"` // fetch | fromcache | modfile
	Ver string `json:"ver"`
}

type Fault struct {
	Kind  string `json:"kind"`  // eof-mid | short-ok | err-mid | status500 | flip | delay | ""
	After int    `json:"after"` // bytes delivered before the fault
	Times int    `json:"times"` // how many matching requests are faulted (default 1)
	Blob  string `json:"blob"`  // zip | mod
}

type Spec struct {
	Cache      string     `json:"cache"`
	Mode       string     `json:"mode"` // run | inspect
	Versions   []string   `json:"versions"`
	Ops        [][]Op  `json:"ops"` // per goroutine
	SkewUS     []int      `json:"skew_us"`
	HTTP       bool       `json:"http"`
	Fault      Fault   `json:"fault"`
	LockThread bool       `json:"lock_thread"`
	Caches     int        `json:"caches"` // number of distinct Cache objects the goroutines share round-robin (0 = one per goroutine)
	RegJitter  int        `json:"reg_jitter_us"`
	Seed       int64      `json:"seed"`
	Extra      [][]string `json:"-"`
}

const c16modpath = "example.com/m@v0"

func c16files(ver string) []memFile {
	return []memFile{
		{"cue.mod/module.cue", []byte("module: \"" + c16modpath + "\"\nlanguage: version: \"v0.9.0\"\nsource: kind: \"self\"\n"), 0o644},
		{"a.cue", []byte("package m\na: \"" + ver + "\"\n"), 0o644},
		{"x/b.cue", []byte("package x\nb: 2\n"), 0o644},
		{"x/y/c.cue", []byte("package y\nc: 3\n" + strings.Repeat("// padding to make the archive span several reads\n", 40)), 0o644},
		{"LICENSE", []byte("license text " + ver + "\n"), 0o644},
		{"z/d.cue", []byte("package z\nd: 4\n"), 0o644},
	}
}

func c16want(ver string) string {
	var parts []string
	for _, f := range c16files(ver) {
		parts = append(parts, f.path+"="+string(f.data))
	}
	sort.Strings(parts)
	return strings.Join(parts, "|")
}

func c16zip(ver string) []byte {
	mv := module.MustNewVersion(c16modpath, ver)
	var buf bytes.Buffer
	if err := modzip.Create(&buf, mv, c16files(ver), memIO{}); err != nil {
		panic(err)
	}
	return buf.Bytes()
}

func c16readLoc(loc module.SourceLoc) string {
	var parts []string
	fs.WalkDir(loc.FS, loc.Dir, func(p string, d fs.DirEntry, err error) error {
		if err != nil {
			parts = append(parts, "ERR:"+p)
			return nil
		}
		if d.IsDir() {
			return nil
		}
		b, err := fs.ReadFile(loc.FS, p)
		if err != nil {
			parts = append(parts, "ERR:"+p)
			return nil
		}
		parts = append(parts, p+"="+string(b))
		return nil
	})
	sort.Strings(parts)
	return strings.Join(parts, "|")
}

func c16now() int64 {
	var ts unix.Timespec
	unix.ClockGettime(unix.CLOCK_MONOTONIC, &ts)
	return ts.Nano()
}

// countReg counts blob fetches per digest and adds jitter.
type c16countReg struct {
	ociregistry.Interface
	mu     sync.Mutex
	counts map[string]int
	jitter int
	seed   int64
	n      atomic.Int64
}

func (c *c16countReg) GetBlob(ctx context.Context, repo string, d ociregistry.Digest) (ociregistry.BlobReader, error) {
	c.mu.Lock()
	c.counts[string(d)]++
	c.mu.Unlock()
	if c.jitter > 0 {
		k := c.n.Add(1)
		h := sha256.Sum256([]byte(fmt.Sprint(c.seed, k)))
		time.Sleep(time.Duration(int(h[0])*c.jitter/255) * time.Microsecond)
	}
	return c.Interface.GetBlob(ctx, repo, d)
}

// faultTransport injects a fault into the body of matching blob responses.
type FaultTransport struct {
	base   http.RoundTripper
	fault  Fault
	match  map[string]bool // digests to fault
	mu     sync.Mutex
	done   int
	events []string
}

type FaultBody struct {
	rc    io.ReadCloser
	left  int
	kind  string
	fired bool
}

func (b *FaultBody) Read(p []byte) (int, error) {
	if b.left <= 0 {
		switch b.kind {
		case "eof-mid":
			return 0, io.ErrUnexpectedEOF // what net/http reports when the connection is lost before Content-Length bytes arrived
		case "short-ok":
			return 0, io.EOF
		case "err-mid":
			return 0, errors.New("injected: connection reset by peer")
		}
	}
	if b.kind == "flip" {
		n, err := b.rc.Read(p)
		if n > 0 && !b.fired {
			if b.left < n {
				p[b.left] ^= 0x40
				b.fired = true
			} else {
				b.left -= n
			}
		}
		return n, err
	}
	if len(p) > b.left {
		p = p[:b.left]
	}
	n, err := b.rc.Read(p)
	b.left -= n
	return n, err
}
func (b *FaultBody) Close() error { return b.rc.Close() }

func (t *FaultTransport) RoundTrip(req *http.Request) (*http.Response, error) {
	isBlob := false
	if req.Method == "GET" {
		for d := range t.match {
			if strings.Contains(req.URL.Path, "/blobs/"+d) {
				isBlob = true
			}
		}
	}
	t.mu.Lock()
	apply := isBlob && t.fault.Kind != "" && t.done < max(1, t.fault.Times)
	if apply {
		t.done++
		t.events = append(t.events, t.fault.Kind+" "+req.URL.Path)
	}
	t.mu.Unlock()
	if apply && t.fault.Kind == "status500" {
		return &http.Response{StatusCode: 500, Status: "500 Internal Server Error", Proto: "HTTP/1.1", ProtoMajor: 1, ProtoMinor: 1,
			Header: http.Header{"Content-Type": {"application/json"}}, Body: io.NopCloser(strings.NewReader(`{"errors":[{"code":"UNKNOWN","message":"injected"}]}`)), Request: req}, nil
	}
	if apply && t.fault.Kind == "delay" {
		time.Sleep(time.Duration(t.fault.After) * time.Millisecond)
	}
	resp, err := t.base.RoundTrip(req)
	if err != nil || !apply || resp.StatusCode != 200 {
		return resp, err
	}
	switch t.fault.Kind {
	case "eof-mid", "err-mid", "flip":
		resp.Body = &FaultBody{rc: resp.Body, left: t.fault.After, kind: t.fault.Kind}
	case "short-ok":
		// a consistent short response: Content-Length says what is delivered
		resp.Body = &FaultBody{rc: resp.Body, left: t.fault.After, kind: t.fault.Kind}
		resp.ContentLength = int64(t.fault.After)
		resp.Header.Set("Content-Length", fmt.Sprint(t.fault.After))
	}
	return resp, nil
}

func c16emit(w io.Writer, mu *sync.Mutex, v map[string]any) {
	b, _ := json.Marshal(v)
	mu.Lock()
	w.Write(append(b, '\n'))
	mu.Unlock()
}

// WorkerMain is the entry point of the worker process.
func WorkerMain(args []string) int {
	data, err := os.ReadFile(args[0])
	if err != nil {
		fmt.Fprintln(os.Stderr, err)
		return 3
	}
	var spec Spec
	if err := json.Unmarshal(data, &spec); err != nil {
		fmt.Fprintln(os.Stderr, err)
		return 3
	}
	if spec.LockThread {
		runtime.LockOSThread()
	}
	ctx := context.Background()
	out := os.Stdout
	var omu sync.Mutex

	// deterministic registry content
	mem := ocimem.New()
	pushClient := modregistry.NewClient(mem)
	zipDigest := map[string]string{} // digest -> version
	zips := map[string][]byte{}
	for _, v := range spec.Versions {
		mv := module.MustNewVersion(c16modpath, v)
		z := c16zip(v)
		zips[v] = z
		if err := pushClient.PutModule(ctx, mv, bytes.NewReader(z), int64(len(z))); err != nil {
			fmt.Fprintln(os.Stderr, "put:", err)
			return 3
		}
		zipDigest[fmt.Sprintf("sha256:%x", sha256.Sum256(z))] = v
	}
	modDigest := map[string]string{}
	for _, v := range spec.Versions {
		modDigest[fmt.Sprintf("sha256:%x", sha256.Sum256(c16files(v)[0].data))] = v
	}

	if spec.Mode == "inspect" {
		return c16inspect(spec, zips, out, &omu)
	}

	var reg ociregistry.Interface = mem
	var ft *FaultTransport
	if spec.HTTP {
		srv := httptest.NewServer(ociserver.New(mem, nil))
		defer srv.Close()
		match := map[string]bool{}
		src := zipDigest
		if spec.Fault.Blob == "mod" {
			src = modDigest
		}
		for d := range src {
			match[d] = true
		}
		ft = &FaultTransport{base: http.DefaultTransport, fault: spec.Fault, match: match}
		host := strings.TrimPrefix(srv.URL, "http://")
		reg, err = ociclient.New(host, &ociclient.Options{Insecure: true, Transport: ft})
		if err != nil {
			fmt.Fprintln(os.Stderr, err)
			return 3
		}
	}
	nG := len(spec.Ops)
	nCaches := spec.Caches
	if nCaches <= 0 || nCaches > nG {
		nCaches = nG
	}
	type cacheT struct {
		c   *modcache.Cache
		reg *c16countReg
	}
	caches := make([]cacheT, nCaches)
	for i := range caches {
		cr := &c16countReg{Interface: reg, counts: map[string]int{}, jitter: spec.RegJitter, seed: spec.Seed + int64(i)}
		c, err := modcache.New(modregistry.NewClient(cr), spec.Cache)
		if err != nil {
			fmt.Fprintln(os.Stderr, err)
			return 3
		}
		caches[i] = cacheT{c, cr}
	}
	fmt.Fprintln(os.Stderr, "MARK-START")
	var wg sync.WaitGroup
	pid := os.Getpid()
	for g := 0; g < nG; g++ {
		wg.Add(1)
		body := func(g int) {
			defer wg.Done()
			if g < len(spec.SkewUS) && spec.SkewUS[g] > 0 {
				time.Sleep(time.Duration(spec.SkewUS[g]) * time.Microsecond)
			}
			c := caches[g%nCaches].c
			for i, op := range spec.Ops[g] {
				mv := module.MustNewVersion(c16modpath, op.Ver)
				base := map[string]any{"pid": pid, "g": g, "i": i, "op": op.Op, "ver": op.Ver, "cache": g % nCaches}
				ev := map[string]any{"t": "call", "ts": c16now()}
				for k, v := range base {
					ev[k] = v
				}
				c16emit(out, &omu, ev) // the call event is on disk before the operation starts
				res := map[string]any{"t": "ret"}
				for k, v := range base {
					res[k] = v
				}
				switch op.Op {
				case "fetch":
					loc, err := c.Fetch(ctx, mv)
					if err != nil {
						res["err"] = err.Error()
					} else {
						res["found"] = true
						res["content_ok"] = c16readLoc(loc) == c16want(op.Ver)
					}
				case "fromcache":
					loc, err := c.FetchFromCache(mv)
					if err == nil {
						res["found"] = true
						res["content_ok"] = c16readLoc(loc) == c16want(op.Ver)
					} else if !errors.Is(err, modregistry.ErrNotFound) {
						res["err"] = err.Error()
					}
				case "modfile":
					mf, err := c.ModFile(ctx, mv)
					if err != nil {
						res["err"] = err.Error()
					} else {
						res["found"] = true
						res["content_ok"] = mf.QualifiedModule() == c16modpath
					}
				}
				res["ts"] = c16now()
				c16emit(out, &omu, res)
			}
		}
		if spec.LockThread && nG == 1 {
			body(g) // stay on the locked main thread: strace's when=N then counts this thread's syscalls
		} else {
			go body(g)
		}
	}
	wg.Wait()
	for i, ct := range caches {
		ct.reg.mu.Lock()
		for d, n := range ct.reg.counts {
			if v, ok := zipDigest[d]; ok {
				c16emit(out, &omu, map[string]any{"t": "getzip", "pid": pid, "cache": i, "ver": v, "n": n})
			}
		}
		ct.reg.mu.Unlock()
	}
	if ft != nil {
		ft.mu.Lock()
		c16emit(out, &omu, map[string]any{"t": "faults", "pid": pid, "fired": ft.events})
		ft.mu.Unlock()
	}
	c16emit(out, &omu, map[string]any{"t": "done", "pid": pid})
	return 0
}

// c16inspect reports the state of the cache directory for each version, using a fresh Cache.
func c16inspect(spec Spec, zips map[string][]byte, out io.Writer, omu *sync.Mutex) int {
	c, err := modcache.New(modregistry.NewClient(ocimem.New()), spec.Cache)
	if err != nil {
		fmt.Fprintln(os.Stderr, err)
		return 3
	}
	for _, v := range spec.Versions {
		mv := module.MustNewVersion(c16modpath, v)
		res := map[string]any{"t": "inspect", "ver": v}
		loc, err := c.FetchFromCache(mv)
		if err == nil {
			res["available"] = true
			res["content_ok"] = c16readLoc(loc) == c16want(v)
		} else {
			res["available"] = false
			if !errors.Is(err, modregistry.ErrNotFound) {
				res["err"] = err.Error()
			}
		}
		dl := filepath.Join(spec.Cache, "mod", "download", "example.com", "m", "@v")
		classify := func(name string, want []byte) string {
			b, err := os.ReadFile(filepath.Join(dl, name))
			if err != nil {
				return "absent"
			}
			if bytes.Equal(b, want) {
				return "ok"
			}
			return fmt.Sprintf("bad(%d of %d bytes)", len(b), len(want))
		}
		res["zip"] = classify(v+".zip", zips[v])
		res["mod"] = classify(v+".mod", c16files(v)[0].data)
		_, perr := os.Stat(filepath.Join(dl, v+".partial"))
		res["partial"] = perr == nil
		ents, _ := os.ReadDir(dl)
		var tmp []string
		for _, e := range ents {
			if strings.HasSuffix(e.Name(), ".tmp") {
				tmp = append(tmp, e.Name())
			}
		}
		res["tmp_files"] = tmp
		_, derr := os.Stat(filepath.Join(spec.Cache, "mod", "extract", "example.com", "m@"+v))
		res["extract_dir"] = derr == nil
		c16emit(out, omu, res)
	}
	return 0
}

type memFile struct {
	path string
	data []byte
	mode fs.FileMode
}
type memIO struct{}

func (memIO) Path(f memFile) string                 { return f.path }
func (memIO) Lstat(f memFile) (os.FileInfo, error)  { return memFI{f}, nil }
func (memIO) Open(f memFile) (io.ReadCloser, error) { return io.NopCloser(bytes.NewReader(f.data)), nil }

type memFI struct{ f memFile }

func (i memFI) Name() string       { return filepath.Base(i.f.path) }
func (i memFI) Size() int64        { return int64(len(i.f.data)) }
func (i memFI) Mode() fs.FileMode  { return i.f.mode }
func (i memFI) ModTime() time.Time { return time.Time{} }
func (i memFI) IsDir() bool        { return false }
func (i memFI) Sys() any           { return nil }
