// Command c16w is the light-weight C16 worker process (module-cache operations, inspection).
package main

import (
	"os"

	"cuelang.org/go/verifh/c16w"
)

func main() { os.Exit(c16w.WorkerMain(os.Args[1:])) }
