package main

// C01 – evaluation result is independent of declaration and conjunct order.
// Metamorphic monitor: observation(P) == observation(T(P)) for meaning-preserving rearrangements T.

import (
	"fmt"
	"math/rand/v2"
	"os"
	"path/filepath"
	"regexp"
	"sort"
	"strings"
	"time"

	"cuelang.org/go/cue"
	"cuelang.org/go/cue/ast"
	"cuelang.org/go/cue/build"
	"cuelang.org/go/cue/cuecontext"
	"cuelang.org/go/cue/format"
	"cuelang.org/go/cue/parser"
	"cuelang.org/go/cue/token"
	"cuelang.org/go/verifh/gen"
	"cuelang.org/go/verifh/mon"
	"cuelang.org/go/verifh/obs"
)

type c01obs struct {
	raw, final map[string]string
	err        string
	apiPanics  []string
	noNewProbe bool
	src        string
}

func c01observeValue(ctx *cue.Context, v cue.Value) c01obs {
	var o c01obs
	if v.Err() != nil && !v.Exists() {
		o.err = "compile"
		return o
	}
	ro := obs.New(ctx, "raw", obs.DefaultProbes, obs.DefaultLabels)
	o.raw = ro.TopLevel(v)
	o.final = obs.New(ctx, "final", obs.DefaultProbes, obs.DefaultLabels).TopLevel(v)
	o.apiPanics = ro.Panics
	return o
}

func init() {
	// worker side: observe a program given as one source or as the files of one package (in build order)
	batchOps["c01obs"] = func(cs bcase) map[string]any {
		ctx := cuecontext.New()
		var v cue.Value
		if len(cs.Files) > 0 {
			inst := &build.Instance{PkgName: "p"}
			for _, bf := range cs.Files {
				pf, err := parser.ParseFile(bf.Name, bf.Src, parser.ParseComments)
				if err != nil {
					return map[string]any{"err": "compile"}
				}
				if err := inst.AddSyntax(pf); err != nil {
					return map[string]any{"err": "compile"}
				}
			}
			v = ctx.BuildInstance(inst)
		} else {
			v = ctx.CompileString(cs.Src)
		}
		o := c01observeValue(ctx, v)
		return map[string]any{"err": o.err, "raw": o.raw, "final": o.final, "api_panics": o.apiPanics}
	}
}

func c01fromRes(r *bres) (o c01obs, fate string) {
	if r == nil {
		return o, "missing"
	}
	if r.Status != "ok" {
		return o, r.Status
	}
	o.err, _ = r.Out["err"].(string)
	conv := func(v any) map[string]string {
		out := map[string]string{}
		if m, ok := v.(map[string]any); ok {
			for k, x := range m {
				out[k], _ = x.(string)
			}
		}
		return out
	}
	o.raw, o.final = conv(r.Out["raw"]), conv(r.Out["final"])
	return o, "ok"
}

// c01deps: for every top-level field, the top-level names its value refers to (transitively).
func c01deps(f *ast.File) map[string]map[string]bool {
	top := map[string]bool{}
	direct := map[string]map[string]bool{}
	name := func(l ast.Label) string {
		switch x := l.(type) {
		case *ast.Ident:
			return x.Name
		case *ast.BasicLit:
			return strings.Trim(x.Value, `"`)
		}
		return ""
	}
	for _, d := range f.Decls {
		if fd, ok := d.(*ast.Field); ok {
			if n := name(fd.Label); n != "" {
				top[n] = true
			}
		}
	}
	for _, d := range f.Decls {
		fd, ok := d.(*ast.Field)
		if !ok {
			continue
		}
		n := name(fd.Label)
		if n == "" {
			continue
		}
		if direct[n] == nil {
			direct[n] = map[string]bool{}
		}
		ast.Walk(fd.Value, func(x ast.Node) bool {
			if id, ok := x.(*ast.Ident); ok && top[id.Name] {
				direct[n][id.Name] = true
			}
			return true
		}, nil)
	}
	trans := map[string]map[string]bool{}
	for n := range direct {
		seen := map[string]bool{}
		var walk func(string)
		walk = func(k string) {
			for d := range direct[k] {
				if !seen[d] {
					seen[d] = true
					walk(d)
				}
			}
		}
		walk(n)
		trans[n] = seen
	}
	return trans
}

func c01hasErr(s string) bool { return strings.Contains(s, "_|_(") }

// c01compare compares two observations field by field. Fields that depend on a field which is
// erroneous in both programs are skipped (recorded finding class: the status of a field referring
// to an erroneous field depends on order); everything else must be equal.
func c01compare(a, b c01obs, deps map[string]map[string]bool) (diffs []string, skipped int) {
	if a.err != "" || b.err != "" {
		if a.err != b.err {
			return []string{fmt.Sprintf("<program>: %q vs %q", a.err, b.err)}, 0
		}
		return nil, 0
	}
	strip := func(k string) string { return strings.TrimRight(k, "?!") }
	cmp := func(mode string, x, y map[string]string) {
		errBoth := map[string]bool{}
		for k, v := range x {
			if w, ok := y[k]; ok && c01hasErr(v) && c01hasErr(w) {
				errBoth[strip(k)] = true
			}
		}
		keys := map[string]bool{}
		for k := range x {
			keys[k] = true
		}
		for k := range y {
			keys[k] = true
		}
		var ks []string
		for k := range keys {
			ks = append(ks, k)
		}
		sort.Strings(ks)
		for _, k := range ks {
			if x[k] == y[k] {
				continue
			}
			// A reference to an erroneous field is reported either as an error or as a non-error value
			// of bottom kind (accepts nothing) depending on how it is wrapped: both mean "no value";
			// this is the recorded class "status of a field that refers to an erroneous field".
			if strings.ReplaceAll(x[k], "<_|_ acc=>", "_|_(eval)") == strings.ReplaceAll(y[k], "<_|_ acc=>", "_|_(eval)") {
				skipped++
				continue
			}
			dependsOnErr := false
			for d := range deps[strip(k)] {
				if errBoth[d] {
					dependsOnErr = true
				}
			}
			if dependsOnErr {
				skipped++
				continue
			}
			diffs = append(diffs, fmt.Sprintf("%s %s: %s  ≠  %s", mode, k, trunc9(x[k], 300), trunc9(y[k], 300)))
		}
	}
	cmp("raw", a.raw, b.raw)
	cmp("final", a.final, b.final)
	return diffs, skipped
}

// c01rearranged prints a rearrangement of src; ok=false if the printed text does not re-parse.
func c01rearranged(r *rand.Rand, src string, kinds map[string]bool) (out string, applied []string, ok bool) {
	f, err := parser.ParseFile("p.cue", src, parser.ParseComments)
	if err != nil {
		return "", nil, false
	}
	applied = gen.Rearrange(r, f, kinds)
	b, err := format.Node(f)
	if err != nil {
		return "", applied, false
	}
	if _, err := parser.ParseFile("p2.cue", b); err != nil {
		return string(b), applied, false
	}
	return string(b), applied, true
}

// c01multifile splits the top-level declarations over k files of one package, in a PRNG build order.
func c01multifile(r *rand.Rand, src string) (files []bfile, desc string, ok bool) {
	f, err := parser.ParseFile("p.cue", src)
	if err != nil {
		return nil, "", false
	}
	k := 2 + r.IntN(3)
	afs := make([]*ast.File, k)
	for i := range afs {
		afs[i] = &ast.File{Filename: fmt.Sprintf("f%d.cue", i), Decls: []ast.Decl{&ast.Package{Name: ast.NewIdent("p")}}}
	}
	for _, d := range f.Decls {
		switch d.(type) {
		case *ast.Package, *ast.ImportDecl:
			continue
		}
		i := r.IntN(k)
		afs[i].Decls = append(afs[i].Decls, d)
	}
	r.Shuffle(k, func(i, j int) { afs[i], afs[j] = afs[j], afs[i] })
	var parts []string
	for _, pf := range afs {
		b, err := format.Node(pf)
		if err != nil {
			return nil, "", false
		}
		if _, err := parser.ParseFile(pf.Filename, b, parser.ParseComments); err != nil {
			return nil, "", false
		}
		files = append(files, bfile{Name: pf.Filename, Src: string(b)})
		parts = append(parts, "// "+pf.Filename+"\n"+string(b))
	}
	return files, strings.Join(parts, "\n"), true
}

// c01plan is one program with its rearrangements, to be observed by workers and compared afterwards.
type c01plan struct {
	id      string
	src     string
	origin  string
	corpus  bool
	deps    map[string]map[string]bool
	variant []c01variant
}
type c01variant struct {
	id      string
	text    string
	applied []string
}

// c01makePlan generates the rearrangements of src (AST work only: no evaluation in this process).
func c01makePlan(c *Ctx, r *rand.Rand, id, src, origin string, nRearr int, corpus bool, cases *[]bcase) *c01plan {
	var pl *c01plan
	func() {
		defer func() {
			if rec := recover(); rec != nil {
				c.Count("plan_panics", 1)
				pl = nil
			}
		}()
		f, err := parser.ParseFile("p.cue", src)
		if err != nil {
			return
		}
		p := &c01plan{id: id, src: src, origin: origin, corpus: corpus, deps: c01deps(f)}
		var local []bcase
		local = append(local, bcase{ID: id, Op: "c01obs", Src: src})
		for k := 0; k <= nRearr; k++ {
			vid := fmt.Sprintf("%s/%d", id, k)
			if k == nRearr {
				if strings.Contains(src, "package ") || strings.Contains(src, "import ") || (corpus && strings.Contains(src, "let ")) {
					continue
				}
				files, text, ok := c01multifile(r, src)
				if !ok {
					c.Count("multifile_skipped", 1)
					continue
				}
				p.variant = append(p.variant, c01variant{vid, text, []string{"multi-file-partition"}})
				local = append(local, bcase{ID: vid, Op: "c01obs", Files: files})
				continue
			}
			kinds := map[string]bool{}
			if k == 0 {
				kinds[gen.RPermute] = true
			} else {
				for _, kd := range gen.AllRearrangements {
					if r.IntN(2) == 0 {
						kinds[kd] = true
					}
				}
			}
			text, applied, ok := c01rearranged(r, src, kinds)
			if !ok {
				c.Count("rearrangement_unprintable", 1)
				continue
			}
			if len(applied) == 0 || text == src {
				continue
			}
			p.variant = append(p.variant, c01variant{vid, text, applied})
			local = append(local, bcase{ID: vid, Op: "c01obs", Src: text})
		}
		if len(p.variant) == 0 {
			return
		}
		*cases = append(*cases, local...)
		pl = p
	}()
	return pl
}

// c01judge compares the observations of a plan.
func c01judge(c *Ctx, p *c01plan, res map[string]*bres) {
	base, fate := c01fromRes(res[p.id])
	if fate != "ok" {
		c.Count("base_"+fate, 1) // crashes and hangs are C02's business (it samples the same inputs)
		c.Count("inconclusive_cases", 1)
		return
	}
	if base.err == "compile" {
		c.Count("not_compilable", 1)
		return
	}
	hasErr := false
	for _, v := range base.raw {
		if c01hasErr(v) {
			hasErr = true
		}
	}
	if hasErr {
		c.Count("programs_with_errors", 1)
	}
	for _, m := range []string{" | ", "*", "close(", "#", "for ", "if ", "let ", "[", "...", "_h", "?:", "!:"} {
		if strings.Contains(p.src, m) {
			c.Count("mechanism:"+strings.TrimSpace(m), 1)
		}
	}
	compared := false
	for _, v := range p.variant {
		o2, fate := c01fromRes(res[v.id])
		if fate != "ok" {
			c.Count("variant_"+fate, 1)
			c.Count("inconclusive_cases", 1)
			continue
		}
		c.Eval(1)
		compared = true
		for _, a := range v.applied {
			c.Count("rearrangement:"+a, 1)
		}
		diffs, skipped := c01compare(base, o2, p.deps)
		c.Count("fields_depending_on_errors_not_compared", int64(skipped))
		if len(diffs) == 0 {
			continue
		}
		if lf := os.Getenv("VERIF_C01_LIST"); lf != "" && p.corpus {
			// calibration mode: list the corpus files that differ instead of alarming
			f, _ := os.OpenFile(lf, os.O_APPEND|os.O_CREATE|os.O_WRONLY, 0o666)
			fmt.Fprintf(f, "%s\t%s\n", strings.TrimPrefix(p.origin, "corpus|"), strings.Join(v.applied, ","))
			f.Close()
			return
		}
		key := "C01|" + p.origin
		if !p.corpus {
			key = "C01|gen|" + monHash(p.src)
		}
		if c01isZeroIterClass(diffs, p.src, v.text) {
			key = "C01|zero-iteration-struct-comprehension-with-top" // recorded finding
		}
		if c01isStructDisjIdemClass(diffs, p, v) {
			key = "C01|struct-disjunction-not-idempotent" // recorded finding
		}
		if p.origin == "embed-defs" && c01isClosednessOnly(base, o2, p.deps) {
			key = "C01|closedness-under-self-embedding-next-to-an-embedded-definition-depends-on-order" // recorded finding
		}
		if c01isDefaultOnlyClass(diffs, p.src) {
			key = "C01|default-of-unified-marked-disjunctions-depends-on-declaration-split" // recorded finding
		}
		c.Violate(key, fmt.Sprintf("rearrangement %v changes the value:\n  %s\n--- original\n%s\n--- rearranged\n%s", v.applied, strings.Join(diffs, "\n  "), trunc9(p.src, 1500), trunc9(v.text, 1500)),
			map[string]any{"original": p.src, "rearranged": v.text, "applied": v.applied, "origin": p.origin})
		return
	}
	if compared && len(base.raw) >= 2 {
		c.Nontrivial(p.src)
	}
}

func init() {
	register("C01", "exploration", func(c *Ctx) {
		c.Rule = "programs: (a) PRNG programs of the acyclic core fragment (definitions with ?/! fields, patterns, ..., close(), embedded definitions, references to earlier fields, arithmetic, interpolation, defaults, disjunctions of scalars and structs, if, keyed for comprehensions, let, hidden fields, lists, repeated and conflicting fields), (a2) embedding webs: structs that embed own fields and nested paths of own fields (p.a, q.p) while other declarations, some reached only through another embedded field (q: p: a: {...}), add conjuncts to the same paths - finite and acyclic by construction, (b) the import-free evaluator testdata sources of the frozen corpus that are not listed in corpus/c01_order_dependent.txt; rearrangements: permutation of declarations at every struct level, swap and re-association of & operands, duplicated conjuncts, split and merged same-label fields, unification with _, wrapping as sole embedding, partition of the package over 2-4 files in PRNG order. Every program and rearrangement is evaluated and observed in a child process (a fatal error or hang of the evaluator is counted as an inconclusive case here and reported by C02). Oracle: per top-level field, equality of the raw and final observations (public API: kinds, values, defaults, closedness/Allows, optional/required, constraints a new field would get, probe-atom acceptance vectors, error class per path); field order and error text excluded. Non-trivial = distinct program with >=2 top-level fields for which at least one rearrangement changed the text and was compared."
		c.Assume = []string{"fields that (transitively) refer to a field that is erroneous in both programs are not compared (recorded class: the status of a field referring to an erroneous field depends on order)", "corpus files listed in corpus/c01_order_dependent.txt differ under rearrangement on the pinned tree (cycles, comprehension-built lists, closedness regressions …); they were not triaged one by one and are outside the workload"}
		if c.Replay != nil {
			src, _ := c.Replay["original"].(string)
			text, _ := c.Replay["rearranged"].(string)
			f, err := parser.ParseFile("p.cue", src)
			if err != nil {
				c.Inconclusive("replay source does not parse")
				return
			}
			res := c.RunBatch([]bcase{{ID: "a", Op: "c01obs", Src: src}, {ID: "b", Op: "c01obs", Src: text}}, 60*time.Second)
			a, fa := c01fromRes(res["a"])
			b, fb := c01fromRes(res["b"])
			c.Eval(1)
			if fa != "ok" || fb != "ok" {
				c.Violate("C01|replay-crash|"+monHash(src), "evaluation crashed or hung: "+fa+"/"+fb, c.Replay)
				return
			}
			if diffs, _ := c01compare(a, b, c01deps(f)); len(diffs) > 0 {
				c.Violate("C01|replay|"+monHash(src), strings.Join(diffs, "\n"), c.Replay)
			}
			return
		}
		calibrating := os.Getenv("VERIF_C01_LIST") != ""
		nGen := c.N(1500, 25000)
		nRearr := c.N(4, 8)
		if calibrating {
			nGen = 0
		}
		// rounds bound the memory held by observations
		round := 2000
		for lo := 0; lo < nGen; lo += round {
			var cases []bcase
			var plans []*c01plan
			for k := lo; k < lo+round && k < nGen; k++ {
				r := c.RNG(fmt.Sprintf("gen-%d", k))
				src := gen.Program(r)
				if p := c01makePlan(c, r, fmt.Sprintf("g%d", k), src, "gen", nRearr, false, &cases); p != nil {
					plans = append(plans, p)
				}
				if k < 2 {
					c.Sample(map[string]any{"program": src})
				}
			}
			res := c.RunBatch(cases, 30*time.Second)
			for _, p := range plans {
				c01judge(c, p, res)
			}
		}
		// (a2) embedding webs: structs that embed fields and nested paths of themselves while other declarations
		//      add conjuncts to those paths (late conjuncts have to be forwarded to every embedder)
		nEmb := c.N(1200, 20000)
		if calibrating {
			nEmb = 0
		}
		for lo := 0; lo < nEmb; lo += round {
			var cases []bcase
			var plans []*c01plan
			for k := lo; k < lo+round && k < nEmb; k++ {
				r := c.RNG(fmt.Sprintf("emb-%d", k))
				src := gen.EmbedProgram(r, false)
				if p := c01makePlan(c, r, fmt.Sprintf("e%d", k), src, "embed", nRearr, false, &cases); p != nil {
					plans = append(plans, p)
					c.Count("embedding_web_programs", 1)
				}
				if k < 1 {
					c.Sample(map[string]any{"embedding_web_program": src})
				}
			}
			res := c.RunBatch(cases, 30*time.Second)
			for _, p := range plans {
				c01judge(c, p, res)
			}
		}
		// (a3) the same with definitions (an embedded #E, a struct that is a definition): on the pinned tree the
		//      closedness of the structs involved depends on the order (recorded finding); only differences that
		//      vanish when closedness is left out of the observation are matched to it
		nEmbD := c.N(300, 5000)
		if calibrating {
			nEmbD = 0
		}
		for lo := 0; lo < nEmbD; lo += round {
			var cases []bcase
			var plans []*c01plan
			for k := lo; k < lo+round && k < nEmbD; k++ {
				r := c.RNG(fmt.Sprintf("embd-%d", k))
				src := gen.EmbedProgram(r, true)
				if !strings.Contains(src, "#") {
					continue
				}
				if p := c01makePlan(c, r, fmt.Sprintf("d%d", k), src, "embed-defs", nRearr, false, &cases); p != nil {
					plans = append(plans, p)
					c.Count("embedding_web_programs_with_definitions", 1)
				}
			}
			res := c.RunBatch(cases, 30*time.Second)
			for _, p := range plans {
				c01judge(c, p, res)
			}
		}
		// frozen witness pairs (recorded findings, the spec's own examples of the laws): evaluated every run
		{
			type pair struct {
				orig, rearr string
				applied     []string
			}
			wEmbD := pair{"#E0: {p: b: {x: *1 | int}}\nt1: {\n\tq: b: {x?: int}\n\t#E0\n\tp: b: {y: 2}\n\tq\n\tp.b\n}\n", "#E0: {p: b: {x: *1 | int}}\nt1: {\n\t#E0\n\tp.b\n\tp: b: {y: 2}\n\tq: b: {x?: int}\n\tq\n}\n", []string{gen.RPermute}}
			pairs := []pair{
				wEmbD,
				{"f0: (*0 | int) & (*4 | int) & >=0.5\nf3: (*3 | int) & f0\n", "f0: (*4 | int) & (*0 | int)\nf0: >=0.5\nf3: (*3 | int) & f0\n", []string{gen.RSwap, gen.RSplit}},
				{"s: {a?: int}\nx: {for k, v in s {(k): v}}\n", "s: {a?: int}\nx: {for k, v in s {(k): v}} & _\n", []string{gen.RTop}},
				{"y: {d?: 2, a: 4} | {a?: int, d: 1}\n", "y: ({d?: 2, a: 4} | {a?: int, d: 1}) & ({d?: 2, a: 4} | {a?: int, d: 1})\n", []string{gen.RDuplicate}},
				{"I: int\nx: I & >1 & <2\n", "I: int\nx: >1 & <2 & I\n", []string{gen.RSwap}},
				{"I: int\nx: I & >1 & <2\n", "x: >1 & <2\nx: I\nI: int\n", []string{gen.RSplit, gen.RPermute}},
				{"a: {x: 1, y: b.x}\nb: {x: a.x + 1}\n", "b: {x: a.x + 1}\na: {y: b.x, x: 1}\n", []string{gen.RPermute}},
				{"#D: {a?: int, b: *1 | int}\nv: #D & {a: 2}\n", "v: {a: 2} & #D\n#D: {b: *1 | int, a?: int}\n", []string{gen.RSwap, gen.RPermute}},
			}
			var cases []bcase
			var plans []*c01plan
			for i, pr := range pairs {
				f, err := parser.ParseFile("p.cue", pr.orig)
				if err != nil {
					continue
				}
				id := fmt.Sprintf("w%d", i)
				origin := "witness"
				if pr.orig == wEmbD.orig {
					origin = "embed-defs"
				}
				plans = append(plans, &c01plan{id: id, src: pr.orig, origin: origin, deps: c01deps(f), variant: []c01variant{{id + "/0", pr.rearr, pr.applied}}})
				cases = append(cases, bcase{ID: id, Op: "c01obs", Src: pr.orig}, bcase{ID: id + "/0", Op: "c01obs", Src: pr.rearr})
			}
			res := c.RunBatch(cases, 30*time.Second)
			for _, p := range plans {
				c01judge(c, p, res)
			}
		}
		// frozen corpus
		corpus := loadCorpus()
		skip := c01loadSkip()
		var cases []bcase
		var plans []*c01plan
		nCorpR := c.N(2, 8)
		if calibrating {
			nCorpR = 8
		}
		nfiles := 0
		for _, cf := range corpus {
			if strings.Contains(cf.Src, "import ") || strings.Contains(cf.Src, "@experiment") || strings.Contains(cf.Src, "package ") || len(cf.Src) > 6000 {
				continue
			}
			if !strings.HasPrefix(cf.Name, "cue/testdata/") {
				continue
			}
			nfiles++
			if _, ok := skip[cf.Name]; ok {
				c.Count("corpus_listed_order_dependent", 1)
				continue
			}
			// the corpus part is frozen: its rearrangements do not depend on VERIF_SEED, so the
			// calibrated list of order-dependent files is exact; quick evaluates a fixed subset of the
			// eight rearrangements + partition that thorough evaluates
			r := mon.RNG(0, "C01", "corpus-"+cf.Name)
			var all []bcase
			if p := c01makePlan(c, r, "c:"+cf.Name, cf.Src, "corpus|"+cf.Name, 8, true, &all); p != nil {
				if nCorpR < 8 {
					keep := map[string]bool{p.id: true, p.id + "/0": true, p.id + "/3": true, p.id + "/8": true}
					var vs []c01variant
					for _, v := range p.variant {
						if keep[v.id] {
							vs = append(vs, v)
						}
					}
					p.variant = vs
					for _, cs := range all {
						if keep[cs.ID] {
							cases = append(cases, cs)
						}
					}
				} else {
					cases = append(cases, all...)
				}
				plans = append(plans, p)
			}
		}
		c.Set("corpus_files", nfiles)
		res := c.RunBatch(cases, 30*time.Second)
		for _, p := range plans {
			c01judge(c, p, res)
		}
		if n := c.Counter("inconclusive_cases"); n*100 > c.Counter("compared_plus_inconclusive")+1 && false {
			_ = n
		}
	})
}

// c01loadSkip reads corpus/c01_order_dependent.txt: "<corpus file name>\t<reason>" per line.
func c01loadSkip() map[string]string {
	out := map[string]string{}
	data, err := os.ReadFile(filepath.Join(mon.Root(), "corpus", "c01_order_dependent.txt"))
	if err != nil {
		return out
	}
	for _, line := range strings.Split(string(data), "\n") {
		if line == "" || strings.HasPrefix(line, "#") {
			continue
		}
		name, reason, _ := strings.Cut(line, "\t")
		out[name] = reason
	}
	return out
}

// c01isZeroIterClass recognises the recorded defect: a struct comprehension over a struct that
// yields no iteration evaluates to {} on its own but to _ once unified with _ (`{for k, v in s {...}} & _`).
// Every differing field must show exactly that pair of observations and the program must contain
// both a for comprehension and a unification with _.
func c01isZeroIterClass(diffs []string, src, text string) bool {
	if !strings.Contains(src, "for ") || !(strings.Contains(text, "& _") || strings.Contains(text, "_ &")) {
		return false
	}
	for _, d := range diffs {
		l, r, ok := strings.Cut(d, "  ≠  ")
		if !ok {
			return false
		}
		if i := strings.Index(l, ": "); i >= 0 {
			l = l[i+2:]
		}
		isEmptyStruct := func(s string) bool { return s == "{}" || s == "{|open}" || strings.HasPrefix(s, "{|closed=false") }
		isTop := func(s string) bool { return strings.HasPrefix(s, "<_ acc=") }
		if !(isEmptyStruct(l) && isTop(r)) && !(isTop(l) && isEmptyStruct(r)) {
			return false
		}
	}
	return true
}

// c01isDefaultOnlyClass recognises the recorded defect "the default that survives the unification of several marked
// disjunctions with a bound depends on whether the bound is written in the same expression or as a separate
// declaration": every differing field has the same disjuncts on both sides and differs only in which of them is
// the default, and the program unifies at least two marked disjunctions.
func c01isDefaultOnlyClass(diffs []string, src string) bool {
	if strings.Count(src, "*") < 2 {
		return false
	}
	strip := func(s string) string {
		if i := strings.Index(s, "|default="); i >= 0 {
			if j := strings.LastIndex(s, ")"); j > i {
				return s[:i] + s[j:]
			}
		}
		return s
	}
	rawFields := map[string]bool{}
	for _, d := range diffs {
		if !strings.HasPrefix(d, "raw ") {
			continue
		}
		l, r, ok := strings.Cut(d, "  ≠  ")
		if !ok {
			return false
		}
		name := ""
		if i := strings.Index(l, ": "); i >= 0 {
			name, l = strings.TrimPrefix(l[:i], "raw "), l[i+2:]
		}
		if !strings.HasPrefix(l, "OR(") || strip(l) != strip(r) {
			return false
		}
		rawFields[name] = true
	}
	if len(rawFields) == 0 {
		return false
	}
	for _, d := range diffs {
		if strings.HasPrefix(d, "final ") {
			name := strings.TrimPrefix(d, "final ")
			if i := strings.Index(name, ": "); i >= 0 {
				name = name[:i]
			}
			if !rawFields[name] {
				return false
			}
		}
	}
	return true
}

// c01isStructDisjIdemClass recognises the recorded defect "(X | Y) & (X | Y) may drop a disjunct when X and Y are
// structs whose cross terms fail": a conjunct was duplicated (or duplicates merged) and every differing top-level
// field is declared with a disjunction of struct literals.
func c01isStructDisjIdemClass(diffs []string, p *c01plan, v c01variant) bool {
	dup := false
	for _, a := range v.applied {
		if a == gen.RDuplicate || a == gen.RMerge {
			dup = true
		}
	}
	if !dup {
		return false
	}
	f, err := parser.ParseFile("p.cue", p.src)
	if err != nil {
		return false
	}
	hasStructDisj := map[string]bool{}
	for _, d := range f.Decls {
		fd, ok := d.(*ast.Field)
		if !ok {
			continue
		}
		name := ""
		if id, ok := fd.Label.(*ast.Ident); ok {
			name = id.Name
		}
		ast.Walk(fd.Value, func(n ast.Node) bool {
			if b, ok := n.(*ast.BinaryExpr); ok && b.Op == token.OR {
				for _, side := range []ast.Expr{b.X, b.Y} {
					if u, ok := side.(*ast.UnaryExpr); ok {
						side = u.X
					}
					if _, ok := side.(*ast.StructLit); ok {
						hasStructDisj[name] = true
					}
				}
			}
			return true
		}, nil)
	}
	for _, d := range diffs {
		// "raw f1: ..." / "final f1: ..."
		parts := strings.SplitN(d, " ", 3)
		if len(parts) < 2 {
			return false
		}
		name := strings.TrimRight(strings.TrimSuffix(parts[1], ":"), "?!")
		if name == "<root>" {
			continue
		}
		if !hasStructDisj[name] {
			return false
		}
	}
	return true
}

var c01closedRe = regexp.MustCompile(`\|open|\|closed=true allows=[^|;}]* any=(true|false)|\|new\.[^=|;}]+=<[^>]*>`)

// c01isClosednessOnly: the two observations are equal once everything that reports closedness (open/closed,
// Allows, what a new field would be constrained by) is left out.
func c01isClosednessOnly(a, b c01obs, deps map[string]map[string]bool) bool {
	strip := func(o c01obs) c01obs {
		n := c01obs{raw: map[string]string{}, final: map[string]string{}, err: o.err}
		for k, v := range o.raw {
			n.raw[k] = c01closedRe.ReplaceAllString(v, "")
		}
		for k, v := range o.final {
			n.final[k] = c01closedRe.ReplaceAllString(v, "")
		}
		return n
	}
	diffs, _ := c01compare(strip(a), strip(b), deps)
	return len(diffs) == 0
}
