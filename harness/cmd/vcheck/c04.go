package main

// C04 – disjunctions and defaults follow the value/default-pair rules of the spec.

import (
	"fmt"
	"os"
	"path/filepath"
	"strings"

	"cuelang.org/go/cue"
	"cuelang.org/go/cue/cuecontext"
	"cuelang.org/go/verifh/mon"
)

type c4result struct {
	class  string
	detail string
}

var c4probeLeaves = []int{0, 1, 2, 3, 7, 8, 9, 10} // 1 2 3 "a" {a:1} {b:2} {a:1,b:2} {a:2}

// c4check compares evaluator and model on one expression; it returns the mismatches.
func c4check(ctx *cue.Context, e *c4expr, variant bool) (out []c4result, stats map[string]bool) {
	stats = map[string]bool{}
	src := e.String()
	p := c4evalV(e, variant)
	var sb strings.Builder
	fmt.Fprintf(&sb, "x: %s\n", src)
	for i, li := range c4probeLeaves {
		fmt.Fprintf(&sb, "p%d: %s & %s\n", i, src, c4leafSrcs[li].src)
	}
	root := ctx.CompileString(sb.String())
	v := root.LookupPath(cue.ParsePath("x"))
	if len(p.v) == 0 {
		stats["bottom"] = true
		if v.Err() == nil {
			out = append(out, c4result{"model-bottom-impl-ok", fmt.Sprint(v)})
		}
		return out, stats
	}
	if v.Err() != nil {
		out = append(out, c4result{"impl-bottom-model-ok", v.Err().Error()})
		return out, stats
	}
	D := p.d
	if len(D) == 0 {
		D = p.v
		stats["nodefault"] = true
	} else {
		stats["hasdefault"] = true
	}
	wantConcrete := len(D) == 1 && D[0].concrete()
	gotConcrete := v.Validate(cue.Concrete(true)) == nil
	switch {
	case wantConcrete != gotConcrete:
		out = append(out, c4result{fmt.Sprintf("concrete model=%v impl=%v", wantConcrete, gotConcrete), fmt.Sprintf("model default set=%v value set=%v; evaluator: %v", c4keys(D), c4keys(p.v), v)})
	case wantConcrete:
		stats["unique"] = true
		d, _ := v.Default()
		got := c4valueKey(d)
		if want := D[0].key(); got != want {
			out = append(out, c4result{"default-value", fmt.Sprintf("model resolves to %s, evaluator to %s", want, got)})
		}
		if b, err := v.MarshalJSON(); err != nil {
			out = append(out, c4result{"default-value", "MarshalJSON fails although the default is unique: " + err.Error()})
		} else {
			_ = b
		}
	default:
		stats["ambiguous"] = true
		// ambiguity must be an incomplete error, never a silently chosen value
		if _, err := v.MarshalJSON(); err == nil {
			out = append(out, c4result{"ambiguous-but-exported", fmt.Sprintf("model: ambiguous %v; evaluator exports %v", c4keys(D), v)})
		}
	}
	for i, li := range c4probeLeaves {
		pl := c4leafSrcs[li]
		want := false
		for _, l := range p.v {
			if _, ok := c4unify(l, pl.l); ok {
				want = true
			}
		}
		pv := root.LookupPath(cue.MakePath(cue.Str(fmt.Sprintf("p%d", i))))
		got := pv.Err() == nil
		if want != got {
			out = append(out, c4result{fmt.Sprintf("accepts %s: model=%v impl=%v", pl.src, want, got), ""})
		}
	}
	if len(p.v) > 1 {
		stats["crossproduct"] = true
	}
	return out, stats
}

func c4keys(s c4set) []string {
	var out []string
	for _, l := range s {
		out = append(out, l.key())
	}
	return out
}

// c4valueKey renders a concrete evaluator value in the model's key syntax.
func c4valueKey(v cue.Value) string {
	switch v.Kind() {
	case cue.StructKind:
		m := map[string]string{}
		it, _ := v.Fields()
		for it != nil && it.Next() {
			m[it.Selector().Unquoted()] = fmt.Sprint(it.Value())
		}
		return c4leaf{st: m, isStruct: true}.key()
	case cue.IntKind:
		return c4leaf{atom: fmt.Sprint(v)}.key()
	case cue.StringKind:
		s, _ := v.String()
		return c4leaf{atom: fmt.Sprintf("%q", s)}.key()
	}
	return fmt.Sprint(v)
}

// c4enumerate lists all expressions of the given depth/width over the leaves (marks not nested).
func c4enumerate(depth, width int, leaves []int, insideMarked bool) []*c4expr {
	var out []*c4expr
	for _, li := range leaves {
		l := c4leafSrcs[li]
		out = append(out, &c4expr{op: "leaf", c4leaf: l.l, src: l.src})
	}
	if depth == 0 {
		return out
	}
	sub := c4enumerate(depth-1, width, leaves, insideMarked)
	subNoMarks := c4enumerate(depth-1, width, leaves, true)
	// conjunctions
	for _, a := range sub {
		for _, b := range sub {
			out = append(out, &c4expr{op: "&", args: []*c4expr{a, b}})
		}
	}
	// disjunctions of width 2..width with every mark assignment
	var rec func(args []*c4expr, marks []bool, n int)
	rec = func(args []*c4expr, marks []bool, n int) {
		if len(args) == n {
			any := false
			for _, m := range marks {
				any = any || m
			}
			if any && insideMarked {
				return
			}
			out = append(out, &c4expr{op: "|", args: append([]*c4expr{}, args...), marks: append([]bool{}, marks...)})
			return
		}
		for _, m := range []bool{false, true} {
			pool := sub
			if m || insideMarked {
				pool = subNoMarks
			}
			for _, a := range pool {
				rec(append(args, a), append(marks, m), n)
			}
		}
	}
	for n := 2; n <= width; n++ {
		rec(nil, nil, n)
	}
	return out
}

func c4hasMarkInside(e *c4expr) bool {
	if e.op == "|" {
		for _, m := range e.marks {
			if m {
				return true
			}
		}
	}
	for _, a := range e.args {
		if c4hasMarkInside(a) {
			return true
		}
	}
	return false
}

// c4wellFormed: a marked term of a disjunction must not contain marks itself (statement: marks not nested inside
// other marked disjunctions).
func c4wellFormed(e *c4expr) bool {
	if e.op == "|" {
		for i, a := range e.args {
			if e.marks[i] && c4hasMarkInside(a) {
				return false
			}
		}
	}
	for _, a := range e.args {
		if !c4wellFormed(a) {
			return false
		}
	}
	return true
}

func c4loadKnown() map[string]bool {
	out := map[string]bool{}
	data, err := os.ReadFile(filepath.Join(mon.Root(), "corpus", "c04_known_mismatches.txt"))
	if err != nil {
		return out
	}
	for _, line := range strings.Split(string(data), "\n") {
		if line == "" || strings.HasPrefix(line, "#") {
			continue
		}
		e, _, _ := strings.Cut(line, "\t")
		out[e] = true
	}
	return out
}

func init() {
	register("C04", "exploration", func(c *Ctx) {
		c.Rule = "expressions over the leaves {1, 2, 3, \"a\", int, string, >=2, {a:1}, {b:2}, {a:1,b:2}, {a:2}} built with n-ary | (unary * on top-level disjuncts only, never inside a marked disjunct), binary & and parentheses; exhaustive enumeration of a small leaf set to depth 2 / width 2 (quick) and of the full leaf set to depth 2 width 2 plus depth 2 width 3 of the small set (thorough), PRNG expressions of depth 3 beyond; per expression the evaluator is compared with an executable model of the spec rules M0/M1, D0-D2, U0-U2 on: bottom-ness, acceptance of each probe atom/struct by E & p, concreteness (unique default vs ambiguity: ambiguity must not export), and the resolved default value. Struct family: {base, D1, D2[, D3]} (embedded or as & of parenthesised disjunctions) over fields b, c, s whose terms differ in constraints that are still pending when the disjunction is distributed (b: c, b: c + 1, bounds, regular expressions next to a concrete scalar): the evaluator is compared with the union of the combinations, each evaluated without a disjunction (bottom-ness, acceptance of every {b: i, c: j} and string atom, unique default / ambiguity / non-concreteness). Non-trivial = distinct expression with a cross product (value set > 1)."
		c.Assume = []string{"model = literal implementation of the rewrite rules in doc/ref/spec.md §Default values over finite leaf sets; leaf unification is a 40-line function (atoms, int, string, >=2, open structs of atoms)"}
		if c.Replay != nil {
			c.Inconclusive("replay: evaluate the expression with cue eval; cases are enumerated deterministically")
			return
		}
		listFile := os.Getenv("VERIF_C04_LIST")
		known := c4loadKnown()
		report := func(e *c4expr, rs []c4result, enumerated bool) {
			src := e.String()
			if len(rs) == 0 {
				return
			}
			if listFile != "" && enumerated {
				f, _ := os.OpenFile(listFile, os.O_APPEND|os.O_CREATE|os.O_WRONLY, 0o666)
				fmt.Fprintf(f, "%s\t%s\n", src, rs[0].class)
				f.Close()
				return
			}
			if known[src] {
				c.Count("known_mismatching_expressions_reproduced", 1)
				return
			}
			var parts []string
			for _, r := range rs {
				parts = append(parts, r.class+" "+r.detail)
			}
			c.Violate("C04|"+src, fmt.Sprintf("%s\n  %s", src, strings.Join(parts, "\n  ")), map[string]any{"expr": src, "nested_default": c4nestedDefault(e), "eliminated_mark": c4eliminatedMark(e), "collapse": c4collapse(e)})
		}
		run := func(exprs []*c4expr, enumerated bool) {
			c.Par(64, func(b int) {
				ctx := cuecontext.New()
				n := 0
				for i := b; i < len(exprs); i += 64 {
					e := exprs[i]
					if !c4wellFormed(e) {
						continue
					}
					n++
					if n%500 == 0 {
						ctx = cuecontext.New()
					}
					var rs []c4result
					var st map[string]bool
					func() {
						defer func() {
							if rec := recover(); rec != nil {
								rs = []c4result{{"panic", fmt.Sprint(rec)}}
							}
						}()
						defer mon.WAL("x: " + e.String())()
						rs, st = c4check(ctx, e, false)
						if len(rs) > 0 && c4collapse(e) {
							// recorded deviation: the expression must then agree with the variant model exactly
							if rs2, _ := c4check(ctx, e, true); len(rs2) == 0 {
								rs = nil
								st["finding:collapse-variant"] = true
							}
						}
						if len(rs) > 0 && c4defaultOnly(rs) {
							// the dynamic forms of the two recorded deviations: only default-related disagreement
							// is attributed to them; value-set disagreement (bottom, probe acceptance) never is
							switch {
							case c4nestedDefault(e):
								rs = nil
								st["finding:nested-default"] = true
							case c4eliminatedMark(e):
								rs = nil
								st["finding:eliminated-mark"] = true
							case c4dupLaterMark(e) && c4keepsDefault(rs):
								// only "the evaluator resolves a default the rules eliminate"; a lost default is not
								// this finding
								rs = nil
								st["finding:duplicate-unmarked-then-marked"] = true
							}
						}
					}()
					c.Eval(1)
					for k := range st {
						if strings.HasPrefix(k, "finding:") {
							c.Count(k, 1)
							c.Violate("C04|"+strings.TrimPrefix(k, "finding:"), e.String()+": default-related disagreement of the class "+k, map[string]any{"expr": e.String()})
							continue
						}
						c.Count("outcome:"+k, 1)
					}
					if c4nestedDefault(e) || c4eliminatedMark(e) || c4dupLaterMark(e) {
						c.Count("expressions_in_finding_classes", 1)
					} else {
						c.Count("expressions_outside_finding_classes", 1)
					}
					if st["crossproduct"] {
						if enumerated {
							c.NontrivialN(1)
						} else {
							c.Nontrivial(e.String())
						}
					}
					report(e, rs, enumerated)
				}
			})
		}
		// struct disjuncts with pending constraints: distribution oracle (c04rel.go)
		{
			nrel := c.N(12000, 200000)
			c.Par(64, func(b int) {
				r := c.RNG(fmt.Sprintf("rel-%d", b))
				ctx := cuecontext.New()
				for i := b; i < nrel; i += 64 {
					if i%(64*200) == b {
						ctx = cuecontext.New()
					}
					k := c4relGen(r)
					e := k.expr()
					var rs []c4result
					var st map[string]bool
					func() {
						defer func() {
							if rec := recover(); rec != nil {
								rs = []c4result{{"panic", fmt.Sprint(rec)}}
							}
						}()
						defer mon.WAL("x: " + e)()
						rs, st = c4relCheck(ctx, k)
					}()
					c.Eval(1)
					c.Count("struct_disjunct_cases", 1)
					for s := range st {
						c.Count("struct_outcome:"+s, 1)
					}
					if st["crossproduct"] {
						c.Nontrivial(e)
					}
					if len(rs) > 0 && st["eliminated-mark"] && c4defaultOnly(rs) {
						// the recorded finding in struct guise; value-set disagreement is never attributed to it
						c.Count("finding:eliminated-mark(struct)", 1)
						c.Violate("C04|eliminated-mark", "x: "+e+": default-related disagreement, a marked term is eliminated by the other conjuncts", map[string]any{"expr": e})
						rs = nil
					}
					if len(rs) > 0 {
						var parts []string
						for _, x := range rs {
							parts = append(parts, x.class+" "+x.detail)
						}
						c.Violate("C04|rel|"+e, fmt.Sprintf("x: %s\n  %s", e, strings.Join(parts, "\n  ")), map[string]any{"expr": e})
					}
					if i < 2 {
						c.Sample(map[string]any{"struct_disjunct_case": e})
					}
				}
			})
		}
		small := []int{0, 1, 4, 6, 7, 8} // 1 2 int >=2 {a:1} {b:2}
		var enum []*c4expr
		if c.Thorough {
			enum = append(enum, c4enumerate(2, 2, []int{0, 1, 3, 4, 6, 7, 8, 10}, false)...)
			d1w := c4enumerate(1, 3, []int{0, 1, 4, 7}, false)
			for _, a := range d1w {
				for _, b := range d1w {
					enum = append(enum, &c4expr{op: "&", args: []*c4expr{a, b}})
				}
			}
			c.Set("exhaustive_subspace", "depth 2 width 2 over the leaves {1, 2, \"a\", int, >=2, {a:1}, {b:2}, {a:2}}; A & B over all depth-1 width<=3 expressions over {1, 2, int, {a:1}}")
		} else {
			enum = c4enumerate(2, 2, small, false)
			c.Set("exhaustive_subspace", "depth 2 width 2 over the leaves {1, 2, int, >=2, {a:1}, {b:2}}")
		}
		// conjunction family: A & B (quick) and A & B & C (thorough, two leaves) over all depth-1 expressions of
		// width <= 3: the cross products of several disjunctions with duplicate and marked/unmarked equal terms
		d1 := c4enumerate(1, 3, []int{0, 1, 4}, false)
		for _, a := range d1 {
			for _, b := range d1 {
				enum = append(enum, &c4expr{op: "&", args: []*c4expr{a, b}})
			}
		}
		if c.Thorough {
			d2 := c4enumerate(1, 3, []int{0, 1}, false)
			for _, a := range d2 {
				for _, b := range d2 {
					for _, cc := range d2 {
						enum = append(enum, &c4expr{op: "&", args: []*c4expr{{op: "&", args: []*c4expr{a, b}}, cc}})
					}
				}
			}
		}
		c.Set("conjunction_family", fmt.Sprintf("A & B over the %d depth-1 expressions of width <= 3 over {1, 2, int}", len(d1)))
		c.Set("enumerated_expressions", len(enum))
		// pinned witnesses of the recorded findings (known_findings.jsonl): every run reproduces them
		lv := func(i int) *c4expr { return &c4expr{op: "leaf", c4leaf: c4leafSrcs[i].l, src: c4leafSrcs[i].src} }
		or := func(marks []bool, args ...*c4expr) *c4expr { return &c4expr{op: "|", args: args, marks: marks} }
		and := func(a, b *c4expr) *c4expr { return &c4expr{op: "&", args: []*c4expr{a, b}} }
		ff, tf, ft := []bool{false, false}, []bool{true, false}, []bool{false, true}
		run([]*c4expr{
			or(ff, or(tf, lv(0), lv(0)), lv(1)),                                                                       // ((*1 | 1) | 2)
			and(or(ff, or(tf, lv(7), lv(2)), lv(8)), lv(7)),                                                           // ((*{a: 1} | 3) | {b: 2}) & {a: 1}
			and(or(tf, and(lv(7), lv(5)), or(ff, lv(0), lv(4))), or(tf, or(ff, lv(1), lv(4)), lv(3))),                 // (*({a: 1} & string) | (1 | int)) & (*(2 | int) | "a")
			and(and(or(tf, lv(0), lv(1)), or([]bool{false, true, false}, lv(1), lv(1), lv(0))), or(ft, lv(0), lv(1))), // ((*1 | 2) & (2 | *2 | 1)) & (1 | *2)
		}, false)
		run(enum, true)
		if len(enum) > 0 {
			c.Sample(map[string]any{"enumerated": enum[len(enum)/2].String()})
		}
		if listFile != "" {
			return
		}
		// PRNG deeper expressions
		nr := c.N(10000, 200000)
		var rnd []*c4expr
		r := c.RNG("random")
		for len(rnd) < nr {
			if len(rnd)%2 == 0 {
				rnd = append(rnd, c4gen(r, 3, false))
			} else {
				rnd = append(rnd, c4genPool(r, 3))
			}
		}
		run(rnd, false)
		c.Sample(map[string]any{"random": rnd[0].String()})
	})
}

// c4cut removes from the PRNG stream the expression classes in which the pinned tree deviates from the spec
// (recorded findings; the enumerated stream keeps them as listed instances).
func c4keepsDefault(rs []c4result) bool {
	for _, r := range rs {
		if r.class != "concrete model=false impl=true" && r.class != "ambiguous-but-exported" {
			return false
		}
	}
	return true
}

func c4defaultOnly(rs []c4result) bool {
	for _, r := range rs {
		if !(strings.HasPrefix(r.class, "concrete ") || r.class == "default-value" || r.class == "ambiguous-but-exported") {
			return false
		}
	}
	return true
}

// c4nestedDefault: an unmarked disjunction has a compound term that carries a default of its own.
func c4nestedDefault(e *c4expr) bool {
	if e.op == "|" && !c4marked(e) {
		for _, a := range e.args {
			if a.op != "leaf" && len(c4eval(a).d) > 0 {
				return true
			}
		}
	}
	for _, a := range e.args {
		if c4nestedDefault(a) {
			return true
		}
	}
	return false
}

// c4dupLaterMark: a disjunction lists a value unmarked and, later, the same value marked (2 | *2 | 1).
func c4dupLaterMark(e *c4expr) bool {
	if e.op == "|" {
		for i := range e.args {
			for j := i + 1; j < len(e.args); j++ {
				if e.marks[i] || !e.marks[j] {
					continue
				}
				a, b := c4eval(e.args[i]), c4eval(e.args[j])
				if len(a.v) == 1 && len(b.v) == 1 && a.v[0].key() == b.v[0].key() {
					return true
				}
			}
		}
	}
	for _, a := range e.args {
		if c4dupLaterMark(a) {
			return true
		}
	}
	return false
}

// c4eliminatedMark: a marked term of a disjunction evaluates to bottom.
func c4eliminatedMark(e *c4expr) bool {
	if e.op == "&" {
		// ... or is eliminated by the other operand of a unification
		for k := 0; k < 2; k++ {
			x, other := e.args[k], c4eval(e.args[1-k])
			if x.op != "|" {
				continue
			}
			for i, a := range x.args {
				if x.marks[i] && len(c4survive(c4eval(a).v, other.v)) == 0 {
					return true
				}
			}
		}
	}
	if e.op == "|" {
		for i, a := range e.args {
			if e.marks[i] && len(c4eval(a).v) == 0 {
				return true
			}
		}
	}
	for _, a := range e.args {
		if c4eliminatedMark(a) {
			return true
		}
	}
	return false
}

// c4collapse: some marked disjunction that is a direct term of an unmarked disjunction has a one-element value
// set (all its surviving terms are equal), the shape in which the evaluator simplifies it to a plain value and
// forgets that it was a default.
func c4collapse(e *c4expr) bool {
	if e.op == "|" && !c4marked(e) {
		for _, a := range e.args {
			if a.op != "leaf" {
				if x := c4eval(a); len(x.v) == 1 && len(x.d) == 1 {
					return true
				}
			}
		}
	}
	for _, a := range e.args {
		if c4collapse(a) {
			return true
		}
	}
	return false
}

func c4marked(e *c4expr) bool {
	for _, m := range e.marks {
		if m {
			return true
		}
	}
	return false
}
