package main

// C06 – arithmetic, comparison and numeric builtins are exact.
// Oracle: math/big rationals and integers.

import (
	"bytes"
	"encoding/json"
	"fmt"
	"math/big"
	"math/rand/v2"
	"sort"
	"strings"
	"sync"
	"time"

	"cuelang.org/go/cue"
	"cuelang.org/go/cue/cuecontext"
	"cuelang.org/go/cue/format"
)

const c6prec = 34 // documented precision of / (internal.BaseContext)

func c6randInt(r *rand.Rand, maxDigits int) string {
	if r.IntN(10) == 0 {
		return "0"
	}
	n := 1 + r.IntN(maxDigits)
	var sb strings.Builder
	if r.IntN(3) == 0 {
		sb.WriteByte('-')
	}
	sb.WriteByte(byte('1' + r.IntN(9)))
	for i := 1; i < n; i++ {
		if r.IntN(6) == 0 { // runs of 9s and 0s provoke carries
			c := byte('0')
			if r.IntN(2) == 0 {
				c = '9'
			}
			for k := r.IntN(8); k > 0 && i < n; k-- {
				sb.WriteByte(c)
				i++
			}
		}
		if i < n {
			sb.WriteByte(byte('0' + r.IntN(10)))
		}
	}
	return sb.String()
}

func c6randDec(r *rand.Rand, maxDigits int) string {
	s := c6randInt(r, maxDigits)
	f := 1 + r.IntN(maxDigits)
	var sb strings.Builder
	for i := 0; i < f; i++ {
		sb.WriteByte(byte('0' + r.IntN(10)))
	}
	out := s + "." + sb.String()
	if r.IntN(5) == 0 {
		out += fmt.Sprintf("e%+d", r.IntN(80)-40)
	}
	return out
}

var c6boundaries = []string{
	"0", "1", "-1", "2", "-2", "3", "-3", "7", "-7", "10", "-10",
	"9007199254740992", "9007199254740993", "-9007199254740992",
	"9223372036854775807", "9223372036854775808", "-9223372036854775808", "-9223372036854775809",
	"18446744073709551615", "18446744073709551616",
	"9999999999999999999999999999999999", "10000000000000000000000000000000000", "10000000000000000000000000000000001",
	"99999999999999999999999999999999999", "-10000000000000000000000000000000001",
	"170141183460469231731687303715884105727", "340282366920938463463374607431768211456",
}
var c6smallDecs = []string{"0.5", "-0.5", "1.5", "-1.5", "2.5", "0.1", "0.25", "-0.25", "1.0", "2.0", "-3.0", "0.0", "1e2", "1.5e1", "2.5e-1"}

func c6rat(s string) *big.Rat {
	x, ok := new(big.Rat).SetString(s)
	if !ok {
		panic("bad number " + s)
	}
	return x
}

// c6isInt reports whether the literal spelling is an int literal.
func c6isIntLit(s string) bool { return !strings.ContainsAny(s, ".eE") }

// c6value reads a cue number through its printed syntax.
func c6value(v cue.Value) (*big.Rat, string, bool) {
	s := fmt.Sprint(v)
	x, ok := new(big.Rat).SetString(s)
	return x, s, ok
}

// c6sigDigits is the number of significant decimal digits of a finite decimal rational
// (or a large number if not a finite decimal).
func c6sigDigits(x *big.Rat) int {
	if x.Sign() == 0 {
		return 1
	}
	// x = num/den; finite decimal iff den | 10^k
	den := new(big.Int).Set(x.Denom())
	k := 0
	two, five, ten := big.NewInt(2), big.NewInt(5), big.NewInt(10)
	m := new(big.Int)
	for den.Cmp(big.NewInt(1)) != 0 {
		switch {
		case m.Mod(den, ten).Sign() == 0:
			den.Div(den, ten)
		case m.Mod(den, two).Sign() == 0:
			den.Div(den, two)
		case m.Mod(den, five).Sign() == 0:
			den.Div(den, five)
		default:
			return 1 << 20
		}
		k++
		if k > 5000 {
			return 1 << 20
		}
	}
	// x * 10^k is an integer
	scaled := new(big.Rat).Mul(x, new(big.Rat).SetInt(new(big.Int).Exp(ten, big.NewInt(int64(k)), nil)))
	s := new(big.Int).Abs(scaled.Num()).String()
	s = strings.TrimRight(s, "0")
	if s == "" {
		return 1
	}
	return len(s)
}

// c6roundedOK reports whether got is the exact value want correctly rounded to prec significant digits
// (nearest; ties may go either way).
func c6roundedOK(got, want *big.Rat, prec int) bool {
	if want.Sign() == 0 {
		return got.Sign() == 0
	}
	if got.Cmp(want) == 0 {
		return true
	}
	if c6sigDigits(want) <= prec {
		return false // representable exactly but not reproduced
	}
	if c6sigDigits(got) > prec {
		return false
	}
	// find e with 10^e <= |want| < 10^(e+1)
	abs := new(big.Rat).Abs(want)
	e := len(abs.Num().String()) - len(abs.Denom().String())
	pow := func(n int) *big.Rat {
		p := new(big.Int).Exp(big.NewInt(10), big.NewInt(int64(absInt(n))), nil)
		if n >= 0 {
			return new(big.Rat).SetInt(p)
		}
		return new(big.Rat).SetFrac(big.NewInt(1), p)
	}
	for abs.Cmp(pow(e)) < 0 {
		e--
	}
	for abs.Cmp(pow(e+1)) >= 0 {
		e++
	}
	ulp := pow(e - (prec - 1))
	diff := new(big.Rat).Sub(got, want)
	diff.Abs(diff)
	half := new(big.Rat).Mul(ulp, big.NewRat(1, 2))
	return diff.Cmp(half) <= 0
}

func absInt(n int) int {
	if n < 0 {
		return -n
	}
	return n
}

var (
	c6rangeMu    sync.Mutex
	c6rangeCases [][2]string
)

func init() {
	batchOps["c06json"] = func(cs bcase) map[string]any {
		v := cuecontext.New().CompileString(cs.Src).LookupPath(cue.ParsePath("x"))
		if err := v.Err(); err != nil {
			return map[string]any{"err": err.Error()}
		}
		b, err := v.MarshalJSON()
		if err != nil {
			return map[string]any{"err": err.Error()}
		}
		return map[string]any{"json": string(b)}
	}
}

const c6imports2 = "import (\n\t\"math\"\n\t\"list\"\n\t\"strconv\"\n)\n_u: [math.Abs, list.Sum, strconv.Atoi]\n"

type c6case struct {
	expr  string
	check func(v cue.Value) (ok bool, detail string)
	class string
	// knownKey, if non-empty, identifies a recorded class of defect (the violation key)
	key string
}

// c6runBatch compiles all expressions as fields of one file and applies the checks.
func c6runBatch(c *Ctx, ctx *cue.Context, cases []c6case, imports string) {
	var sb strings.Builder
	sb.WriteString(imports)
	for i, cs := range cases {
		fmt.Fprintf(&sb, "f%d: %s\n", i, cs.expr)
	}
	root := ctx.CompileString(sb.String())
	broken := len(cases) > 0 && !root.LookupPath(cue.MakePath(cue.Str("f0"))).Exists()
	for i, cs := range cases {
		v := root.LookupPath(cue.MakePath(cue.Str(fmt.Sprintf("f%d", i))))
		if broken {
			// one expression does not compile: isolate it
			v = ctx.CompileString(imports + "x: " + cs.expr).LookupPath(cue.MakePath(cue.Str("x")))
			if !v.Exists() {
				c.Count("uncompilable:"+cs.class, 1)
				v = ctx.CompileString(imports + "x: " + cs.expr)
			}
		}
		c.Eval(1)
		c.Count("class:"+cs.class, 1)
		ok, detail := cs.check(v)
		if !ok {
			key := "C06|" + cs.class + "|" + cs.expr
			if cs.key != "" && strings.HasPrefix(detail, "KNOWN-CLASS:") {
				// exactly the recorded defect class (the check itself verified that)
				key = cs.key
			}
			c.Violate(key, fmt.Sprintf("%s: %s  →  %s", cs.class, cs.expr, detail), map[string]any{"expr": cs.expr, "class": cs.class})
		}
	}
}

func c6num(v cue.Value, wantInt bool, want *big.Rat, exact bool) (bool, string) {
	if err := v.Err(); err != nil {
		return false, "error: " + err.Error()
	}
	got, gs, ok := c6value(v)
	if !ok {
		return false, "unparsable result " + gs
	}
	if (v.Kind() == cue.IntKind) != wantInt {
		return false, fmt.Sprintf("result %s has kind %v, int expected: %v", gs, v.Kind(), wantInt)
	}
	if exact {
		if got.Cmp(want) != 0 {
			return false, fmt.Sprintf("got %s, exact result is %s", gs, want.FloatString(0)+" (as rational "+want.String()+")")
		}
		if wantInt && strings.ContainsAny(gs, "eE.") {
			return false, "int result printed as " + gs
		}
		return true, ""
	}
	if !c6roundedOK(got, want, c6prec) {
		return false, fmt.Sprintf("got %s, exact quotient %s is not rounded correctly to %d digits", gs, want.FloatString(60), c6prec)
	}
	return true, ""
}

// c6arith builds the cases for one operand pair.
func c6arith(a, b string, out *[]c6case) {
	ra, rb := c6rat(a), c6rat(b)
	aint, bint := c6isIntLit(a), c6isIntLit(b)
	for _, op := range []string{"+", "-", "*", "/"} {
		expr := fmt.Sprintf("(%s) %s (%s)", a, op, b)
		if op == "/" && rb.Sign() == 0 {
			*out = append(*out, c6case{expr: expr, class: "div-by-zero", check: func(v cue.Value) (bool, string) {
				if v.Err() == nil {
					return false, fmt.Sprint("no error: ", v)
				}
				return true, ""
			}})
			continue
		}
		want := new(big.Rat)
		switch op {
		case "+":
			want.Add(ra, rb)
		case "-":
			want.Sub(ra, rb)
		case "*":
			want.Mul(ra, rb)
		case "/":
			want.Quo(ra, rb)
		}
		wantInt := aint && bint && op != "/"
		class := "arith" + op
		key := ""
		if op != "/" && !wantInt && c6sigDigits(want) > c6prec {
			// recorded finding: decimal results needing more than 34 digits are rounded
			class = "decimal>34digits" + op
			key = "C06|decimal-precision-34"
		}
		exact := op != "/"
		*out = append(*out, c6case{expr: expr, class: class, key: key, check: func(v cue.Value) (bool, string) {
			ok, detail := c6num(v, wantInt, want, exact)
			if !ok && key != "" && v.Err() == nil {
				if got, _, pok := c6value(v); pok && v.Kind() == cue.FloatKind && c6roundedOK(got, want, c6prec) {
					detail = "KNOWN-CLASS: rounded to 34 digits: " + detail
				}
			}
			return ok, detail
		}})
	}
	if aint && bint {
		ia, _ := new(big.Int).SetString(a, 10)
		ib, _ := new(big.Int).SetString(b, 10)
		for _, fn := range []string{"div", "mod", "quo", "rem"} {
			expr := fmt.Sprintf("%s(%s, %s)", fn, a, b)
			if ib.Sign() == 0 {
				*out = append(*out, c6case{expr: expr, class: "intdiv-by-zero", check: func(v cue.Value) (bool, string) {
					if v.Err() == nil {
						return false, fmt.Sprint("no error: ", v)
					}
					return true, ""
				}})
				continue
			}
			want := new(big.Int)
			switch fn {
			case "div":
				want.Div(ia, ib) // Euclidean
			case "mod":
				want.Mod(ia, ib)
			case "quo":
				want.Quo(ia, ib) // truncated
			case "rem":
				want.Rem(ia, ib)
			}
			*out = append(*out, c6case{expr: expr, class: "int-" + fn, check: func(v cue.Value) (bool, string) {
				return c6num(v, true, new(big.Rat).SetInt(want), true)
			}})
		}
		// identities evaluated by CUE itself: a == b*div + mod, 0 <= mod < |b|; a == b*quo + rem
		if ib.Sign() != 0 {
			expr := fmt.Sprintf("(%s) == (%s)*div(%s,%s) + mod(%s,%s) && mod(%s,%s) >= 0 && (%s) == (%s)*quo(%s,%s) + rem(%s,%s)", a, b, a, b, a, b, a, b, a, b, a, b, a, b)
			*out = append(*out, c6case{expr: expr, class: "division-identity", check: c6wantBool(true)})
		}
	}
	c := ra.Cmp(rb)
	for _, op := range []string{"<", "<=", "==", "!=", ">=", ">"} {
		want := map[string]bool{"<": c < 0, "<=": c <= 0, "==": c == 0, "!=": c != 0, ">=": c >= 0, ">": c > 0}[op]
		*out = append(*out, c6case{expr: fmt.Sprintf("(%s) %s (%s)", a, op, b), class: "cmp-num", check: c6wantBool(want)})
	}
}

func c6wantBool(want bool) func(v cue.Value) (bool, string) {
	return func(v cue.Value) (bool, string) {
		b, err := v.Bool()
		if err != nil {
			return false, "error: " + err.Error()
		}
		if b != want {
			return false, fmt.Sprintf("got %v want %v", b, want)
		}
		return true, ""
	}
}

// c6literal generates a literal spelling together with its exact value and kind.
func c6literal(r *rand.Rand) (lit string, val *big.Rat, isInt bool) {
	digits := func(set string, n int, us bool) string {
		var sb strings.Builder
		for i := 0; i < n; i++ {
			if us && i > 0 && r.IntN(4) == 0 {
				sb.WriteByte('_')
			}
			sb.WriteByte(set[r.IntN(len(set))])
		}
		return sb.String()
	}
	strip := func(s string) string { return strings.ReplaceAll(s, "_", "") }
	switch r.IntN(7) {
	case 0: // decimal
		d := string("123456789"[r.IntN(9)]) + digits("0123456789", r.IntN(40), true)
		if strings.HasSuffix(d, "_") {
			d += "1"
		}
		return d, c6rat(strip(d)), true
	case 1: // hex
		d := digits("0123456789abcdefABCDEF", 1+r.IntN(30), true)
		p := "0x"
		if r.IntN(2) == 0 {
			p = "0X"
		}
		v, _ := new(big.Int).SetString(strip(d), 16)
		return p + d, new(big.Rat).SetInt(v), true
	case 2: // octal
		d := digits("01234567", 1+r.IntN(30), true)
		v, _ := new(big.Int).SetString(strip(d), 8)
		return "0o" + d, new(big.Rat).SetInt(v), true
	case 3: // binary
		d := digits("01", 1+r.IntN(70), true)
		v, _ := new(big.Int).SetString(strip(d), 2)
		return "0b" + d, new(big.Rat).SetInt(v), true
	case 4: // SI / IEC multiplier, possibly fractional, truncated toward zero
		ip := digits("0123456789", 1+r.IntN(6), false)
		if len(ip) > 1 {
			ip = strings.TrimLeft(ip, "0")
			if ip == "" {
				ip = "0"
			}
		}
		fp := ""
		if r.IntN(2) == 0 {
			fp = "." + digits("0123456789", 1+r.IntN(6), false)
		}
		if r.IntN(8) == 0 && fp != "" {
			ip = "" // ".5K"
		}
		mults := []string{"K", "M", "G", "T", "P", "Ki", "Mi", "Gi", "Ti", "Pi"}
		m := mults[r.IntN(len(mults))]
		var f *big.Int
		idx := strings.Index("KMGTP", m[:1]) + 1
		if strings.HasSuffix(m, "i") {
			f = new(big.Int).Exp(big.NewInt(1024), big.NewInt(int64(idx)), nil)
		} else {
			f = new(big.Int).Exp(big.NewInt(1000), big.NewInt(int64(idx)), nil)
		}
		base := ip + fp
		if ip == "" {
			base = "0" + fp
		}
		x := new(big.Rat).Mul(c6rat(base), new(big.Rat).SetInt(f))
		// truncate toward zero
		q := new(big.Int).Quo(x.Num(), x.Denom())
		lit := ip + fp + m
		if !x.IsInt() {
			lit = "/*frac*/ " + lit
		}
		return lit, new(big.Rat).SetInt(q), true
	case 5: // float with fraction
		ip := digits("0123456789", r.IntN(12), true)
		ip = strings.Trim(ip, "_")
		fp := digits("0123456789", r.IntN(12), true)
		fp = strings.Trim(fp, "_")
		if ip == "" && fp == "" {
			ip = "0"
		}
		lit = ip + "." + fp
		ex := ""
		if r.IntN(2) == 0 {
			ex = []string{"e", "E"}[r.IntN(2)] + []string{"", "+", "-"}[r.IntN(3)] + fmt.Sprint(r.IntN(60))
		}
		base := strip(ip)
		if base == "" {
			base = "0"
		}
		fs := strip(fp)
		if fs == "" {
			fs = "0"
		}
		return lit + ex, c6rat(base + "." + fs + ex), false
	default: // decimals exponent
		ip := digits("0123456789", 1+r.IntN(10), false)
		ex := []string{"e", "E"}[r.IntN(2)] + []string{"", "+", "-"}[r.IntN(3)] + fmt.Sprint(r.IntN(400))
		return ip + ex, c6rat(ip + ex), false
	}
}

func c6literalCase(lit string, val *big.Rat, isInt bool) c6case {
	class, key := "literal", ""
	if strings.HasPrefix(lit, "/*frac*/ ") {
		// spec: "the result is truncated towards zero if it is not an integer";
		// recorded finding: the implementation rejects such literals.
		lit = strings.TrimPrefix(lit, "/*frac*/ ")
		class, key = "literal-si-fraction", "C06|si-fraction-rejected"
	}
	return c6case{expr: lit, class: class, key: key, check: func(v cue.Value) (bool, string) {
		if err := v.Err(); err != nil {
			if key != "" && strings.Contains(err.Error(), "number cannot be represented as int") {
				return false, "KNOWN-CLASS: error: " + err.Error()
			}
			return false, "error: " + err.Error()
		}
		got, gs, ok := c6value(v)
		if !ok {
			return false, "unparsable " + gs
		}
		if (v.Kind() == cue.IntKind) != isInt {
			return false, fmt.Sprintf("kind %v", v.Kind())
		}
		if got.Cmp(val) != 0 {
			return false, fmt.Sprintf("denotes %s, grammar value %s", gs, val.FloatString(10))
		}
		// print → read: Syntax+format, and MarshalJSON
		syn, err := format.Node(v.Syntax(cue.Final()))
		if err != nil {
			return false, "format: " + err.Error()
		}
		back, ok2 := new(big.Rat).SetString(strings.TrimSpace(string(syn)))
		if !ok2 || back.Cmp(val) != 0 {
			return false, fmt.Sprintf("printed as %s which reads as a different number", syn)
		}
		if isInt == strings.ContainsAny(string(syn), ".eE") {
			return false, fmt.Sprintf("printed as %s: int/float kind lost", syn)
		}
		js, err := v.MarshalJSON()
		if err != nil {
			return false, "MarshalJSON: " + err.Error()
		}
		dec := json.NewDecoder(bytes.NewReader(js))
		dec.UseNumber()
		var x any
		if err := dec.Decode(&x); err != nil {
			return false, fmt.Sprintf("JSON %s invalid: %v", js, err)
		}
		n, isNum := x.(json.Number)
		if !isNum {
			return false, fmt.Sprintf("JSON %s is not a number", js)
		}
		jb, ok3 := new(big.Rat).SetString(n.String())
		if !ok3 || jb.Cmp(val) != 0 {
			return false, fmt.Sprintf("JSON %s reads as a different number", js)
		}
		return true, ""
	}}
}

func c6builtins(r *rand.Rand, out *[]c6case) {
	x := c6randDec(r, 12)
	if r.IntN(4) == 0 {
		x = c6smallDecs[r.IntN(len(c6smallDecs))]
	}
	if strings.ContainsAny(x, "eE") {
		x = x[:strings.IndexAny(x, "eE")]
	}
	rx := c6rat(x)
	floor := new(big.Int).Div(rx.Num(), rx.Denom()) // Euclidean div with positive denom = floor
	ceil := new(big.Int).Set(floor)
	if !rx.IsInt() {
		ceil.Add(ceil, big.NewInt(1))
	}
	trunc := new(big.Int).Quo(rx.Num(), rx.Denom())
	// round half away from zero (math.Round doc)
	twice := new(big.Rat).Mul(rx, big.NewRat(2, 1))
	var round *big.Int
	{
		ax := new(big.Rat).Abs(rx)
		fl := new(big.Int).Div(ax.Num(), ax.Denom())
		frac := new(big.Rat).Sub(ax, new(big.Rat).SetInt(fl))
		if frac.Cmp(big.NewRat(1, 2)) >= 0 {
			fl.Add(fl, big.NewInt(1))
		}
		if rx.Sign() < 0 {
			fl.Neg(fl)
		}
		round = fl
	}
	_ = twice
	intRes := func(name string, want *big.Int) {
		*out = append(*out, c6case{expr: fmt.Sprintf("math.%s(%s)", name, x), class: "builtin-" + name, check: func(v cue.Value) (bool, string) {
			if err := v.Err(); err != nil {
				return false, "error: " + err.Error()
			}
			got, gs, ok := c6value(v)
			if !ok {
				return false, "unparsable " + gs
			}
			if got.Cmp(new(big.Rat).SetInt(want)) != 0 {
				return false, fmt.Sprintf("got %s want %s", gs, want)
			}
			return true, ""
		}})
	}
	intRes("Floor", floor)
	intRes("Ceil", ceil)
	intRes("Trunc", trunc)
	intRes("Round", round)
	abs := new(big.Rat).Abs(rx)
	*out = append(*out, c6case{expr: fmt.Sprintf("math.Abs(%s)", x), class: "builtin-Abs", check: func(v cue.Value) (bool, string) {
		if err := v.Err(); err != nil {
			return false, "error: " + err.Error()
		}
		got, gs, ok := c6value(v)
		if !ok || got.Cmp(abs) != 0 {
			return false, fmt.Sprintf("got %s want %s", gs, abs.FloatString(20))
		}
		return true, ""
	}})
	// MultipleOf on ints
	a, b := c6randInt(r, 12), c6randInt(r, 4)
	ia, _ := new(big.Int).SetString(a, 10)
	ib, _ := new(big.Int).SetString(b, 10)
	if r.IntN(2) == 0 && ib.Sign() != 0 {
		ia.Mul(ib, big.NewInt(int64(r.IntN(2000)-1000)))
		a = ia.String()
	}
	if ib.Sign() != 0 {
		want := new(big.Int).Rem(ia, ib).Sign() == 0
		*out = append(*out, c6case{expr: fmt.Sprintf("math.MultipleOf(%s, %s)", a, b), class: "builtin-MultipleOf", check: c6wantBool(want)})
	}
}

// c6bigNum: a number with many integer digits, optionally a fraction, or in exponent notation.
func c6bigNum(r *rand.Rand) string {
	switch r.IntN(8) {
	case 0:
		return fmt.Sprintf("%s1e%d", []string{"", "-"}[r.IntN(2)], 30+r.IntN(20))
	case 1:
		return fmt.Sprintf("%s%d.%de%d", []string{"", "-"}[r.IntN(2)], 1+r.IntN(9), r.IntN(1000), 30+r.IntN(20))
	case 2:
		return fmt.Sprintf("%s%de-%d", []string{"", "-"}[r.IntN(2)], 1+r.IntN(9), 30+r.IntN(20))
	case 3:
		return c6boundaries[r.IntN(len(c6boundaries))]
	}
	x := c6randInt(r, []int{34, 35, 36, 40, 60, 120}[r.IntN(6)])
	if r.IntN(2) == 0 {
		x += "." + []string{"5", "0", "25", "75", "000000000000000000000000000000000001", "999999", "50000000001", "4999999999"}[r.IntN(8)]
	}
	return x
}

// c6builtins2: rounding builtins on numbers of more than 34 digits, and the builtins whose results are integers
// however many digits it takes (list.Sum/Product/Max/Min/Range/Sort, strconv.Atoi/FormatInt/ParseInt,
// math.MultipleOf), list.Avg (one correctly rounded division) and math.Pow with integer arguments.
func c6builtins2(r *rand.Rand, out *[]c6case) {
	x := c6bigNum(r)
	rx := c6rat(x)
	floor := new(big.Int).Div(rx.Num(), rx.Denom())
	ceil := new(big.Int).Set(floor)
	if !rx.IsInt() {
		ceil.Add(ceil, big.NewInt(1))
	}
	trunc := new(big.Int).Quo(rx.Num(), rx.Denom())
	round := new(big.Int)
	{
		ax := new(big.Rat).Abs(rx)
		fl := new(big.Int).Div(ax.Num(), ax.Denom())
		if new(big.Rat).Sub(ax, new(big.Rat).SetInt(fl)).Cmp(big.NewRat(1, 2)) >= 0 {
			fl.Add(fl, big.NewInt(1))
		}
		if rx.Sign() < 0 {
			fl.Neg(fl)
		}
		round = fl
	}
	exactInt := func(expr, class string, want *big.Int) {
		*out = append(*out, c6case{expr: expr, class: class, check: func(v cue.Value) (bool, string) {
			if err := v.Err(); err != nil {
				return false, "error: " + err.Error()
			}
			got, gs, ok := c6value(v)
			if !ok {
				return false, "unparsable " + gs
			}
			if got.Cmp(new(big.Rat).SetInt(want)) != 0 {
				return false, fmt.Sprintf("got %s want %s", gs, want)
			}
			return true, ""
		}})
	}
	exactInt(fmt.Sprintf("math.Floor(%s)", x), "builtin-big-Floor", floor)
	exactInt(fmt.Sprintf("math.Ceil(%s)", x), "builtin-big-Ceil", ceil)
	exactInt(fmt.Sprintf("math.Trunc(%s)", x), "builtin-big-Trunc", trunc)
	exactInt(fmt.Sprintf("math.Round(%s)", x), "builtin-big-Round", round)
	abs := new(big.Rat).Abs(rx)
	*out = append(*out, c6case{expr: fmt.Sprintf("math.Abs(%s)", x), class: "builtin-big-Abs", check: func(v cue.Value) (bool, string) {
		if err := v.Err(); err != nil {
			return false, "error: " + err.Error()
		}
		got, gs, ok := c6value(v)
		if !ok || got.Cmp(abs) != 0 {
			return false, fmt.Sprintf("got %s want %s", gs, abs.FloatString(40))
		}
		return true, ""
	}})
	// integer lists
	n := 2 + r.IntN(3)
	var xs []string
	var is []*big.Int
	for i := 0; i < n; i++ {
		t := c6randInt(r, []int{3, 18, 34, 35, 40, 60}[r.IntN(6)])
		if r.IntN(4) == 0 {
			t = c6boundaries[r.IntN(len(c6boundaries))]
		}
		xs = append(xs, t)
		bi, _ := new(big.Int).SetString(t, 10)
		is = append(is, bi)
	}
	list := "[" + strings.Join(xs, ", ") + "]"
	sum, prod := new(big.Int), big.NewInt(1)
	max, min := new(big.Int).Set(is[0]), new(big.Int).Set(is[0])
	for _, i := range is {
		sum.Add(sum, i)
		prod.Mul(prod, i)
		if i.Cmp(max) > 0 {
			max.Set(i)
		}
		if i.Cmp(min) < 0 {
			min.Set(i)
		}
	}
	exactInt("list.Sum("+list+")", "builtin-list.Sum", sum)
	exactInt("list.Product("+list+")", "builtin-list.Product", prod)
	exactInt("list.Max("+list+")", "builtin-list.Max", max)
	exactInt("list.Min("+list+")", "builtin-list.Min", min)
	avg := new(big.Rat).SetFrac(sum, big.NewInt(int64(n)))
	*out = append(*out, c6case{expr: "list.Avg(" + list + ")", class: "builtin-list.Avg", check: func(v cue.Value) (bool, string) {
		if err := v.Err(); err != nil {
			return false, "error: " + err.Error()
		}
		got, gs, ok := c6value(v)
		if !ok || !c6roundedOK(got, avg, c6prec) {
			return false, fmt.Sprintf("got %s, exact average %s is not rounded correctly to %d digits", gs, avg.FloatString(50), c6prec)
		}
		return true, ""
	}})
	// list.Range over big integers: start, start+step, ... (k elements)
	{
		start := is[0]
		step := big.NewInt(int64(1 + r.IntN(3)))
		if r.IntN(3) == 0 {
			step.Neg(step)
		}
		k := 1 + r.IntN(4)
		limit := new(big.Int).Add(start, new(big.Int).Mul(step, big.NewInt(int64(k))))
		var want []string
		for i := 0; i < k; i++ {
			want = append(want, new(big.Int).Add(start, new(big.Int).Mul(step, big.NewInt(int64(i)))).String())
		}
		ws := "[" + strings.Join(want, ",") + "]"
		// evaluated in worker processes (watchdog, address-space limit): with rounded additions the loop of Range
		// does not terminate
		c6rangeMu.Lock()
		c6rangeCases = append(c6rangeCases, [2]string{fmt.Sprintf("list.Range(%s, %s, %s)", start, limit, step), ws})
		c6rangeMu.Unlock()
	}
	// strconv round trip and math.MultipleOf on big integers
	exactInt(fmt.Sprintf("strconv.Atoi(strconv.FormatInt(%s, 10))", xs[0]), "builtin-strconv", is[0])
	exactInt(fmt.Sprintf("strconv.ParseInt(strconv.FormatInt(%s, %d), %d, 0)", xs[0], 2+r.IntN(35), 0), "builtin-strconv-skip", is[0])
	(*out) = (*out)[:len(*out)-1] // (ParseInt with bitSize 0 limits to 64 bits: not part of the statement)
	{
		a, b := is[0], is[1]
		if r.IntN(2) == 0 && b.Sign() != 0 {
			a = new(big.Int).Mul(b, big.NewInt(int64(r.IntN(2000)-1000)))
		}
		if r.IntN(3) == 0 {
			b = big.NewInt(int64(1 + r.IntN(9)))
		}
		if b.Sign() != 0 {
			want := new(big.Int).Rem(a, b).Sign() == 0
			*out = append(*out, c6case{expr: fmt.Sprintf("math.MultipleOf(%s, %s)", a, b), class: "builtin-big-MultipleOf", check: c6wantBool(want)})
		}
	}
	// math.Pow with integer arguments: exact up to 34 digits; beyond that the pinned tree rounds (recorded finding)
	{
		base := int64(r.IntN(25) - 12)
		exp := int64(r.IntN(45))
		if base == 0 && exp == 0 {
			exp = 1
		}
		want := new(big.Int).Exp(big.NewInt(base), big.NewInt(exp), nil)
		wr := new(big.Rat).SetInt(want)
		*out = append(*out, c6case{expr: fmt.Sprintf("math.Pow(%d, %d)", base, exp), class: "builtin-Pow", key: "C06|builtin-int-exactness|math.Pow", check: func(v cue.Value) (bool, string) {
			if err := v.Err(); err != nil {
				return false, "error: " + err.Error()
			}
			got, gs, ok := c6value(v)
			if !ok {
				return false, "unparsable " + gs
			}
			if got.Cmp(wr) == 0 {
				return true, ""
			}
			if c6sigDigits(wr) > c6prec && c6roundedOK(got, wr, c6prec) {
				return false, fmt.Sprintf("KNOWN-CLASS: integer power rounded to %d digits: got %s, exact %s", c6prec, gs, want)
			}
			return false, fmt.Sprintf("got %s want %s", gs, want)
		}})
	}
}

func c6strCases(r *rand.Rand, out *[]c6case) {
	pool := []string{"", "a", "A", "ab", "b", "aa", "é", "z", "\U0001F600", "a\x00", "￿", "\U00010000", "~", " "}
	x, y := pool[r.IntN(len(pool))], pool[r.IntN(len(pool))]
	c := strings.Compare(x, y)
	q := func(s string) string { return fmt.Sprintf("%q", s) }
	cueQ := func(s string) string { // CUE string literal via JSON escaping (subset valid in CUE)
		b, _ := json.Marshal(s)
		return string(b)
	}
	_ = q
	for _, op := range []string{"<", "<=", "==", "!=", ">=", ">"} {
		want := map[string]bool{"<": c < 0, "<=": c <= 0, "==": c == 0, "!=": c != 0, ">=": c >= 0, ">": c > 0}[op]
		*out = append(*out, c6case{expr: cueQ(x) + " " + op + " " + cueQ(y), class: "cmp-string", check: c6wantBool(want)})
	}
	// bytes incl. invalid UTF-8
	bpool := [][]byte{{}, {0}, {0x61}, {0x61, 0}, {0xff}, {0x80}, {0xc3, 0xa9}, {0x7f}, {0xfe, 0xff}, {0x61, 0x62}}
	bx, by := bpool[r.IntN(len(bpool))], bpool[r.IntN(len(bpool))]
	bl := func(b []byte) string {
		var sb strings.Builder
		sb.WriteByte('\'')
		for _, c := range b {
			fmt.Fprintf(&sb, "\\x%02x", c)
		}
		sb.WriteByte('\'')
		return sb.String()
	}
	cb := bytes.Compare(bx, by)
	for _, op := range []string{"<", "<=", "==", "!=", ">=", ">"} {
		want := map[string]bool{"<": cb < 0, "<=": cb <= 0, "==": cb == 0, "!=": cb != 0, ">=": cb >= 0, ">": cb > 0}[op]
		*out = append(*out, c6case{expr: bl(bx) + " " + op + " " + bl(by), class: "cmp-bytes", check: c6wantBool(want)})
	}
}

func c6operand(r *rand.Rand) string {
	switch r.IntN(10) {
	case 0, 1:
		return c6boundaries[r.IntN(len(c6boundaries))]
	case 2:
		return c6smallDecs[r.IntN(len(c6smallDecs))]
	case 3, 4:
		return c6randInt(r, []int{3, 10, 20, 40, 120, 300}[r.IntN(6)])
	case 5:
		return c6randDec(r, []int{2, 5, 10, 17}[r.IntN(4)])
	case 6:
		return c6randInt(r, 3)
	case 7:
		return c6randDec(r, 3)
	default:
		return c6randInt(r, 18)
	}
}

func init() {
	register("C06", "exploration", func(c *Ctx) {
		c.Rule = "operand pairs: exhaustive small set (signs, 0, ±1..3, halves, boundaries 2^53/2^63/2^64/10^34±1/2^127/2^128) × same set, plus PRNG integers (1-300 digits, runs of 9/0) and decimals (with exponents); per pair: + - * / (big.Rat oracle: exact, resp. correctly rounded to 34 digits), div/mod/quo/rem (big.Int Euclidean/truncated) and the identities evaluated in CUE, six comparisons (also with zeros that come out of computations such as 0 * -1, whose decimal carries a sign); order axioms on triples; string/bytes comparisons bytewise; number literals generated from the spec grammar with their exact value (all bases, '_', SI/IEC multipliers with fractions truncated toward zero, exponents) incl. print→read through Syntax+format and MarshalJSON; math.Floor/Ceil/Trunc/Round/Abs/MultipleOf on small and on > 34-digit / exponent-notation operands; list.Sum/Product/Max/Min/Range and strconv.Atoi∘FormatInt on integers of up to 60 digits (exact), list.Avg (one correctly rounded division), math.Pow with integer arguments. One compile per batch of ~200 expressions. Non-trivial = distinct expression whose operands are not both single-digit."
		c.Assume = []string{"documented precision of / is 34 significant digits (internal.BaseContext); nearest rounding, ties either way", "math.Round rounds half away from zero (package doc)"}
		if c.Replay != nil {
			expr, _ := c.Replay["expr"].(string)
			c.Inconclusive("replay: evaluate `" + expr + "` with cue eval; this check regenerates cases from the seed")
			return
		}
		// 1. exhaustive small × small
		small := append(append([]string{}, c6boundaries...), c6smallDecs...)
		c.Par(len(small), func(i int) {
			ctx := cuecontext.New()
			var cases []c6case
			for _, b := range small {
				c6arith(small[i], b, &cases)
				c.Nontrivial(small[i] + "|" + b)
			}
			c6runBatch(c, ctx, cases, "")
		})
		c.Set("exhaustive_small_pairs", len(small)*len(small))
		// 1b. the spec's own literal examples (frozen corpus)
		{
			ex := []struct {
				lit, val string
				isInt    bool
			}{
				{"42", "42", true}, {"1.5G", "1500000000", true}, {"/*frac*/ 1.3Ki", "1331", true},
				{"170_141_183_460_469_231_731_687_303_715_884_105_727", "170141183460469231731687303715884105727", true},
				{"0xBad_Face", "195951310", true}, {"0o755", "493", true}, {"0b0101_0001", "81", true},
				{"0.", "0", false}, {"72.40", "72.4", false}, {"072.40", "72.4", false}, {"2.71828", "2.71828", false},
				{"1.e+0", "1", false}, {"6.67428e-11", "6.67428e-11", false}, {"1E6", "1000000", false}, {".25", "0.25", false},
				{".12345E+5", "12345", false}, {"0_7.5", "7.5", false}, {"0_1e2", "100", false}, {"0M", "0", true}, {".5Ki", "512", true},
			}
			var cases []c6case
			for _, e := range ex {
				cases = append(cases, c6literalCase(e.lit, c6rat(e.val), e.isInt))
			}
			c6runBatch(c, cuecontext.New(), cases, "")
		}
		// 1c. zeros that come out of a computation (possibly with the sign bit set: 0 * -1, -7 * 0) compared with
		//     every small operand: a zero is a zero whatever its history
		{
			zeros := []string{"(0 * -1)", "(-7 * 0)", "(0 * -3 * 5)", "(3 - 3)", "(-0)", "(-0.0)", "(0.0 * -1)", "(0 * -1.5)", "(-1 * 0 * -1 * -1)", "(0 / -1)", "div(0, -1)", "rem(0, -3)", "quo(0, -3)", "mod(0, 3)", "quo(0 * -1, 3)", "rem(0 * -1, 3)", "(-(0 * -1))", "(0 * -1 + 0)", "(0 * -1 - 0)"}
			var cases []c6case
			zero := new(big.Rat)
			for _, z := range zeros {
				for _, y := range small {
					ry := c6rat(y)
					cmp := zero.Cmp(ry)
					for _, op := range []string{"<", "<=", "==", "!=", ">=", ">"} {
						want := map[string]bool{"<": cmp < 0, "<=": cmp <= 0, "==": cmp == 0, "!=": cmp != 0, ">=": cmp >= 0, ">": cmp > 0}[op]
						cases = append(cases, c6case{expr: z + " " + op + " " + y, class: "cmp-computed-zero", check: c6wantBool(want)})
						wantR := map[string]bool{"<": cmp > 0, "<=": cmp >= 0, "==": cmp == 0, "!=": cmp != 0, ">=": cmp <= 0, ">": cmp < 0}[op]
						cases = append(cases, c6case{expr: y + " " + op + " " + z, class: "cmp-computed-zero", check: c6wantBool(wantR)})
					}
					c.Nontrivial("zero|" + z + "|" + y)
				}
				// as a value checked against bounds, and against another computed zero
				cases = append(cases, c6case{expr: "(>=0 & <=0 & " + z + ") == 0", class: "cmp-computed-zero", check: c6wantBool(true)})
				cases = append(cases, c6case{expr: "(" + z + " & 0) != _|_ || (" + z + " & 0.0) != _|_", class: "cmp-computed-zero", check: c6wantBool(true)})
				for _, z2 := range zeros {
					cases = append(cases, c6case{expr: z + " == " + z2, class: "cmp-computed-zero", check: c6wantBool(true)})
					cases = append(cases, c6case{expr: z + " < " + z2, class: "cmp-computed-zero", check: c6wantBool(false)})
				}
			}
			c6runBatch(c, cuecontext.New(), cases, "")
		}
		// 2. random pairs
		nPairs := c.N(2500, 120000)
		batches := 64
		c.Par(batches, func(b int) {
			r := c.RNG(fmt.Sprintf("pairs-%d", b))
			ctx := cuecontext.New()
			var cases []c6case
			for k := 0; k < nPairs/batches; k++ {
				x, y := c6operand(r), c6operand(r)
				c6arith(x, y, &cases)
				if len(x)+len(y) > 2 {
					c.Nontrivial(x + "|" + y)
				}
				if len(cases) > 200 {
					c6runBatch(c, ctx, cases, "")
					cases = cases[:0]
				}
				if b == 0 && k < 2 {
					c.Sample(map[string]any{"a": x, "b": y, "ops": "+ - * / div mod quo rem < <= == != >= >"})
				}
			}
			c6runBatch(c, ctx, cases, "")
		})
		// 3. order axioms on triples (evaluated by cue), strings, bytes, literals, builtins
		nOther := c.N(3000, 150000)
		c.Par(batches, func(b int) {
			r := c.RNG(fmt.Sprintf("other-%d", b))
			ctx := cuecontext.New()
			var cases []c6case
			var mcases []c6case
			var bcases []c6case
			for k := 0; k < nOther/batches; k++ {
				// triple: transitivity as evaluated by the implementation
				x, y, z := c6operand(r), c6operand(r), c6operand(r)
				if r.IntN(3) == 0 { // equal-by-value int/float pair
					if c6isIntLit(x) {
						y = x + ".0"
					}
				}
				rx, ry, rz := c6rat(x), c6rat(y), c6rat(z)
				_ = rz
				cases = append(cases, c6case{expr: fmt.Sprintf("[(%s) < (%s), (%s) == (%s), (%s) > (%s), (%s) <= (%s), (%s) <= (%s), (%s) <= (%s)]", x, y, x, y, x, y, x, y, y, z, x, z),
					class: "order-axioms", check: func(v cue.Value) (bool, string) {
						var bs []bool
						it, err := v.List()
						if err != nil {
							return false, "error: " + err.Error()
						}
						for it.Next() {
							bv, err := it.Value().Bool()
							if err != nil {
								return false, "error: " + err.Error()
							}
							bs = append(bs, bv)
						}
						if len(bs) != 6 {
							return false, "short list"
						}
						n := 0
						for _, t := range bs[:3] {
							if t {
								n++
							}
						}
						if n != 1 {
							return false, fmt.Sprintf("exactly one of <,==,> must hold, got %v", bs[:3])
						}
						if bs[3] != (bs[0] || bs[1]) {
							return false, "<= is not (< or ==)"
						}
						if bs[3] && bs[4] && !bs[5] {
							return false, "not transitive"
						}
						if want := rx.Cmp(ry); (want < 0) != bs[0] || (want == 0) != bs[1] {
							return false, "disagrees with the exact values"
						}
						return true, ""
					}})
				c6strCases(r, &cases)
				lit, val, isInt := c6literal(r)
				cases = append(cases, c6literalCase(lit, val, isInt))
				c.Nontrivial("lit|" + lit)
				if b == 1 && k < 2 {
					c.Sample(map[string]any{"literal": lit, "value": val.FloatString(6), "int": isInt})
				}
				c6builtins(r, &mcases)
				c6builtins2(r, &bcases)
				if len(cases) > 200 {
					c6runBatch(c, ctx, bcases, c6imports2)
					bcases = bcases[:0]
					c6runBatch(c, ctx, cases, "")
					cases = cases[:0]
					c6runBatch(c, ctx, mcases, "import \"math\"\n")
					mcases = mcases[:0]
				}
			}
			c6runBatch(c, ctx, cases, "")
			c6runBatch(c, ctx, mcases, "import \"math\"\n")
			c6runBatch(c, ctx, bcases, c6imports2)
		})
		// 4. list.Range over big integers, in worker processes
		{
			c6rangeMu.Lock()
			rc := c6rangeCases
			c6rangeCases = nil
			c6rangeMu.Unlock()
			sort.Slice(rc, func(i, j int) bool { return rc[i][0] < rc[j][0] })
			var cases []bcase
			for i, x := range rc {
				cases = append(cases, bcase{ID: fmt.Sprint(i), Op: "c06json", Src: "import \"list\"\nx: " + x[0] + "\n"})
			}
			if c.ASLimitKB == 0 {
				c.ASLimitKB = 4 << 20
			}
			res := c.RunBatch(cases, 20*time.Second)
			for i, x := range rc {
				c.Eval(1)
				c.Count("class:builtin-list.Range", 1)
				r := res[fmt.Sprint(i)]
				key := "C06|builtin-list.Range|" + x[0]
				switch {
				case r == nil:
					c.Count("range_case_missing", 1)
				case r.Status != "ok":
					c.Violate(key, fmt.Sprintf("builtin-list.Range: %s does not finish (%s within 20 s / 4 GiB): %s", x[0], r.Status, trunc9(r.Crash, 300)), map[string]any{"expr": x[0]})
				case r.Out["err"] != nil:
					c.Violate(key, fmt.Sprintf("builtin-list.Range: %s  →  error: %v", x[0], r.Out["err"]), map[string]any{"expr": x[0]})
				case r.Out["json"] != x[1]:
					c.Violate(key, fmt.Sprintf("builtin-list.Range: %s  →  got %v want %s", x[0], r.Out["json"], x[1]), map[string]any{"expr": x[0]})
				}
			}
		}
	})
}
