package main

// C05 – field constraints, patterns and closedness admit exactly what the spec allows.
//
// Model: an independent membership checker written from spec §Closed structs, §Embedding, §Definitions and
// hidden fields, §Field constraints (not from typocheck.go): a schema is a conjunction of struct bodies reached
// as a literal, through close() or through a definition reference; embeddings widen the enclosing body.

import (
	"fmt"
	"math/rand/v2"
	"regexp"
	"sort"
	"strings"

	"cuelang.org/go/cue"
	"cuelang.org/go/cue/cuecontext"
	"cuelang.org/go/verifh/mon"
)

type c5val struct {
	leaf string  // "int","string","1","\"x\"" or "" if struct
	conj *c5conj // struct value: literal, close(literal) or reference to a definition
}
type c5fld struct {
	label  string
	marker string // "", "?", "!"
	val    c5val
}
type c5pat struct {
	pat string // `string`, `=~"^a"`, `"a"|"b"`
	val c5val
}
type c5sch struct {
	fields   []c5fld
	pats     []c5pat
	ellipsis bool
	embeds   []c5conj
	hidden   bool // also declares _h: 1 and #h: 1 (never restricted)
}
type c5conj struct {
	kind string // "lit","close","def"
	s    *c5sch
}

var c5labels = []string{"a", "b", "c"}
var c5leaves = []string{"int", "string", "1", `"x"`}
var c5pats = []string{`string`, `=~"^a"`, `"a"|"b"`}
var c5reA = regexp.MustCompile("^a")

// c5hint fixes, per case, the kind of value a label has at every depth (so that conjuncts mostly agree and the
// verdict is decided by closedness, requiredness and patterns rather than by kind conflicts).
type c5hint map[string]string

func c5genHint(r *rand.Rand) c5hint {
	h := c5hint{}
	if r.IntN(5) == 0 {
		return h // unconstrained: conflicts are frequent
	}
	for _, l := range c5labels {
		h[l] = []string{"int", "string", "struct", "struct", ""}[r.IntN(5)]
	}
	return h
}

func c5genVal(r *rand.Rand, depth int, h c5hint, label string) c5val {
	k := h[label]
	if depth > 0 && (k == "struct" || k == "" && r.IntN(3) == 0) {
		c := c5genConj(r, depth-1, r.IntN(3) == 0, h)
		return c5val{conj: &c}
	}
	switch k {
	case "int":
		return c5val{leaf: []string{"int", "1"}[r.IntN(2)]}
	case "string":
		return c5val{leaf: []string{"string", `"x"`}[r.IntN(2)]}
	}
	return c5val{leaf: c5leaves[r.IntN(len(c5leaves))]}
}

func c5genSch(r *rand.Rand, depth int, allowEmbed bool, h c5hint) *c5sch {
	s := &c5sch{}
	for _, l := range c5labels {
		if r.IntN(3) == 0 {
			m := []string{"", "", "?", "!"}[r.IntN(4)]
			s.fields = append(s.fields, c5fld{l, m, c5genVal(r, depth, h, l)})
		}
	}
	if r.IntN(4) == 0 {
		p := c5pats[r.IntN(len(c5pats))]
		// the value of a pattern follows the hint of one label it matches
		var ms []string
		for _, l := range c5labels {
			if c5patMatch(p, l) {
				ms = append(ms, l)
			}
		}
		s.pats = append(s.pats, c5pat{p, c5genVal(r, depth, h, ms[r.IntN(len(ms))])})
	}
	if r.IntN(6) == 0 {
		s.ellipsis = true
	}
	if r.IntN(8) == 0 {
		s.hidden = true
	}
	if allowEmbed && r.IntN(3) == 0 {
		s.embeds = append(s.embeds, c5genConj(r, depth, false, h))
	}
	return s
}

func c5genConj(r *rand.Rand, depth int, allowEmbed bool, h c5hint) c5conj {
	k := []string{"lit", "close", "def"}[r.IntN(3)]
	return c5conj{k, c5genSch(r, depth, allowEmbed, h)}
}

// c5genDeep: one struct body with a flat embedding (no struct-valued fields, so outside the nested-under-embedding
// cut) and one or two chains of nested structs three levels deep, each level literal, close() or a definition.
func c5genDeep(r *rand.Rand) c5conj {
	leaf := func() c5val { return c5val{leaf: c5leaves[r.IntN(len(c5leaves))]} }
	var chain func(d int) c5conj
	chain = func(d int) c5conj {
		s := &c5sch{}
		perm := r.Perm(len(c5labels))
		if d > 0 {
			c := chain(d - 1)
			s.fields = append(s.fields, c5fld{c5labels[perm[0]], []string{"", "?", "?", "!"}[r.IntN(4)], c5val{conj: &c}})
		} else {
			s.fields = append(s.fields, c5fld{c5labels[perm[0]], []string{"", "?", "?", "!"}[r.IntN(4)], leaf()})
		}
		if r.IntN(2) == 0 {
			s.fields = append(s.fields, c5fld{c5labels[perm[1]], []string{"", "?", "!"}[r.IntN(3)], leaf()})
		}
		if r.IntN(8) == 0 {
			s.pats = append(s.pats, c5pat{c5pats[r.IntN(len(c5pats))], leaf()})
		}
		if r.IntN(12) == 0 {
			s.ellipsis = true
		}
		return c5conj{[]string{"lit", "lit", "close", "def"}[r.IntN(4)], s}
	}
	body := &c5sch{}
	perm := r.Perm(len(c5labels))
	for i := 0; i < 1+r.IntN(2); i++ {
		c := chain(1 + r.IntN(2))
		body.fields = append(body.fields, c5fld{c5labels[perm[i]], []string{"", "?", "!"}[r.IntN(3)], c5val{conj: &c}})
	}
	if r.IntN(10) < 7 {
		e := &c5sch{}
		for _, l := range c5labels {
			if r.IntN(4) == 0 {
				e.fields = append(e.fields, c5fld{l, []string{"", "?", "!"}[r.IntN(3)], leaf()})
			}
		}
		if r.IntN(10) == 0 {
			e.ellipsis = true
		}
		body.embeds = append(body.embeds, c5conj{[]string{"lit", "close", "def"}[r.IntN(3)], e})
	}
	return c5conj{[]string{"def", "def", "def", "close", "lit"}[r.IntN(5)], body}
}

// c5guided builds data that follows the schema (present fields get a fitting concrete value), then perturbs it:
// extra fields, dropped fields, changed values - so that closedness and requiredness decide the verdict.
func c5guided(r *rand.Rand, conjs []c5conj, depth int) c5data {
	d := c5data{}
	type seen struct {
		leafs []string
		subs  []c5conj
		need  bool
	}
	info := map[string]*seen{}
	var walk func(c c5conj)
	walk = func(c c5conj) {
		for _, e := range c.s.embeds {
			walk(e)
		}
		for _, f := range c.s.fields {
			x := info[f.label]
			if x == nil {
				x = &seen{}
				info[f.label] = x
			}
			if f.marker == "!" {
				x.need = true
			}
			if f.val.conj != nil {
				x.subs = append(x.subs, *f.val.conj)
			} else {
				x.leafs = append(x.leafs, f.val.leaf)
			}
		}
	}
	for _, c := range conjs {
		walk(c)
	}
	for _, l := range c5labels {
		x := info[l]
		switch {
		case x == nil:
			if r.IntN(4) == 0 { // a field nobody names: decided by closedness and patterns
				if depth > 0 && r.IntN(3) == 0 {
					d[l] = c5genData(r, depth-1)
				} else {
					d[l] = []string{"1", `"x"`}[r.IntN(2)]
				}
			}
		case x.need || r.IntN(2) == 0:
			if len(x.leafs) > 0 {
				if x.leafs[0] == "int" || x.leafs[0] == "1" {
					d[l] = "1"
				} else {
					d[l] = `"x"`
				}
			} else if depth > 0 {
				d[l] = c5guided(r, x.subs, depth-1)
			} else {
				d[l] = c5data{}
			}
		}
	}
	if r.IntN(10) == 0 && len(d) > 0 {
		delete(d, c5labels[r.IntN(len(c5labels))])
	}
	return d
}

// ----- printing -----
type c5printer struct {
	defs []string
	// a definition body that occurs several times in a case (same *c5sch) is one definition reached along
	// several routes
	names map[*c5sch]string
}

func (p *c5printer) val(v c5val) string {
	if v.conj != nil {
		return p.conj(*v.conj)
	}
	return v.leaf
}

func (p *c5printer) sch(s *c5sch) string {
	var parts []string
	for _, e := range s.embeds {
		parts = append(parts, p.conj(e))
	}
	for _, f := range s.fields {
		parts = append(parts, fmt.Sprintf("%s%s: %s", f.label, f.marker, p.val(f.val)))
	}
	for _, pt := range s.pats {
		parts = append(parts, fmt.Sprintf("[%s]: %s", pt.pat, p.val(pt.val)))
	}
	if s.hidden {
		parts = append(parts, "_h: 1", "#h: 1")
	}
	if s.ellipsis {
		parts = append(parts, "...")
	}
	return "{" + strings.Join(parts, ", ") + "}"
}

func (p *c5printer) conj(c c5conj) string {
	switch c.kind {
	case "lit":
		return p.sch(c.s)
	case "close":
		return "close(" + p.sch(c.s) + ")"
	default:
		if n, ok := p.names[c.s]; ok {
			return n
		}
		name := fmt.Sprintf("#D%d", len(p.defs))
		if p.names == nil {
			p.names = map[*c5sch]string{}
		}
		p.names[c.s] = name
		p.defs = append(p.defs, "")
		idx := len(p.defs) - 1
		p.defs[idx] = name + ": " + p.sch(c.s)
		return name
	}
}

// ----- data -----
type c5data map[string]any // "1", "\"x\"" or c5data

func c5genData(r *rand.Rand, depth int) c5data {
	d := c5data{}
	for _, l := range c5labels {
		if r.IntN(2) == 0 {
			if depth > 0 && r.IntN(3) == 0 {
				d[l] = c5genData(r, depth-1)
			} else {
				d[l] = []string{"1", `"x"`}[r.IntN(2)]
			}
		}
	}
	return d
}

func c5printData(d c5data) string {
	var ks []string
	for k := range d {
		ks = append(ks, k)
	}
	sort.Strings(ks)
	var parts []string
	for _, k := range ks {
		switch v := d[k].(type) {
		case string:
			parts = append(parts, k+": "+v)
		case c5data:
			parts = append(parts, k+": "+c5printData(v))
		}
	}
	return "{" + strings.Join(parts, ", ") + "}"
}

// ----- model -----
// c5unit: one closing event - a reference to a definition (closes every struct written inside the definition,
// at every depth) or a close() call (closes the one struct it is applied to).
type c5unit struct {
	id       int
	oneLevel bool
	weakV1   bool // definition whose body embeds close({..., ...}): finding embedded-close-ellipsis
	weakV3   bool // definition embedded in a literal value written in a definition body that has embeddings
	// chain: the embeddings (embedded body id, embedder id) crossed on the way from the conjunct to the closing event
	chain [][2]int
}

// c5body: one occurrence of a struct body at one path of the result.
type c5body struct {
	s  *c5sch
	id int
	// units: the closing events this body is written inside of.  The bodies of one unit at one path are one closed
	// struct: a field is allowed by the unit if any of them (or a struct they are embedded in) names it.
	units []*c5unit
	// inside: ids of the bodies this one is written inside of (through nesting or embedding)
	inside map[int]bool
	// chain: as for units, for this body
	chain [][2]int
	// fragile: a literal field value declared by a body that has embeddings (variant v3)
	fragile bool
	// opened: below a level at which variant v2 applied
	opened bool
	// ghosts (variant v4): recursive closing events inherited from a level at which they admitted the field only
	// through widening; they restrict this body but its names do not count for them
	ghosts []*c5unit
	// root: the body at this path whose literal (transitively) embeds this one: "embeddings widen the enclosing struct"
	root int
}

type c5inst struct {
	s    *c5sch
	kind string
}

type c5model struct {
	next int
	o    c5opts
}

func c5patMatch(p, f string) bool {
	switch p {
	case `string`:
		return true
	case `=~"^a"`:
		return c5reA.MatchString(f)
	case `"a"|"b"`:
		return f == "a" || f == "b"
	}
	panic(p)
}

// c5opts: interpretation switches for the places the spec leaves open (see DESIGN §4 C05).
type c5opts struct {
	embedDefClosesLiteral bool // {#D, b: {...}}: the literal's own nested structs become recursively closed
	// the recorded deviations of the pinned tree (known_findings.jsonl, C05): a disagreement with the strict model is
	// attributed to one of them only if the evaluator agrees exactly with the model under that variant
	v1 bool // a definition whose body embeds close({..., ...}) does not close its nested structs
	v2 bool // where an embedding is involved, an ellipsis in one conjunct of a field opens the closed conjuncts too
	v4 bool // a recursive closing event persists below a field it admitted only through widening
	v3 bool // {#D2, ...} / {close(...), ...} as a field value of a body that has embeddings: the embedded struct does not close
}

func (m *c5model) fresh() int { m.next++; return m.next }

func c5with(set map[int]bool, id int) map[int]bool {
	out := map[int]bool{id: true}
	for k := range set {
		out[k] = true
	}
	return out
}

// enter returns the units of a body of the given kind written inside a body with units outer at chain.
func (m *c5model) enter(kind string, s *c5sch, outer []*c5unit, chain [][2]int) []*c5unit {
	units := append([]*c5unit{}, outer...)
	switch kind {
	case "def":
		u := &c5unit{id: m.fresh(), chain: chain}
		for _, e := range s.embeds {
			if e.kind == "close" && e.s.ellipsis {
				u.weakV1 = true
			}
		}
		units = append(units, u)
	case "close":
		units = append(units, &c5unit{id: m.fresh(), oneLevel: true, chain: chain})
	}
	return units
}

// expand adds the textual embeddings of b (transitively) to the bodies at this path.
func (m *c5model) expand(b c5body, out *[]c5body) {
	if b.root == 0 {
		b.root = b.id
	}
	*out = append(*out, b)
	for _, e := range b.s.embeds {
		id := m.fresh()
		eb := c5body{s: e.s, id: id, inside: c5with(b.inside, b.id), root: b.root}
		eb.chain = append(append([][2]int{}, b.chain...), [2]int{id, b.id})
		eb.units = m.enter(e.kind, e.s, b.units, eb.chain)
		if e.kind != "lit" && b.fragile {
			eb.units[len(eb.units)-1].weakV3 = true
		}
		m.expand(eb, out)
	}
}

func (b c5body) names(f string) bool {
	for _, fl := range b.s.fields {
		if fl.label == f {
			return true
		}
	}
	for _, p := range b.s.pats {
		if c5patMatch(p.pat, f) {
			return true
		}
	}
	return false
}

func (b c5body) in(u *c5unit) bool {
	for _, x := range b.units {
		if x == u {
			return true
		}
	}
	return false
}

// c5exempt: contributor c of a field is outside an embedding that the closing event is in, but inside the struct
// that embeds it: "An embedded value of type struct is unified with the struct in which it is embedded, but
// disregarding the restrictions imposed by closed structs" (spec §Embedding).
func c5exempt(c c5body, u *c5unit) bool {
	for _, e := range u.chain {
		inE := c.id == e[0] || c.inside[e[0]]
		inEmbedder := c.id == e[1] || c.inside[e[1]]
		if !inE && inEmbedder {
			return true
		}
	}
	return false
}

type c5level struct {
	all    []c5body
	o      c5opts
	opened bool
}

func (l *c5level) units() []*c5unit {
	var out []*c5unit
	seen := map[*c5unit]bool{}
	for _, b := range l.all {
		for _, u := range append(append([]*c5unit{}, b.units...), b.ghosts...) {
			if !seen[u] {
				seen[u] = true
				out = append(out, u)
			}
		}
	}
	return out
}

// allowed reports whether a present field f is admitted by every closing event at this level: some body of the
// closed struct - or a body that widens it: one outside an embedding the closing event is in, but inside the struct
// that embeds it - names f or has an ellipsis.
func (l *c5level) allowed(f string) bool {
	if l.opened {
		return true
	}
	for _, u := range l.units() {
		if l.o.v3 && u.weakV3 {
			continue
		}
		ok, okIn := false, false
		for _, w := range l.all {
			if w.s.ellipsis || w.names(f) {
				okIn = okIn || w.in(u)
				ok = ok || w.in(u) || c5exempt(w, u)
			}
			if l.o.v2 && w.s.ellipsis && (len(w.chain) > 0 || len(u.chain) > 0) {
				ok, okIn = true, true
			}
		}
		if !ok {
			return false
		}
		// the embedded value must be valid on its own: a field contributed from inside the innermost embedding the
		// closing event is in has to be allowed by the closed struct itself, widening comes afterwards
		if !okIn && len(u.chain) > 0 {
			ek := u.chain[len(u.chain)-1][0]
			for _, c := range l.all {
				if c.id != ek && !c.inside[ek] {
					continue
				}
				for _, fl := range c.s.fields {
					if fl.label == f && fl.marker != "?" {
						return false
					}
				}
			}
		}
	}
	return true
}

func (m *c5model) top(insts []c5inst) []c5body {
	var out []c5body
	for _, c := range insts {
		out = append(out, c5body{s: c.s, id: m.fresh(), units: m.enter(c.kind, c.s, nil, nil)})
	}
	return out
}

// valid decides whether the conjunction of the bodies & data is a valid concrete struct, and returns the tree.
func (m *c5model) valid(bodies []c5body, data c5data, why *string) (c5data, bool) {
	l := &c5level{o: m.o}
	for _, b := range bodies {
		m.expand(b, &l.all)
	}
	openBelow := false
	if m.o.v2 {
		emb, ell := false, false
		for _, w := range l.all {
			ell = ell || w.s.ellipsis
			emb = emb || len(w.chain) > 0
			l.opened = l.opened || w.opened
		}
		openBelow = emb && ell
	}
	present := map[string]bool{}
	for k := range data {
		present[k] = true
	}
	for _, b := range l.all {
		for _, f := range b.s.fields {
			if f.marker == "" {
				present[f.label] = true
			}
		}
	}
	for _, b := range l.all {
		for _, f := range b.s.fields {
			if f.marker == "!" && !present[f.label] {
				*why = "required " + f.label
				return nil, false
			}
		}
	}
	out := c5data{}
	var fs []string
	for f := range present {
		fs = append(fs, f)
	}
	sort.Strings(fs)
	for _, f := range fs {
		if !l.allowed(f) {
			*why = "not allowed " + f
			return nil, false
		}
		var leafs []string
		var subs []c5body
		for _, b := range l.all {
			var outer []*c5unit
			for _, u := range b.units {
				if !u.oneLevel && !(m.o.v1 && u.weakV1) {
					outer = append(outer, u)
				}
			}
			if m.o.embedDefClosesLiteral {
				for _, w := range l.all {
					if w.root == b.root && (w.inside[b.id] || w.id == b.id) {
						for _, u := range w.units {
							if !u.oneLevel && !b.in(u) {
								outer = append(outer, u)
							}
						}
					}
				}
			}
			add := func(v c5val) {
				if v.conj == nil {
					leafs = append(leafs, v.leaf)
					return
				}
				sb := c5body{s: v.conj.s, id: m.fresh(), inside: c5with(b.inside, b.id), chain: b.chain}
				if m.o.v4 {
					for _, u := range l.units() {
						if u.oneLevel || b.in(u) {
							continue
						}
						own := false
						for _, w := range l.all {
							own = own || w.in(u) && (w.s.ellipsis || w.names(f))
						}
						if !own {
							sb.ghosts = append(sb.ghosts, u)
						}
					}
				}
				sb.fragile = len(b.s.embeds) > 0 && v.conj.kind == "lit"
				sb.opened = openBelow || b.opened
				sb.units = m.enter(v.conj.kind, v.conj.s, outer, b.chain)
				subs = append(subs, sb)
			}
			for _, fl := range b.s.fields {
				if fl.label == f {
					add(fl.val)
				}
			}
			for _, p := range b.s.pats {
				if c5patMatch(p.pat, f) {
					add(p.val)
				}
			}
		}
		var dsub c5data
		dataIsStruct := false
		if dv, ok := data[f]; ok {
			switch v := dv.(type) {
			case string:
				leafs = append(leafs, v)
			case c5data:
				dsub = v
				dataIsStruct = true
			}
		}
		if len(leafs) > 0 && (len(subs) > 0 || dataIsStruct) {
			*why = "leaf/struct conflict " + f
			return nil, false
		}
		if len(leafs) > 0 {
			kind, concrete := "", ""
			for _, lf := range leafs {
				k := "int"
				if lf == "string" || lf == `"x"` {
					k = "string"
				}
				if kind != "" && kind != k {
					*why = "kind conflict " + f
					return nil, false
				}
				kind = k
				if lf == "1" || lf == `"x"` {
					concrete = lf
				}
			}
			if concrete == "" {
				*why = "non-concrete " + f
				return nil, false
			}
			out[f] = concrete
			continue
		}
		if dsub == nil {
			dsub = c5data{}
		}
		sub, ok := m.valid(subs, dsub, why)
		if !ok {
			*why = f + "." + *why
			return nil, false
		}
		out[f] = sub
	}
	return out, true
}

func c5validate(insts []c5inst, data c5data, o c5opts) (c5data, bool, string) {
	m := &c5model{o: o}
	why := ""
	t, ok := m.valid(m.top(insts), data, &why)
	return t, ok, why
}

// c5allows: would a new regular field f be admitted by the schema alone?
func c5allows(insts []c5inst, f string) (allowed, named bool) {
	m := &c5model{}
	l := &c5level{}
	for _, b := range m.top(insts) {
		m.expand(b, &l.all)
	}
	for _, b := range l.all {
		for _, fl := range b.s.fields {
			named = named || fl.label == f
		}
	}
	return l.allowed(f), named
}

func c5anyClosed(insts []c5inst) bool {
	a, _ := c5allows(insts, "zz")
	return !a
}

// c5tree reads the regular fields of an evaluated value back.
func c5tree(v cue.Value) c5data {
	out := c5data{}
	it, err := v.Fields()
	if err != nil {
		return out
	}
	for it.Next() {
		fv := it.Value()
		if fv.IncompleteKind() == cue.StructKind {
			out[it.Selector().Unquoted()] = c5tree(fv)
		} else {
			out[it.Selector().Unquoted()] = fmt.Sprint(fv)
		}
	}
	return out
}

type c5case struct {
	conjs []c5conj
	data  c5data
}

func (k c5case) source() (src string, insts []c5inst) {
	p := &c5printer{}
	var exprs []string
	for _, c := range k.conjs {
		exprs = append(exprs, p.conj(c))
		insts = append(insts, c5inst{c.s, c.kind})
	}
	schema := strings.Join(exprs, " & ")
	src = strings.Join(p.defs, "\n") + "\nschema: " + schema + "\nout: " + schema + " & " + c5printData(k.data) + "\noutref: schema & " + c5printData(k.data) + "\n"
	return src, insts
}

// c5nestedUnderEmbedding: some embedded struct has a struct-valued field or pattern.  How the closedness of such
// nested values combines with the enclosing struct ("unified ... disregarding the restrictions imposed by closed
// structs") is not determined by the spec below the first level; these cases are compared and counted, not alarmed.
func c5nestedUnderEmbedding(k c5case) bool {
	var hasStruct func(s *c5sch) bool
	var walk func(s *c5sch) bool
	hasStruct = func(s *c5sch) bool {
		for _, f := range s.fields {
			if f.val.conj != nil {
				return true
			}
		}
		for _, p := range s.pats {
			if p.val.conj != nil {
				return true
			}
		}
		for _, e := range s.embeds {
			if hasStruct(e.s) {
				return true
			}
		}
		return false
	}
	walk = func(s *c5sch) bool {
		for _, e := range s.embeds {
			if hasStruct(e.s) || walk(e.s) {
				return true
			}
		}
		for _, f := range s.fields {
			if f.val.conj != nil && walk(f.val.conj.s) {
				return true
			}
		}
		for _, p := range s.pats {
			if p.val.conj != nil && walk(p.val.conj.s) {
				return true
			}
		}
		return false
	}
	for _, c := range k.conjs {
		if walk(c.s) {
			return true
		}
	}
	return false
}

func c5features(k c5case) string {
	var f []string
	seen := map[string]bool{}
	var walkS func(s *c5sch, depth int)
	var walkC func(c c5conj, depth int, embedded bool)
	add := func(x string) {
		if !seen[x] {
			seen[x] = true
			f = append(f, x)
		}
	}
	walkC = func(c c5conj, depth int, embedded bool) {
		tag := c.kind
		if embedded {
			tag = "embed-" + tag
		}
		if depth > 0 {
			tag = "nested-" + tag
		}
		add(tag)
		walkS(c.s, depth)
	}
	walkS = func(s *c5sch, depth int) {
		for _, fl := range s.fields {
			add("field" + fl.marker)
			if fl.val.conj != nil {
				walkC(*fl.val.conj, depth+1, false)
			}
		}
		for _, p := range s.pats {
			add("pattern")
			if p.val.conj != nil {
				walkC(*p.val.conj, depth+1, false)
			}
		}
		if s.ellipsis {
			add("...")
		}
		if s.hidden {
			add("hidden")
		}
		for _, e := range s.embeds {
			walkC(e, depth, true)
		}
	}
	for _, c := range k.conjs {
		walkC(c, 0, false)
	}
	add(fmt.Sprintf("conjuncts=%d", len(k.conjs)))
	sort.Strings(f)
	return strings.Join(f, ",")
}

func init() {
	register("C05", "exploration", func(c *Ctx) {
		c.Rule = "schema = conjunction of 1-3 struct bodies (literal, close(literal), reference to a definition) over labels {a,b,c} with regular/?/! fields, values {int,string,1,\"x\",nested body}, patterns {[string],[=~\"^a\"],[\"a\"|\"b\"]}, `...`, embeddings of literal/close()/definition, hidden and definition fields; data = every struct over the labels with values {1,\"x\",struct}; `schema & data` is validated with Concrete(true) and compared with an independent membership checker (allowed by every closed conjunct, constraints of matching fields satisfied, required present, ? ignored when absent); on success the regular field tree of the result must equal the model's; Allows(label) of the schema must equal the model's allowed(label). Non-trivial = distinct (schema, data) source with at least one closed conjunct."
		c.Assume = []string{"model = 200-line membership checker written from doc/ref/spec.md; where the spec is silent (a literal that embeds a definition: are the literal's own nested structs closed?) both readings are accepted and counted"}
		if c.Replay != nil {
			c.Inconclusive("replay: evaluate the source stored in the violation file with cue eval")
			return
		}
		check := func(ctx *cue.Context, k c5case, enumerated bool) {
			src, insts := k.source()
			defer mon.WAL(src)()
			treeA, wantA, whyA := c5validate(insts, k.data, c5opts{})
			root := ctx.CompileString(src)
			out := root.LookupPath(cue.ParsePath("out"))
			err := out.Validate(cue.Concrete(true))
			got := err == nil
			c.Eval(1)
			closedAny := c5anyClosed(insts)
			if closedAny {
				if enumerated {
					c.NontrivialN(1)
				} else {
					c.Nontrivial(src)
				}
			}
			for _, f := range strings.Split(c5features(k), ",") {
				c.Count("feature:"+f, 1)
			}
			if wantA {
				c.Count("model_accepts", 1)
			} else {
				c.Count("model_rejects:"+strings.TrimLeft(strings.SplitN(whyA, " ", 2)[0], "abc."), 1)
			}
			murky := c5nestedUnderEmbedding(k)
			if murky {
				c.Count("nested_under_embedding:cases", 1)
			}
			if got != wantA {
				// the reading the spec leaves open
				if _, wantB, _ := c5validate(insts, k.data, c5opts{embedDefClosesLiteral: true}); wantB == got {
					c.Count("spec_silent_embedded_definition_next_to_nested_literal", 1)
					return
				}
				// recorded deviations: the evaluator must agree exactly with one variant of the model
				for _, v := range []struct {
					key string
					o   c5opts
				}{
					{"embedded-close-ellipsis-in-definition", c5opts{v1: true}},
					{"ellipsis-conjunct-opens-closed-conjunct-under-embedding", c5opts{v2: true}},
					{"literal-embedding-definition-in-definition-body-with-embeddings", c5opts{v3: true}},
					{"recursive-closedness-persists-below-field-admitted-by-widening", c5opts{v4: true}},
					{"recursive-closedness-persists-below-field-admitted-by-widening", c5opts{v4: true, embedDefClosesLiteral: true}},
				} {
					if _, wantV, _ := c5validate(insts, k.data, v.o); wantV == got {
						if murky || v.o.v4 {
							c.Count("nested_under_embedding:agrees_with_variant:"+v.key, 1)
							if murky {
								return
							}
							break // v4 arises only under nested embeddings; elsewhere it explains nothing
						}
						c.Count("finding:"+v.key, 1)
						c.Violate("C05|"+v.key, fmt.Sprintf("model valid=%v, evaluator valid=%v, model variant %q valid=%v\n%s", wantA, got, v.key, wantV, src), map[string]any{"src": src})
						return
					}
				}
			}
			if got != wantA && murky {
				c.Count("nested_under_embedding:unexplained", 1)
				return
			}
			if got != wantA {
				msg := ""
				if err != nil {
					msg = err.Error()
				}
				c.Violate("C05|valid|"+src, fmt.Sprintf("model valid=%v (%s), evaluator valid=%v %s\n%s", wantA, whyA, got, msg, src), map[string]any{"src": src})
				return
			}
			// the same schema reached through a regular field must give the same verdict
			if gotRef := root.LookupPath(cue.ParsePath("outref")).Validate(cue.Concrete(true)) == nil; gotRef != got {
				embedsDef := false
				for _, cj := range k.conjs {
					if cj.kind != "def" {
						for _, e := range cj.s.embeds {
							embedsDef = embedsDef || e.kind == "def"
						}
					}
				}
				if got && !gotRef && embedsDef {
					key := "reference-to-literal-embedding-definition-closes-nested-structs"
					c.Count("finding:"+key, 1)
					c.Violate("C05|"+key, src, map[string]any{"src": src})
				} else {
					c.Violate("C05|ref|"+src, fmt.Sprintf("`S & data` valid=%v but `schema: S, schema & data` valid=%v\n%s", got, gotRef, src), map[string]any{"src": src})
				}
			}
			if got {
				gt := c5tree(out)
				if fmt.Sprint(gt) != fmt.Sprint(treeA) {
					c.Violate("C05|fields|"+src, fmt.Sprintf("result fields: model %v, evaluator %v\n%s", treeA, gt, src), map[string]any{"src": src})
				}
			}
			// Allows on the schema without the data
			schema := root.LookupPath(cue.ParsePath("schema"))
			if schema.Err() == nil {
				for _, l := range []string{"a", "b", "c", "zz"} {
					want, named := c5allows(insts, l)
					if named {
						continue // Allows answers true for a label that already has an arc, allowed or not
					}
					gotA := schema.Allows(cue.Str(l))
					if gotA && !want {
						c.Count("allows_over_approximates", 1) // Allows may answer true (ellipsis shortcut); only false is a claim
					}
					if !gotA && want {
						c.Violate("C05|allows|"+src+"|"+l, fmt.Sprintf("Allows(%s): model %v, evaluator %v\n%s", l, want, gotA, src), map[string]any{"src": src, "label": l})
					}
				}
				for _, sel := range []cue.Selector{cue.Hid("_zz", "_"), cue.Def("#zz")} {
					if !schema.Allows(sel) {
						c.Violate("C05|allows-hidden|"+src, fmt.Sprintf("Allows(%v) is false: hidden and definition fields are never restricted\n%s", sel, src), map[string]any{"src": src})
					}
				}
			}
		}
		run := func(cases []c5case, enumerated bool) {
			c.Par(64, func(b int) {
				ctx := cuecontext.New()
				n := 0
				for i := b; i < len(cases); i += 64 {
					n++
					if n%300 == 0 {
						ctx = cuecontext.New()
					}
					func() {
						defer func() {
							if rec := recover(); rec != nil {
								src, _ := cases[i].source()
								c.Violate("C05|panic|"+fmt.Sprint(rec), fmt.Sprintf("panic %v\n%s", rec, src), map[string]any{"src": src})
							}
						}()
						check(ctx, cases[i], enumerated)
					}()
				}
			})
		}
		// pinned witnesses of the recorded findings (known_findings.jsonl): every run reproduces them
		lf := func(l, m, leaf string) c5fld { return c5fld{l, m, c5val{leaf: leaf}} }
		sf := func(l, m, kind string, s *c5sch) c5fld { return c5fld{l, m, c5val{conj: &c5conj{kind, s}}} }
		empty := &c5sch{}
		run([]c5case{
			// #D0: {close({...}), c?: {c?: int}}; #D0 & {c: {a: 1}}
			{conjs: []c5conj{{"def", &c5sch{embeds: []c5conj{{"close", &c5sch{ellipsis: true}}}, fields: []c5fld{sf("c", "?", "lit", &c5sch{fields: []c5fld{lf("c", "?", "int")}})}}}}, data: c5data{"c": c5data{"a": "1"}}},
			// {{...}, a: {#D0}} & {a: {c: 1}}, #D0: {}
			{conjs: []c5conj{{"lit", &c5sch{embeds: []c5conj{{"lit", &c5sch{ellipsis: true}}}, fields: []c5fld{sf("a", "", "lit", &c5sch{embeds: []c5conj{{"def", empty}}})}}}}, data: c5data{"a": c5data{"c": "1"}}},
			// {{}, b: {c: 1}, b: {close({}), b?: int}}
			{conjs: []c5conj{{"lit", &c5sch{embeds: []c5conj{{"lit", empty}}, fields: []c5fld{sf("b", "", "lit", &c5sch{fields: []c5fld{lf("c", "", "1")}}), sf("b", "", "lit", &c5sch{embeds: []c5conj{{"close", empty}}, fields: []c5fld{lf("b", "?", "int")}})}}}}, data: c5data{}},
			// schema: {#D0} & {b!: {}}, #D0: {...}; schema & {b: {a: 1}}
			{conjs: []c5conj{{"lit", &c5sch{embeds: []c5conj{{"def", &c5sch{ellipsis: true}}}}}, {"lit", &c5sch{fields: []c5fld{sf("b", "!", "lit", empty)}}}}, data: c5data{"b": c5data{"a": "1"}}},
		}, true)
		// exhaustive: single conjunct, no nesting, every kind x every field/pattern/ellipsis choice x every flat data
		elabels := []string{"a", "b"}
		if c.Thorough {
			elabels = c5labels
		}
		enum := c5enumerate(elabels)
		c.Set("enumerated_pairs", len(enum))
		run(enum, true)
		// PRNG beyond
		r := c.RNG("random")
		var rnd []c5case
		for i := 0; i < c.N(250000, 4000000); i++ {
			nc := 1 + r.IntN(3)
			var k c5case
			h := c5genHint(r)
			for j := 0; j < nc; j++ {
				k.conjs = append(k.conjs, c5genConj(r, 1+r.IntN(3), true, h))
			}
			if r.IntN(4) == 0 {
				k.data = c5genData(r, 3)
			} else {
				k.data = c5guided(r, k.conjs, 3)
			}
			rnd = append(rnd, k)
		}
		run(rnd, false)
		// deep chains under a body with a flat embedding
		var deep []c5case
		r = c.RNG("deep")
		for i := 0; i < c.N(150000, 2000000); i++ {
			var k c5case
			k.conjs = append(k.conjs, c5genDeep(r))
			if r.IntN(4) == 0 {
				k.conjs = append(k.conjs, c5genConj(r, 1, false, c5hint{}))
			}
			k.data = c5guided(r, k.conjs, 3)
			deep = append(deep, k)
		}
		c.Set("deep_chain_cases", len(deep))
		run(deep, false)
		// wide schemas: one definition that embeds 2-28 mix-in definitions which all embed one shared base
		// definition (the same definition reaches the struct along many routes), unified with a second closed
		// conjunct: every present field has to be allowed by every closed conjunct however many there are
		var wide []c5case
		r = c.RNG("wide")
		for i := 0; i < c.N(4000, 60000); i++ {
			wide = append(wide, c5genWide(r))
		}
		c.Set("wide_schema_cases", len(wide))
		run(wide, false)
		wsrc, _ := wide[0].source()
		c.Sample(map[string]any{"wide_case": wsrc})
		src, _ := rnd[0].source()
		c.Sample(map[string]any{"random_case": src})
		if len(enum) > 0 {
			src, _ = enum[len(enum)/2].source()
			c.Sample(map[string]any{"enumerated_case": src})
		}
	})
}

// c5enumerate: every single-conjunct schema without nesting over the labels (leaves int and 1, one optional
// pattern, optional ellipsis, every kind) x every flat data struct over the labels.
func c5enumerate(labels []string) []c5case {
	type choice struct {
		present bool
		marker  string
		leaf    string
	}
	var choices []choice
	choices = append(choices, choice{})
	for _, m := range []string{"", "?", "!"} {
		for _, l := range []string{"int", "1"} {
			choices = append(choices, choice{true, m, l})
		}
	}
	var fieldSets [][]c5fld
	var rec func(i int, cur []c5fld)
	rec = func(i int, cur []c5fld) {
		if i == len(labels) {
			fieldSets = append(fieldSets, append([]c5fld{}, cur...))
			return
		}
		for _, ch := range choices {
			if ch.present {
				rec(i+1, append(cur, c5fld{labels[i], ch.marker, c5val{leaf: ch.leaf}}))
			} else {
				rec(i+1, cur)
			}
		}
	}
	rec(0, nil)
	var patSets [][]c5pat
	patSets = append(patSets, nil)
	for _, p := range c5pats {
		for _, l := range []string{"int", "1"} {
			patSets = append(patSets, []c5pat{{p, c5val{leaf: l}}})
		}
	}
	var datas []c5data
	var recD func(i int, cur c5data)
	recD = func(i int, cur c5data) {
		if i == len(labels) {
			d := c5data{}
			for k, v := range cur {
				d[k] = v
			}
			datas = append(datas, d)
			return
		}
		recD(i+1, cur)
		for _, v := range []string{"1", `"x"`} {
			cur[labels[i]] = v
			recD(i+1, cur)
			delete(cur, labels[i])
		}
	}
	recD(0, c5data{})
	var out []c5case
	for _, kind := range []string{"lit", "close", "def"} {
		for _, fs := range fieldSets {
			for _, ps := range patSets {
				for _, ell := range []bool{false, true} {
					s := &c5sch{fields: fs, pats: ps, ellipsis: ell}
					for _, d := range datas {
						out = append(out, c5case{conjs: []c5conj{{kind, s}}, data: d})
					}
				}
			}
		}
	}
	return out
}

// c5genWide: see the call site.
func c5genWide(r *rand.Rand) c5case {
	lf := func(l, m, leaf string) c5fld { return c5fld{l, m, c5val{leaf: leaf}} }
	n := 2 + r.IntN(27)
	base := &c5sch{fields: []c5fld{lf("id", "?", "string")}}
	if r.IntN(4) == 0 {
		base.pats = []c5pat{{`=~"^a"`, c5val{leaf: "int"}}}
	}
	all := &c5sch{}
	for i := 0; i < n; i++ {
		m := &c5sch{fields: []c5fld{lf(fmt.Sprintf("f%d", i), []string{"?", "?", "", "!"}[r.IntN(4)], "int")}}
		if r.IntN(5) != 0 {
			m.embeds = []c5conj{{"def", base}}
		}
		if i == n-1 && r.IntN(3) == 0 {
			m.pats = []c5pat{{`"a"|"b"`, c5val{leaf: "int"}}}
		}
		all.embeds = append(all.embeds, c5conj{"def", m})
	}
	k := c5case{conjs: []c5conj{{"def", all}}}
	// the second (and third) closed conjunct allows something else
	other := func() c5conj {
		o := &c5sch{fields: []c5fld{lf("g", "?", "int")}}
		for j := 0; j < r.IntN(3); j++ {
			o.fields = append(o.fields, lf(fmt.Sprintf("f%d", r.IntN(n)), "?", "int"))
		}
		if r.IntN(6) == 0 {
			o.fields = append(o.fields, lf("id", "?", "string"))
		}
		if r.IntN(10) == 0 {
			o.ellipsis = true
		}
		return c5conj{[]string{"def", "def", "close", "lit"}[r.IntN(4)], o}
	}
	for j := 0; j < r.IntN(3); j++ {
		if r.IntN(2) == 0 {
			k.conjs = append(k.conjs, other())
		} else {
			k.conjs = append([]c5conj{other()}, k.conjs...)
		}
	}
	// data: the required fields, plus one or two fields that some conjunct does not know
	k.data = c5data{}
	for _, e := range all.embeds {
		if f := e.s.fields[0]; f.marker == "!" || (f.marker == "" && r.IntN(2) == 0) {
			k.data[f.label] = "1"
		}
	}
	for j := 0; j < 1+r.IntN(2); j++ {
		switch r.IntN(6) {
		case 0:
			k.data["g"] = "1"
		case 1:
			k.data["id"] = `"x"`
		case 2:
			k.data["zz"] = "1"
		case 3:
			k.data["a"] = "1"
		default:
			k.data[fmt.Sprintf("f%d", r.IntN(n))] = "1"
		}
	}
	return k
}
