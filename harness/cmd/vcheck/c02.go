package main

// C02 – parsing, compiling, evaluating and exporting never crash and are repeatable.
// Process-fate monitor (isolated workers, write-ahead protocol, watchdog, address-space
// limit) + output digests compared across two in-process runs and a second process.

import (
	"crypto/sha256"
	"fmt"
	"math/rand/v2"
	"os"
	"os/exec"
	"path/filepath"
	"regexp"
	"runtime"
	"strings"
	"time"

	"cuelang.org/go/cue"
	"cuelang.org/go/cue/cuecontext"
	"cuelang.org/go/cue/format"
	"cuelang.org/go/cue/parser"
	"cuelang.org/go/encoding/yaml"
	"cuelang.org/go/verifh/gen"
	"cuelang.org/go/verifh/mon"
)

// c02pipeline runs the whole pipeline once in a fresh context and returns a transcript.
func c02pipeline(src string, api bool) (transcript string, stages map[string]bool) {
	stages = map[string]bool{}
	var sb strings.Builder
	f, err := parser.ParseFile("in.cue", src, parser.ParseComments)
	if err != nil {
		fmt.Fprintf(&sb, "parse error: %v\n", err)
		return sb.String(), stages
	}
	stages["parsed"] = true
	ctx := cuecontext.New()
	v := ctx.BuildFile(f)
	if err := v.Err(); err != nil {
		fmt.Fprintf(&sb, "build error: %v\n", err)
		if !v.Exists() {
			return sb.String(), stages
		}
	} else {
		stages["compiled"] = true
	}
	if err := v.Validate(); err != nil {
		fmt.Fprintf(&sb, "validate: %v\n", err)
	} else {
		stages["evaluated"] = true
	}
	if err := v.Validate(cue.Concrete(true)); err != nil {
		fmt.Fprintf(&sb, "validate concrete: %v\n", err)
	}
	for _, prof := range [][]cue.Option{{cue.Final()}, {cue.All()}, nil} {
		n := v.Syntax(prof...)
		b, err := format.Node(n)
		if err != nil {
			fmt.Fprintf(&sb, "format: %v\n", err)
		} else {
			sb.Write(b)
			sb.WriteByte('\n')
		}
	}
	if b, err := v.MarshalJSON(); err != nil {
		fmt.Fprintf(&sb, "json: %v\n", err)
	} else {
		stages["exported"] = true
		sb.Write(b)
		sb.WriteByte('\n')
	}
	if b, err := yaml.Encode(v); err != nil {
		fmt.Fprintf(&sb, "yaml: %v\n", err)
	} else {
		sb.Write(b)
	}
	if api {
		// a few value-deriving public API calls on the evaluated value
		u := v.Unify(v)
		fmt.Fprintf(&sb, "self-unify err=%v\n", u.Validate() != nil)
		it, err := v.Fields(cue.All())
		if err == nil {
			n := 0
			for it.Next() && n < 4 {
				n++
				w := v.FillPath(cue.MakePath(it.Selector()), ctx.CompileString("_"))
				fmt.Fprintf(&sb, "fill %v err=%v\n", it.Selector(), w.Err() != nil)
			}
		}
		w := v.FillPath(cue.MakePath(cue.Str("zzfresh")), ctx.CompileString("_"))
		fmt.Fprintf(&sb, "fill fresh err=%v\n", w.Validate() != nil)
	}
	return sb.String(), stages
}

func init() {
	batchOps["c02pipe"] = func(cs bcase) map[string]any {
		api := cs.Args["api"] == "1"
		t1, st := c02pipeline(cs.Src, api)
		t2, _ := c02pipeline(cs.Src, api)
		out := map[string]any{"digest": fmt.Sprintf("%x", sha256.Sum256([]byte(t1))), "same": t1 == t2, "len": len(t1)}
		if t1 != t2 {
			out["t1"], out["t2"] = trunc9(t1, 3000), trunc9(t2, 3000)
		}
		var ss []string
		for k := range st {
			ss = append(ss, k)
		}
		out["stages"] = ss
		return out
	}
}

var c02seeds = []string{
	"x: {>=1, a!: int}\n",
	"x: {>=1, a?: int}\n",
	"x: {<=2, [string]: int}\n",
	"#A: {#B, f: {string}}\n#B: {{#A}}\nout: #B\n",
	"#A: {#B, f: {string}}\n#B: {{#A}}\n#C: #A\n#C: {}\nout: #B\nout: #C\n",
	"a: b\nb: c\nc: a\n",
	"a: a + 1\n",
	"a: {b: a}\n",
	"#L: {next: #L | null}\nx: #L\n",
	"x: [for i in x {i}]\n",
	"x: {for k, v in x {(k): v}}\n",
	"a: *1 | a\n",
	"x: y & {a: 1}\ny: x & {b: 2}\n",
	"s: {a?: int}\nx: {for k, v in s {(k): v}} & _\n",
	"x: \"\\(x)\"\n",
	"x: len(x)\n",
	"import \"list\"\nx: list.Repeat([1], 1000000000)\n",
	"import \"strings\"\nx: strings.Repeat(\"a\", 2000000000)\n",
	"x: 1 & 2 & 3\nx: {a: 1}\n",
	"x: close({a: 1}) & {b: 2}\n[string]: int\n",
	"x: 10000000000000000000000000000000000000000 * 10000000000000000000000000000000000000000\n",
	"x: 1e999999999\n",
	"x: 1 / 0.0000000000000000000000000000000000000000000001\n",
	"x: div(1, 0)\ny: 1 / 0\nz: mod(5, 0)\n",
}

var c02bigNums = []string{"0", "1", "-1", "2", "255", "256", "65536", "1000000", "1000001", "2147483647", "2147483648", "4294967295", "4294967296",
	"9223372036854775807", "9223372036854775808", "9223372036854775809", "18446744073709551615", "18446744073709551616", "-9223372036854775808", "-9223372036854775809",
	"0x7fff_ffff_ffff_ffff", "0x8000_0000_0000_0000", "0xffff_ffff_ffff_ffff", "1e3", "1e19", "1e400", "0.5", "-0.5", "1.0", "9_223_372_036_854_775_808", "340282366920938463463374607431768211456"}

var c02templates = []string{
	`x: "ab" * $N`, `x: $N * "ab"`, `x: 'ab' * $N`, `x: $N * 'ab'`, `x: [1, 2] * $N`, `x: $N * [1]`, `n: $N` + "\n" + `x: "a" * n`, `n: $N` + "\n" + `x: n * [1]`,
	`import "strings"` + "\n" + `x: strings.Repeat("a", $N)`, `import "list"` + "\n" + `x: list.Repeat([1], $N)`, `import "list"` + "\n" + `x: list.Range(0, $N, 1)`,
	`import "list"` + "\n" + `x: list.Range(0, 10, $N)`, `import "list"` + "\n" + `x: list.Take([1, 2, 3], $N)`, `import "list"` + "\n" + `x: list.Drop([1, 2, 3], $N)`,
	`import "list"` + "\n" + `x: list.Slice([1, 2, 3], $N, $M)`, `import "list"` + "\n" + `x: list.FlattenN([[1, [2]]], $N)`,
	`x: [1, 2, 3][$N]`, `x: "abc"[$N]`, `import "strings"` + "\n" + `x: strings.SliceRunes("héllo", $N, $M)`, `import "strings"` + "\n" + `x: strings.ByteSlice("hello", $N, $M)`,
	`import "strings"` + "\n" + `x: strings.ByteAt("hello", $N)`, `import "strings"` + "\n" + `x: strings.SplitN("a,b,c", ",", $N)`, `import "strings"` + "\n" + `x: strings.Replace("aaa", "a", "b", $N)`,
	`import "strconv"` + "\n" + `x: strconv.FormatInt($N, $M)`, `import "strconv"` + "\n" + `x: strconv.ParseInt("12", $N, $M)`, `import "strconv"` + "\n" + `x: strconv.FormatFloat(1.5, 102, $N, $M)`,
	`import "math"` + "\n" + `x: math.Pow($N, $M)`, `import "math"` + "\n" + `x: math.Exp2($N)`, `import "math"` + "\n" + `x: math.Log($N)`, `import "math"` + "\n" + `x: math.Sqrt($N)`,
	`import "math/bits"` + "\n" + `x: bits.Lsh($N, $M)`, `import "math/bits"` + "\n" + `x: bits.Rsh($N, $M)`, `import "math/bits"` + "\n" + `x: bits.At($N, $M)`, `import "math/bits"` + "\n" + `x: bits.Set($N, $M, 1)`,
	`import "time"` + "\n" + `x: time.Unix($N, $M)`, `import "time"` + "\n" + `x: time.Duration($N)`, `import "encoding/base64"` + "\n" + `x: base64.Encode(null, "a" * $N)`,
	`x: div($N, $M)`, `x: mod($N, $M)`, `x: quo($N, $M)`, `x: rem($N, $M)`, `x: $N / $M`, `x: $N * $M`, `x: $N + $M`, `x: $N - $M`, `x: -$N`, `x: len("a" * $N)`,
	`import "text/tabwriter"` + "\n" + `x: tabwriter.Write("a	b" * $N)`, `import "net"` + "\n" + `x: net.IPCIDR("10.0.0.0/$N")`, `import "uuid"` + "\n" + `x: uuid.FromInt($N)`,
	`import "list"` + "\n" + `x: list.MinItems([1], $N)`, `import "struct"` + "\n" + `x: {a: 1} & struct.MaxFields($N)`, `import "strings"` + "\n" + `x: "ab" & strings.MinRunes($N)`,
	`x: [...int] & [1, 2]` + "\n" + `y: len(x) * $N`, `x: >=$N & <=$M & int`, `x: matchN($N, [int, string]) & 1`,
}

// c02boundary instantiates an operator/builtin template with boundary magnitudes.
func c02boundary(r *rand.Rand) string {
	t := c02templates[r.IntN(len(c02templates))]
	nums := c02bigNums
	for _, slow := range []string{"list.Range", "list.Repeat", "bits.Set", "bits.Lsh", "strconv.FormatFloat"} {
		// recorded unbounded builtins: each huge argument costs a 30 s watchdog, so they get one only now and then
		if strings.Contains(t, slow) && r.IntN(16) != 0 {
			nums = c02bigNums[:8]
		}
	}
	t = strings.ReplaceAll(t, "$N", nums[r.IntN(len(nums))])
	t = strings.ReplaceAll(t, "$M", nums[r.IntN(len(nums))])
	return t + "\n"
}

func c02deep(r *rand.Rand) string {
	n := 200 + r.IntN(1500)
	switch r.IntN(7) {
	case 0:
		return "x: " + strings.Repeat("[", n) + strings.Repeat("]", n) + "\n"
	case 1:
		return "x: " + strings.Repeat("{a: ", n) + "1" + strings.Repeat("}", n) + "\n"
	case 2:
		return "x: " + strings.Repeat("(", n) + "1" + strings.Repeat(")", n) + "\n"
	case 3:
		return "x: 1" + strings.Repeat(" + 1", n) + "\n"
	case 4:
		return "x: 1" + strings.Repeat(" | 2", n) + "\n"
	case 5:
		return "x: int" + strings.Repeat(" & >0", n) + "\n"
	default:
		return "x: " + strings.Repeat("a: ", n) + "1\n"
	}
}

// c02selfValidator: a validator (or another value-level construct) whose argument is an enclosing struct or list
// of the field it constrains, 0-60 struct/list levels below that ancestor: every printer and walker that guards
// against value-level cycles has to recognise the ancestor however deep the value sits.
func c02selfValidator(r *rand.Rand) string {
	depth := []int{0, 1, 2, 3, 7, 12, 15, 16, 17, 20, 31, 33, 40, 60}[r.IntN(14)]
	useList := r.IntN(4) == 0
	var open, closeS strings.Builder
	for i := 0; i < depth; i++ {
		if useList && i%2 == 1 {
			open.WriteString("[")
			closeS.WriteString("]")
		} else {
			fmt.Fprintf(&open, "{n%d: ", i)
			closeS.WriteString("}")
		}
	}
	anc := []string{"a", "a", "a.b", "top"}[r.IntN(4)]
	inner := []string{
		"matchIf(%s, {b: 1}, {b: 2})",
		"matchN(1, [%s])",
		"matchN(>=0, [%s, {b: 1}])",
		"and([%s, {b: 1}])",
		"or([%s, {b: 1}])",
		"close(%s)",
		"{%s}",
		"[...%s]",
		"%s & {b: 1}",
		"*%s | {b: 2}",
		"matchIf({b: 1}, %s, _)",
		"[%s, 1][0]",
		"{x: %s}.x",
		"[for x in [%s] {x}]",
		"len(%s)",
	}[r.IntN(15)]
	return fmt.Sprintf("top: {a: {b: 1, c: %s%s%s}}\na: top.a\n", open.String(), fmt.Sprintf(inner, anc), closeS.String())
}

func init() {
	register("C02", "exploration", func(c *Ctx) {
		c.Rule = "inputs <= 4 KiB: byte/token mutations of the frozen corpus, grammar token soups, PRNG programs of the core fragment (incl. erroneous ones), meaning-preserving rearrangements of evaluator testdata files (duplicated conjuncts, wrapped embeddings … – the shapes that revive fixed crash regressions), deep nestings / long chains, validators and other value-level constructs whose argument is an enclosing struct of their own field 0-60 levels up, hand-written adversarial seeds. Each input runs parse → build → Validate → Validate(Concrete) → Syntax(Final|All|default)+format → MarshalJSON → yaml.Encode (+ Unify/FillPath on the value) twice in one worker process (fresh contexts) and once more in a second process; monitors: process fate (write-ahead protocol identifies the input of a fatal error), 20 s watchdog per input re-confirmed alone with 90 s, 6 GiB address-space limit, recover() around every case; output digests must agree. A sample goes through the real cue binary (exit status 0/1, no panic text). Non-trivial = distinct input that got past the parser."
		c.Assume = []string{"'bounded time and memory' is decided against a fixed envelope for inputs <= 4 KiB, not asymptotically", "known crash sites are matched by call-site signature (innermost three cuelang.org/go frames), known hangs by input"}
		if c.Replay != nil {
			src, _ := c.Replay["input"].(string)
			c.ASLimitKB = 6 << 20
			res := c.RunBatch([]bcase{{ID: "r", Op: "c02pipe", Src: src, Args: map[string]string{"api": "1"}}}, 90*time.Second)
			c.Eval(1)
			c02judge(c, map[string]string{"r": src}, map[string]string{"r": "replay"}, res, nil)
			return
		}
		c.ASLimitKB = 6 << 20
		corpus := loadCorpus()
		if len(corpus) == 0 {
			c.Inconclusive("frozen corpus missing")
			return
		}
		inputs := map[string]string{}
		class := map[string]string{}
		add := func(id, src, cl string) {
			if len(src) > 4096 {
				return
			}
			inputs[id] = src
			class[id] = cl
		}
		for i, s := range c02seeds {
			add(fmt.Sprintf("seed%d", i), s, "adversarial-seed")
		}
		nMut := c.N(4000, 150000)
		nGen := c.N(2500, 60000)
		nRearr := c.N(1200, 20000)
		r := c.RNG("inputs")
		for i := 0; i < nMut; i++ {
			switch x := r.IntN(10); {
			case x < 6:
				add(fmt.Sprintf("m%d", i), c9mutate(r, corpus[r.IntN(len(corpus))].Src), "corpus-mutation")
			case x < 8:
				add(fmt.Sprintf("m%d", i), c9soup(r), "token-soup")
			case x < 9:
				add(fmt.Sprintf("m%d", i), c02deep(r), "deep-nesting")
			default:
				add(fmt.Sprintf("m%d", i), corpus[r.IntN(len(corpus))].Src, "corpus")
			}
		}
		for i := 0; i < nGen; i++ {
			add(fmt.Sprintf("g%d", i), gen.Program(r), "generated")
		}
		for i := 0; i < c.N(2000, 40000); i++ {
			add(fmt.Sprintf("b%d", i), c02boundary(r), "boundary-magnitudes")
		}
		for i := 0; i < c.N(600, 12000); i++ {
			add(fmt.Sprintf("v%d", i), c02selfValidator(r), "self-referential-validator")
		}
		// rearranged evaluator testdata (frozen stream: independent of the seed)
		var evalFiles []corpusFile
		for _, cf := range corpus {
			if strings.HasPrefix(cf.Name, "cue/testdata/") && !strings.Contains(cf.Src, "import ") && !strings.Contains(cf.Src, "@experiment") && len(cf.Src) < 4000 {
				evalFiles = append(evalFiles, cf)
			}
		}
		fr := mon.RNG(0, "C02", "rearranged") // frozen stream: quick evaluates a prefix of what thorough evaluates
		for i := 0; i < nRearr && len(evalFiles) > 0; i++ {
			cf := evalFiles[fr.IntN(len(evalFiles))]
			kinds := map[string]bool{}
			for _, kd := range gen.AllRearrangements {
				if fr.IntN(2) == 0 {
					kinds[kd] = true
				}
			}
			func() {
				defer func() { recover() }()
				if text, applied, ok := c01rearranged(fr, cf.Src, kinds); ok && len(applied) > 0 {
					add(fmt.Sprintf("r%d", i), text, "rearranged-testdata:"+cf.Name)
				}
			}()
		}
		if only := os.Getenv("VERIF_C02_ONLY"); only != "" { // calibration aid: restrict to one input class
			for id := range inputs {
				if !strings.HasPrefix(class[id], only) {
					delete(inputs, id)
				}
			}
		}
		var cases []bcase
		for id, src := range inputs {
			cases = append(cases, bcase{ID: id, Op: "c02pipe", Src: src, Args: map[string]string{"api": "1"}})
		}
		c.Set("inputs", len(cases))
		res := c.RunBatch(cases, 20*time.Second)
		// second process: a sample of the inputs again (cross-process repeatability)
		var again []bcase
		for _, cs := range cases {
			if r := res[cs.ID]; r != nil && r.Status == "ok" && (c.Thorough || monHash(cs.ID)[0] < '4') {
				again = append(again, cs)
			}
		}
		res2 := c.RunBatch(again, 30*time.Second)
		c02judge(c, inputs, class, res, res2)
		c02cli(c, inputs, res)
		n := 0
		for id, src := range inputs {
			if n < 3 && class[id] == "generated" {
				c.Sample(map[string]any{"class": class[id], "input": trunc9(src, 400)})
				n++
			}
		}
	})
}

// c02judge turns worker results into verdicts.
func c02judge(c *Ctx, inputs, class map[string]string, res, res2 map[string]*bres) {
	var recheck []bcase
	for id, src := range inputs {
		r := res[id]
		c.Eval(1)
		c.Count("class:"+strings.SplitN(class[id], ":", 2)[0], 1)
		rp := map[string]any{"input": src, "class": class[id]}
		if r == nil {
			c.Count("inconclusive_cases", 1)
			continue
		}
		switch r.Status {
		case "ok":
			if st, ok := r.Out["stages"].([]any); ok {
				for _, s := range st {
					c.Count("reached:"+fmt.Sprint(s), 1)
					if s == "parsed" {
						c.Nontrivial(src)
					}
				}
			}
			if same, _ := r.Out["same"].(bool); !same {
				rp["run1"], rp["run2"] = r.Out["t1"], r.Out["t2"]
				c.Violate("C02|nondeterministic|"+monHash(src), "two runs in one process (fresh contexts) produce different output", rp)
			}
			if r2 := res2[id]; r2 != nil && r2.Status == "ok" {
				c.Count("cross_process_compared", 1)
				if r2.Out["digest"] != r.Out["digest"] {
					c.Violate("C02|nondeterministic-xproc|"+monHash(src), "a second process produces different output for the same input", rp)
				}
			}
		case "panic":
			rp["crash"] = r.Crash
			c.Violate("C02|panic|"+r.Site, fmt.Sprintf("panic escapes the API: %s\n  at %s\n  input: %s", firstLine(r.Crash), r.Site, trunc9(src, 300)), rp)
		case "crash":
			rp["crash"] = r.Crash
			if k := c02resourceKey(class[id], src); k != "" && (strings.Contains(r.Crash, "out of memory") || strings.Contains(r.Crash, "cannot allocate") || r.Crash == "" || strings.Contains(r.Crash, "signal: killed")) {
				c.Violate(k, fmt.Sprintf("process dies of memory exhaustion: %s\n  input: %s", firstLine(r.Crash), trunc9(src, 200)), rp)
				continue
			}
			if k := c02selfKey(class[id], src, "crash"); k != "" {
				c.Violate(k, fmt.Sprintf("process dies: %s\n  at %s\n  input: %s", firstLine(r.Crash), r.Site, trunc9(src, 300)), rp)
				continue
			}
			c.Violate("C02|crash|"+r.Site, fmt.Sprintf("process dies: %s\n  at %s\n  input: %s", firstLine(r.Crash), r.Site, trunc9(src, 300)), rp)
		case "timeout":
			if k := c02selfKey(class[id], src, "timeout"); k != "" && c.IsKnown(k) {
				c.Violate(k, "recorded hang: "+trunc9(src, 200), rp)
				continue
			}
			if k := c02resourceKey(class[id], src); k != "" && c.IsKnown(k) {
				c.Violate(k, "recorded unbounded builtin", rp)
				continue
			}
			if cl, ok := strings.CutPrefix(class[id], "rearranged-testdata:"); ok && c.IsKnown("C02|timeout|rearranged:"+cl) {
				// a recorded hang: no need to spend another 90 s re-confirming it
				c.Violate("C02|timeout|rearranged:"+cl, "recorded hang", rp)
				continue
			}
			recheck = append(recheck, bcase{ID: id, Op: "c02pipe", Src: src, Args: map[string]string{"api": "1"}})
		}
	}
	if len(recheck) > 0 {
		c.Count("timeouts_first_pass", int64(len(recheck)))
		// re-confirm alone with a tripled limit (one worker per case so that they do not wait for each other)
		saved := c.Workers
		// the verdict must not depend on how busy the machine is: the limit of the re-confirmation grows with the
		// load average (a genuine hang still exceeds it, it only takes longer to say so)
		limit := 90 * time.Second
		if b, err := os.ReadFile("/proc/loadavg"); err == nil {
			var l1 float64
			fmt.Sscan(string(b), &l1)
			if f := 2 * l1 / float64(runtime.NumCPU()); f > 1 {
				if f > 7 {
					f = 7
				}
				limit = time.Duration(float64(limit) * f)
			}
		}
		c.Set("timeout_reconfirmation_limit_s", limit.Seconds())
		res3 := c.RunBatch(recheck, limit)
		c.Workers = saved
		for _, cs := range recheck {
			r := res3[cs.ID]
			rp := map[string]any{"input": cs.Src, "class": class[cs.ID]}
			switch {
			case r == nil:
				c.Count("inconclusive_cases", 1)
			case r.Status == "timeout":
				tkey := "C02|timeout|" + monHash(cs.Src)
				if k := c02resourceKey(class[cs.ID], cs.Src); k != "" {
					tkey = k
				}
				if cl, ok := strings.CutPrefix(class[cs.ID], "rearranged-testdata:"); ok {
					tkey = "C02|timeout|rearranged:" + cl // a hang is tied to the testdata file that was rearranged
				}
				if k := c02selfKey(class[cs.ID], cs.Src, "timeout"); k != "" {
					tkey = k
				}
				c.Violate(tkey, fmt.Sprintf("pipeline does not finish within 90 s on a %d byte input (re-confirmed alone): %s", len(cs.Src), trunc9(cs.Src, 300)), rp)
			case r.Status == "crash" || r.Status == "panic":
				rp["crash"] = r.Crash
				if k := c02resourceKey(class[cs.ID], cs.Src); k != "" && strings.Contains(r.Crash, "out of memory") {
					c.Violate(k, "process dies of memory exhaustion: "+trunc9(cs.Src, 200), rp)
					continue
				}
				if k := c02selfKey(class[cs.ID], cs.Src, "crash"); k != "" && r.Status == "crash" {
					c.Violate(k, fmt.Sprintf("process dies: %s at %s: %s", firstLine(r.Crash), r.Site, trunc9(cs.Src, 200)), rp)
					continue
				}
				c.Violate("C02|"+r.Status+"|"+r.Site, fmt.Sprintf("process dies: %s at %s", firstLine(r.Crash), r.Site), rp)
			default:
				c.Count("timeouts_not_reproduced", 1)
			}
		}
	}
}

// c02selfKey: in the self-referential-validator stream a hang or a fatal error is attributed to the construct
// whose argument is the enclosing struct (the evaluator does not see the structural cycle through it).
var c02selfRe = regexp.MustCompile(`(close\(|matchIf\(\{|matchIf\(|matchN\(1|matchN\(>=0|and\(\[|or\(\[|len\(|\[\.\.\.|\[for x in|\{x: |, 1\]\[0\]|& \{b: 1\}|\| \{b: 2\})`)

func c02selfKey(class, src, fate string) string {
	if class != "self-referential-validator" {
		return ""
	}
	t := "embedding"
	if m := c02selfRe.FindString(src); m != "" {
		t = strings.Trim(m, "([{ ,")
	}
	return "C02|self-referential-argument|" + t + "|" + fate
}

var c02callRe = regexp.MustCompile(`([a-z]+\.[A-Z][A-Za-z0-9]*)\(`)

// c02resourceKey: for the boundary-magnitude stream a hang or an out-of-memory death is attributed to the
// builtin that was given the huge argument (one recorded finding per unbounded builtin).
func c02resourceKey(class, src string) string {
	if class != "boundary-magnitudes" {
		return ""
	}
	if m := c02callRe.FindStringSubmatch(src); m != nil {
		return "C02|unbounded-builtin|" + m[1]
	}
	return ""
}

func firstLine(s string) string {
	if i := strings.IndexByte(s, '\n'); i >= 0 {
		return s[:i]
	}
	return s
}

// c02cli runs the real binary on a sample.
func c02cli(c *Ctx, inputs map[string]string, res map[string]*bres) {
	if c.CueBin == "" {
		return
	}
	dir := filepath.Join(os.Getenv("VERIF_RUNDIR"), "c02cli")
	os.MkdirAll(dir, 0o777)
	var ids []string
	for id := range inputs {
		if r := res[id]; r != nil && r.Status == "ok" && monHash(id)[0] < '1' {
			ids = append(ids, id)
		}
	}
	if len(ids) > 150 && !c.Thorough {
		ids = ids[:150]
	}
	c.Par(len(ids), func(i int) {
		id := ids[i]
		p := filepath.Join(dir, fmt.Sprintf("in%d.cue", i))
		os.WriteFile(p, []byte(inputs[id]), 0o666)
		defer os.Remove(p)
		for _, sub := range [][]string{{"eval", p}, {"export", p}} {
			cmd := exec.Command(c.CueBin, sub...)
			cmd.Env = append(os.Environ(), "CUE_CACHE_DIR="+filepath.Join(dir, "cache"), "HOME="+dir)
			done := make(chan struct{})
			var out []byte
			var err error
			go func() { out, err = cmd.CombinedOutput(); close(done) }()
			select {
			case <-done:
			case <-time.After(60 * time.Second):
				cmd.Process.Kill()
				<-done
				c.Count("cli_timeouts", 1)
				continue
			}
			c.Count("cli_runs", 1)
			code := 0
			if ee, ok := err.(*exec.ExitError); ok {
				code = ee.ExitCode()
			}
			s := string(out)
			if (code != 0 && code != 1) || strings.Contains(s, "panic:") || strings.Contains(s, "fatal error:") || strings.Contains(s, "goroutine ") {
				c.Violate("C02|cli|"+crashSite(s), fmt.Sprintf("cue %s: exit %d with crash output: %s", sub[0], code, trunc9(s, 400)), map[string]any{"input": inputs[id], "cmd": sub[0]})
			}
		}
	})
}
