package main

// C19 – Values are immutable: concurrent use gives sequential answers, no data races.
// Workers (race build) run the concurrent phases; the sequential baseline comes from other processes.

import (
	"crypto/sha256"
	"encoding/json"
	"fmt"
	"os"
	"path/filepath"
	"sort"
	"strings"
	"sync"
	"time"

	"cuelang.org/go/cue"
	"cuelang.org/go/cue/cuecontext"
	"cuelang.org/go/cue/format"
	"cuelang.org/go/encoding/yaml"
	"cuelang.org/go/internal/core/adt"
	"cuelang.org/go/internal/value"
	"cuelang.org/go/verifh/gen"
	"cuelang.org/go/verifh/mon"
)

func c19h(s string) string {
	h := sha256.Sum256([]byte(s))
	return fmt.Sprintf("%x", h[:6])
}

func c19paths(v cue.Value) []cue.Path {
	var out []cue.Path
	it, err := v.Fields(cue.All())
	if err != nil {
		return nil
	}
	for it.Next() {
		out = append(out, cue.MakePath(it.Selector()))
		if it.Value().IncompleteKind() == cue.StructKind {
			it2, err := it.Value().Fields(cue.All())
			if err == nil {
				for it2.Next() {
					out = append(out, cue.MakePath(it.Selector(), it2.Selector()))
				}
			}
		}
	}
	return out
}

type c19op struct {
	name string
	f    func(ctx *cue.Context, v cue.Value) string
}

// c19ops: read-only and value-deriving public API calls; each returns a result free of pointers and of
// ordering artefacts.
var c19ops = []c19op{
	{"LookupPath+Kind", func(_ *cue.Context, v cue.Value) string {
		var sb strings.Builder
		for _, p := range c19paths(v) {
			x := v.LookupPath(p)
			fmt.Fprint(&sb, p, x.Exists(), x.Kind(), x.IncompleteKind(), x.IsConcrete(), ";")
		}
		return sb.String()
	}},
	{"Walk+Default", func(_ *cue.Context, v cue.Value) string {
		var sb strings.Builder
		v.Walk(func(x cue.Value) bool {
			d, ok := x.Default()
			fmt.Fprint(&sb, x.Path(), x.IncompleteKind(), ok, d.Kind(), x.IsConcrete(), ";")
			return true
		}, nil)
		return sb.String()
	}},
	{"Validate", func(_ *cue.Context, v cue.Value) string {
		e1, e2 := v.Validate(), v.Validate(cue.Concrete(true))
		return fmt.Sprint(e1 == nil, e2 == nil, errText(e1), errText(e2))
	}},
	{"Err", func(_ *cue.Context, v cue.Value) string { return errText(v.Err()) }},
	{"Syntax(Final)", func(_ *cue.Context, v cue.Value) string {
		b, err := format.Node(v.Syntax(cue.Final()))
		return string(b) + fmt.Sprint(err == nil)
	}},
	{"Syntax(All)", func(_ *cue.Context, v cue.Value) string {
		b, err := format.Node(v.Syntax(cue.All()))
		return string(b) + fmt.Sprint(err == nil)
	}},
	{"Syntax()", func(_ *cue.Context, v cue.Value) string {
		b, err := format.Node(v.Syntax())
		return string(b) + fmt.Sprint(err == nil)
	}},
	{"MarshalJSON", func(_ *cue.Context, v cue.Value) string {
		b, err := v.MarshalJSON()
		return string(b) + errText(err)
	}},
	{"yaml.Encode", func(_ *cue.Context, v cue.Value) string {
		b, err := yaml.Encode(v)
		return string(b) + errText(err)
	}},
	{"Decode(map)", func(_ *cue.Context, v cue.Value) string {
		var m map[string]any
		err := v.Decode(&m)
		b, _ := json.Marshal(m)
		return string(b) + fmt.Sprint(err == nil)
	}},
	{"Decode(any)", func(_ *cue.Context, v cue.Value) string {
		var m any
		err := v.Decode(&m)
		b, _ := json.Marshal(m)
		return string(b) + fmt.Sprint(err == nil)
	}},
	{"Unify+FillPath", func(_ *cue.Context, v cue.Value) string {
		u := v.Unify(v)
		f := v.FillPath(cue.ParsePath("zz"), 1)
		return fmt.Sprint(u.Validate() == nil, f.LookupPath(cue.ParsePath("zz")).Exists(), v.LookupPath(cue.ParsePath("zz")).Exists())
	}},
	{"FillPath(sub)+Syntax", func(_ *cue.Context, v cue.Value) string {
		ps := c19paths(v)
		if len(ps) == 0 {
			return ""
		}
		f := v.FillPath(ps[0], v.LookupPath(ps[0]))
		b, _ := format.Node(f.Syntax(cue.Final()))
		return string(b)
	}},
	{"Expr+IsClosed+Allows", func(_ *cue.Context, v cue.Value) string {
		var sb strings.Builder
		for _, p := range c19paths(v) {
			x := v.LookupPath(p)
			o, args := x.Expr()
			fmt.Fprint(&sb, p, o, len(args), x.IsClosed(), x.Allows(cue.Str("qq")), x.Allows(cue.AnyString), ";")
		}
		return sb.String()
	}},
	{"Subsume+Equals", func(_ *cue.Context, v cue.Value) string { return fmt.Sprint(v.Subsume(v) == nil, v.Equals(v)) }},
	{"Fields(iter)", func(_ *cue.Context, v cue.Value) string {
		var sb strings.Builder
		it, err := v.Fields(cue.All())
		if err != nil {
			return errText(err)
		}
		for it.Next() {
			fmt.Fprint(&sb, it.Selector(), it.IsOptional(), it.Value().IncompleteKind(), ";")
		}
		return sb.String()
	}},
	{"Encode(container of v)", func(ctx *cue.Context, v cue.Value) string {
		// the shared value nested in Go containers: the conversion has to copy, never relabel, its vertex
		w := ctx.Encode(map[string]any{"k1": 1, "k2": v, "k3": []any{v, 2}})
		type wrap struct {
			F cue.Value `json:"f"`
		}
		x := ctx.Encode(wrap{F: v})
		return fmt.Sprint(w.LookupPath(cue.ParsePath("k2")).Exists(), w.LookupPath(cue.ParsePath("k3[0]")).Exists(), x.LookupPath(cue.ParsePath("f")).Exists(), v.Path().String(), w.LookupPath(cue.ParsePath("k2")).Path().String())
	}},
	{"FillPath(container of v)", func(ctx *cue.Context, v cue.Value) string {
		base := ctx.CompileString("{}")
		f := base.FillPath(cue.ParsePath("p.q"), map[string]any{"in": v, "l": []cue.Value{v}})
		return fmt.Sprint(f.LookupPath(cue.ParsePath("p.q.in")).Exists(), f.Err() == nil, v.Path().String())
	}},
	{"Path", func(_ *cue.Context, v cue.Value) string {
		var sb strings.Builder
		sb.WriteString(v.Path().String() + "|")
		it, err := v.Fields(cue.All())
		if err != nil {
			return sb.String() + errText(err)
		}
		for it.Next() {
			sb.WriteString(it.Value().Path().String() + ";")
		}
		return sb.String()
	}},
	{"ctx.Encode+Unify", func(ctx *cue.Context, v cue.Value) string {
		w := ctx.Encode(map[string]any{"a": 1, "zq": []int{1, 2}})
		u := v.Unify(w)
		return fmt.Sprint(u.Validate() == nil, w.LookupPath(cue.ParsePath("zq")).Exists())
	}},
}

func errText(err error) string {
	if err == nil {
		return ""
	}
	return err.Error()
}

func c19fingerprints(ctx *cue.Context, v cue.Value) []string {
	out := make([]string, len(c19ops))
	for i, o := range c19ops {
		out[i] = c19h(o.f(ctx, v))
	}
	return out
}

// c19unfinished reports whether some vertex of the evaluated value was not finalized by the evaluator.
func c19unfinished(v cue.Value) bool {
	v.Validate()
	root := value.Vertex(v)
	if root == nil {
		return false
	}
	seen := map[*adt.Vertex]bool{}
	var walk func(x *adt.Vertex, depth int) bool
	walk = func(x *adt.Vertex, depth int) bool {
		if x == nil || seen[x] || depth > 40 {
			return false
		}
		seen[x] = true
		if fmt.Sprint(x.Status()) != "finalized" {
			return true
		}
		for _, a := range x.Arcs {
			if walk(a, depth+1) {
				return true
			}
		}
		return false
	}
	return walk(root, 0)
}

func init() {
	// sequential baseline: fresh context, one goroutine
	batchOps["c19seq"] = func(cs bcase) map[string]any {
		ctx := cuecontext.New()
		v := ctx.CompileString(cs.Src)
		return map[string]any{"fp": c19fingerprints(ctx, v), "unfinished": c19unfinished(v)}
	}
	// concurrent phase on one shared value
	batchOps["c19conc"] = func(cs bcase) map[string]any {
		var G int
		fmt.Sscan(cs.Args["g"], &G)
		pre := cs.Args["pre"] == "1"
		var seed int64
		fmt.Sscan(cs.Args["seed"], &seed)
		ctx := cuecontext.New()
		v := ctx.CompileString(cs.Src)
		if pre {
			v.Validate()
		}
		type res struct {
			g, op int
			fp    string
		}
		var mu sync.Mutex
		var results []res
		var wg sync.WaitGroup
		start := make(chan struct{})
		for g := 0; g < G; g++ {
			wg.Add(1)
			go func(g int) {
				defer wg.Done()
				r := mon.RNG(seed, "C19", fmt.Sprint("g", g))
				order := r.Perm(len(c19ops))
				<-start
				if k := r.IntN(3); k > 0 { // start skew
					time.Sleep(time.Duration(r.IntN(200)) * time.Microsecond)
				}
				// also build values in an own context at the same time (cross-context interference)
				if g%3 == 2 {
					own := cuecontext.New()
					w := own.CompileString(cs.Src)
					fp := c19fingerprints(own, w)
					mu.Lock()
					for i, f := range fp {
						results = append(results, res{g, i, f})
					}
					mu.Unlock()
					return
				}
				for _, i := range order {
					fp := c19h(c19ops[i].f(ctx, v))
					mu.Lock()
					results = append(results, res{g, i, fp})
					mu.Unlock()
				}
			}(g)
		}
		close(start)
		wg.Wait()
		out := map[string]any{}
		calls := make([][3]any, 0, len(results))
		for _, r := range results {
			calls = append(calls, [3]any{r.g, r.op, r.fp})
		}
		out["calls"] = calls
		out["after"] = c19fingerprints(ctx, v) // the shared value is unchanged afterwards
		return out
	}
	// fresh-label rounds: goroutines released together intern a label nobody has seen before, then use it
	batchOps["c19fresh"] = func(cs bcase) map[string]any {
		var rounds, G int
		fmt.Sscan(cs.Args["rounds"], &rounds)
		fmt.Sscan(cs.Args["g"], &G)
		ctx := cuecontext.New()
		shared := ctx.CompileString("a: 1\nb: {c: 2}")
		wrong := 0
		var detail []string
		var mu sync.Mutex
		for round := 0; round < rounds; round++ {
			label := fmt.Sprintf("fresh_%s_%d", cs.Args["tag"], round)
			var wg sync.WaitGroup
			start := make(chan struct{})
			for g := 0; g < G; g++ {
				wg.Add(1)
				go func(g int) {
					defer wg.Done()
					<-start
					ok := true
					what := ""
					if g%2 == 0 {
						p := cue.ParsePath(label)
						filled := shared.FillPath(p, 42)
						x := filled.LookupPath(p)
						n, err := x.Int64()
						ok = x.Exists() && err == nil && n == 42
						what = "shared.FillPath(fresh, 42).LookupPath(fresh)"
					} else {
						own := cuecontext.New()
						w := own.CompileString(label + ": 7")
						x := w.LookupPath(cue.ParsePath(label))
						n, err := x.Int64()
						ok = x.Exists() && err == nil && n == 7
						what = "own context: CompileString(fresh: 7).LookupPath(fresh)"
					}
					if !ok {
						mu.Lock()
						wrong++
						if len(detail) < 5 {
							detail = append(detail, fmt.Sprintf("round %d goroutine %d: %s does not find the field", round, g, what))
						}
						mu.Unlock()
					}
				}(g)
			}
			close(start)
			wg.Wait()
		}
		return map[string]any{"wrong": wrong, "detail": detail, "calls": rounds * G}
	}
}

func init() {
	register("C19", "exploration", func(c *Ctx) {
		c.Rule = "programs of the core generator (incl. erroneous ones: values with several errors are what exposes shared error lists) and corpus files; per program: 2-16 goroutines, released together with PRNG start skew, run a PRNG permutation of 20 public API call groups (LookupPath/Kind, Walk/Default, Validate ×2, Err, Syntax Final/All/default + format, MarshalJSON, yaml.Encode, Decode into map and any, Unify/FillPath deriving new values, Expr/IsClosed/Allows, Subsume/Equals, Fields iteration, ctx.Encode, Encode and FillPath of Go maps/slices/structs that contain the shared value, Path of the value and of its fields) on one shared value – freshly compiled (finalised under contention) or already evaluated – while every third goroutine builds the same program in its own context; each call result is reduced to a fingerprint and compared with the fingerprints of a sequential run in a different process; the shared value is fingerprinted again afterwards; fresh-label rounds make goroutines intern a never-seen label at the same time and use it. All worker processes are built with -race; reports are read from the GORACE logs, de-duplicated by stack pair. Non-trivial = distinct program whose concurrent phase made >= 30 calls."
		c.Assume = []string{"the race detector only sees executed accesses; lock-free logic races show up only as wrong answers", "error text is part of the fingerprint of Validate/Err (it is deterministic in a sequential run)"}
		if c.Replay != nil {
			c.Inconclusive("replay by seed")
			return
		}
		nProg := c.N(150, 3000)
		var seq, conc []bcase
		srcs := map[string]string{}
		corpus := loadCorpus()
		r := c.RNG("programs")
		for k := 0; k < nProg; k++ {
			var src string
			if k%5 == 4 && len(corpus) > 0 {
				cf := corpus[r.IntN(len(corpus))]
				if !strings.HasPrefix(cf.Name, "cue/testdata/") || strings.Contains(cf.Src, "import ") || len(cf.Src) > 3000 {
					continue
				}
				src = cf.Src
			} else {
				src = gen.Program(r)
			}
			id := fmt.Sprintf("p%d", k)
			srcs[id] = src
			seq = append(seq, bcase{ID: id, Op: "c19seq", Src: src})
			for rep, g := range []int{2, 4, 8, 16, 3, 6} {
				if !c.Thorough && rep%2 == 1 && k%2 == 1 {
					continue
				}
				conc = append(conc, bcase{ID: fmt.Sprintf("%s/%d", id, rep), Op: "c19conc", Src: src,
					Args: map[string]string{"g": fmt.Sprint(g), "pre": fmt.Sprint(rep % 2), "seed": fmt.Sprint(c.Seed*1000 + int64(k*10+rep))}})
			}
			if k < 2 {
				c.Sample(map[string]any{"program": src, "goroutines": []int{2, 4, 8, 16, 3, 6}, "ops": len(c19ops)})
			}
		}
		base := c.RunBatch(seq, 60*time.Second)
		// values with vertices the evaluator could not finalize when the value was built are evaluated again on
		// access; their concurrent phases run in worker processes with their own race log (recorded finding)
		unfinished := map[string]bool{}
		var concFin, concUnf []bcase
		for _, cs := range conc {
			id := cs.ID[:strings.IndexByte(cs.ID, '/')]
			if b := base[id]; b != nil && b.Status == "ok" && b.Out["unfinished"] == true {
				unfinished[id] = true
				concUnf = append(concUnf, cs)
			} else {
				concFin = append(concFin, cs)
			}
		}
		c.Set("programs_with_unfinished_vertices", len(unfinished))
		got := c.RunBatch(concFin, 120*time.Second)
		unfPrefix := filepath.Join(os.Getenv("VERIF_RUNDIR"), "race-unfinished")
		c.BatchEnv = []string{"GORACE=halt_on_error=0 log_path=" + unfPrefix}
		for id, r := range c.RunBatch(concUnf, 120*time.Second) {
			got[id] = r
		}
		c.BatchEnv = nil
		toStrings := func(v any) []string {
			l, _ := v.([]any)
			out := make([]string, len(l))
			for i, x := range l {
				out[i] = fmt.Sprint(x)
			}
			return out
		}
		gHist := map[int]int{}
		for _, cs := range conc {
			id := cs.ID[:strings.IndexByte(cs.ID, '/')]
			b, g := base[id], got[cs.ID]
			if b == nil || b.Status != "ok" || g == nil || g.Status != "ok" {
				c.Count("inconclusive_cases", 1)
				if g != nil && g.Status != "ok" {
					c.Count("conc_"+g.Status, 1)
				}
				continue
			}
			want := toStrings(b.Out["fp"])
			calls, _ := g.Out["calls"].([]any)
			c.Eval(1)
			c.Count("calls", int64(len(calls)))
			var G int
			fmt.Sscan(cs.Args["g"], &G)
			gHist[G]++
			if cs.Args["pre"] == "0" {
				c.Count("values_unevaluated_at_start", 1)
			}
			rp := map[string]any{"program": srcs[id], "goroutines": G, "pre_evaluated": cs.Args["pre"]}
			for _, x := range calls {
				t, _ := x.([]any)
				if len(t) != 3 {
					continue
				}
				op := int(t[1].(float64))
				if fmt.Sprint(t[2]) != want[op] {
					if unfinished[id] {
						c.Count("unfinished_value_result_differs", 1)
						c.Violate("C19|unfinished-value", fmt.Sprintf("%s under %d goroutines returns something else than in a sequential run\n--- program\n%s", c19ops[op].name, G, trunc9(srcs[id], 1000)), rp)
						break
					}
					c.Violate("C19|result|"+c19ops[op].name+"|"+monHash(srcs[id]), fmt.Sprintf("%s under %d goroutines returns something else than in a sequential run\n--- program\n%s", c19ops[op].name, G, trunc9(srcs[id], 1000)), rp)
					break
				}
			}
			after := toStrings(g.Out["after"])
			for i := range after {
				if i < len(want) && after[i] != want[i] {
					if unfinished[id] {
						c.Count("unfinished_value_changed_after", 1)
						c.Violate("C19|unfinished-value", fmt.Sprintf("the shared value answers %s differently after the concurrent phase\n--- program\n%s", c19ops[i].name, trunc9(srcs[id], 1000)), rp)
						break
					}
					c.Violate("C19|changed-after|"+c19ops[i].name+"|"+monHash(srcs[id]), fmt.Sprintf("the shared value answers %s differently after the concurrent phase", c19ops[i].name), rp)
					break
				}
			}
			if len(calls) >= 30 {
				c.Nontrivial(srcs[id])
			}
		}
		c.Set("goroutine_count_histogram", gHist)
		// fresh-label rounds
		var fresh []bcase
		for i := 0; i < c.N(16, 64); i++ {
			fresh = append(fresh, bcase{ID: fmt.Sprintf("f%d", i), Op: "c19fresh", Args: map[string]string{"rounds": fmt.Sprint(c.N(400, 3000)), "g": fmt.Sprint(4 + 4*(i%3)), "tag": fmt.Sprintf("%d_%d", c.Seed, i)}})
		}
		fr := c.RunBatch(fresh, 300*time.Second)
		for _, cs := range fresh {
			r := fr[cs.ID]
			if r == nil || r.Status != "ok" {
				c.Count("inconclusive_cases", 1)
				continue
			}
			c.Eval(1)
			n, _ := r.Out["calls"].(float64)
			c.Count("fresh_label_calls", int64(n))
			if w, _ := r.Out["wrong"].(float64); w > 0 {
				c.Violate("C19|fresh-label", fmt.Sprintf("%v of %v calls using a label interned concurrently for the first time get a wrong answer: %v", w, n, r.Out["detail"]), map[string]any{"args": cs.Args})
			}
		}
		mon.RaceClass = func(k string) string {
			// both accesses inside the formatter's annotation pass or the AST position accessors it uses: the
			// syntax trees of two Syntax() calls share comment and attribute nodes, format.Node annotates them
			for _, side := range strings.Split(k, " || ") {
				top := side
				if i := strings.Index(side, "<"); i >= 0 {
					top = side[:i]
				}
				if !strings.Contains(top, "internal/pretty") && !strings.Contains(top, "cue/ast.") {
					return ""
				}
			}
			return "C19|race|format-annotates-shared-syntax-nodes"
		}
		c.CheckRaceLogs(mon.RaceLogPrefix())
		mon.RaceClass = nil
		c.CheckRaceLogsAs(filepath.Join(os.Getenv("VERIF_RUNDIR"), "race-unfinished"), "C19|unfinished-value")
		var ks []string
		for k := range gHist {
			ks = append(ks, fmt.Sprint(k))
		}
		sort.Strings(ks)
	})
}
