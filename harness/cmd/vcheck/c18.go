package main

// C18 – workflow tasks run once, after everything they depend on, under every schedule.
// Instrumented Runners record start/end events; the harness drives the completion
// order through per-task gates from Config.UpdateFunc (logical schedule).

import (
	"context"
	"encoding/json"
	"fmt"
	"math/rand/v2"
	"reflect"
	"sort"
	"strings"
	"sync"
	"sync/atomic"
	"time"

	"cuelang.org/go/cue"
	"cuelang.org/go/cue/cuecontext"
	"cuelang.org/go/tools/flow"
	"cuelang.org/go/verifh/mon"
)

type c18input struct {
	expr string // CUE expression placed in the task's in list
	deps []int  // tasks it refers to
	kind string // direct | mid | interp | nested | whole
	want func(tok func(int) string) string
}

type c18task struct {
	idx    int
	path   string // e.g. root.t3 or root.seq[1]
	name   string // t3, s1 ...
	inputs []c18input
	isList bool
	dynOf  int // >=0: dynamic task generated from the items of that producer
	dynKey string
	items  []string // keys this task publishes as items (producer of dynamic tasks)
	after  []int    // deps expressed through a whole-task reference field
}

type c18dag struct {
	tasks  []*c18task
	src    string
	deps   map[int][]int // direct dependencies (ground truth)
	cyclic bool
}

func (d *c18dag) allDeps(i int) map[int]bool {
	out := map[int]bool{}
	var walk func(int)
	walk = func(k int) {
		for _, j := range d.deps[k] {
			if !out[j] {
				out[j] = true
				walk(j)
			}
		}
	}
	walk(i)
	return out
}

// c18gen builds a random task DAG and its CUE source.
func c18gen(r *rand.Rand, cyclic bool) *c18dag {
	n := 2 + r.IntN(9)
	d := &c18dag{deps: map[int][]int{}, cyclic: cyclic}
	nList := 0
	if r.IntN(2) == 0 {
		nList = 2 + r.IntN(5)
		if nList > n {
			nList = n
		}
	}
	// positions of list tasks: a random subset of indices
	isList := make([]bool, n)
	for _, k := range r.Perm(n)[:nList] {
		isList[k] = true
	}
	li := 0
	for i := 0; i < n; i++ {
		t := &c18task{idx: i, dynOf: -1}
		if isList[i] {
			t.isList = true
			t.name = fmt.Sprintf("s%d", li)
			t.path = fmt.Sprintf("root.seq[%d]", li)
			li++
		} else {
			t.name = fmt.Sprintf("t%d", i)
			t.path = "root." + t.name
		}
		d.tasks = append(d.tasks, t)
	}
	var mid []string
	ref := func(j int) string { return d.tasks[j].path }
	for i, t := range d.tasks {
		if i == 0 {
			continue
		}
		nd := r.IntN(4)
		if r.IntN(5) == 0 {
			nd = 0
		}
		shape := r.IntN(3) // 0 random, 1 chain, 2 fan-in
		for k := 0; k < nd; k++ {
			j := r.IntN(i)
			if shape == 1 {
				j = i - 1
			}
			var in c18input
			switch r.IntN(6) {
			case 0:
				in = c18input{expr: ref(j) + ".out", deps: []int{j}, kind: "direct", want: func(tok func(int) string) string { return tok(j) }}
			case 1:
				m := fmt.Sprintf("x%d_%d_%d", i, k, j)
				mid = append(mid, fmt.Sprintf("\t%s: %s.out", m, ref(j)))
				in = c18input{expr: "mid." + m, deps: []int{j}, kind: "mid", want: func(tok func(int) string) string { return tok(j) }}
			case 2:
				j2 := r.IntN(i)
				in = c18input{expr: fmt.Sprintf(`"\(%s.out)+\(%s.out)"`, ref(j), ref(j2)), deps: []int{j, j2}, kind: "interp",
					want: func(tok func(int) string) string { return tok(j) + "+" + tok(j2) }}
			case 3:
				in = c18input{expr: ref(j) + ".res.val", deps: []int{j}, kind: "nested", want: func(tok func(int) string) string { return tok(j) + "#v" }}
			case 4:
				m := fmt.Sprintf("y%d_%d_%d", i, k, j)
				mid = append(mid, fmt.Sprintf("\t%s: z: \"<\\(%s.res.val)>\"", m, ref(j)))
				in = c18input{expr: "mid." + m + ".z", deps: []int{j}, kind: "mid-computed", want: func(tok func(int) string) string { return "<" + tok(j) + "#v>" }}
			default:
				in = c18input{expr: ref(j) + ".out", deps: []int{j}, kind: "direct", want: func(tok func(int) string) string { return tok(j) }}
			}
			t.inputs = append(t.inputs, in)
			d.deps[i] = append(d.deps[i], in.deps...)
		}
		if r.IntN(6) == 0 { // dependency through a reference to the whole task
			j := r.IntN(i)
			t.after = append(t.after, j)
			d.deps[i] = append(d.deps[i], j)
		}
	}
	// dynamic tasks: generated from the items published by one non-list producer
	prod := -1
	if r.IntN(3) == 0 {
		for _, k := range r.Perm(n) {
			if !d.tasks[k].isList {
				prod = k
				break
			}
		}
	}
	if prod >= 0 {
		keys := []string{"a", "b", "c"}[:1+r.IntN(3)]
		d.tasks[prod].items = keys
		for _, k := range keys {
			idx := len(d.tasks)
			key := k
			t := &c18task{idx: idx, dynOf: prod, dynKey: k, name: "d" + k, path: "root.dyn.d" + k}
			t.inputs = []c18input{{expr: "v", deps: []int{prod}, kind: "dynamic", want: func(tok func(int) string) string { return tok(prod) + "/" + key }}}
			d.deps[idx] = []int{prod}
			d.tasks = append(d.tasks, t)
		}
	}
	if cyclic && n >= 2 {
		// close a cycle: an early task refers to a later one that (transitively) depends on it, or a 2-cycle
		a := r.IntN(n - 1)
		b := a + 1 + r.IntN(n-a-1)
		d.tasks[a].inputs = append(d.tasks[a].inputs, c18input{expr: ref(b) + ".out", deps: []int{b}, kind: "direct", want: func(tok func(int) string) string { return tok(b) }})
		d.tasks[b].inputs = append(d.tasks[b].inputs, c18input{expr: ref(a) + ".out", deps: []int{a}, kind: "direct", want: func(tok func(int) string) string { return tok(a) }})
	}
	// print
	var sb strings.Builder
	sb.WriteString("root: {\n")
	taskBody := func(t *c18task, indent string) string {
		var ins []string
		for _, in := range t.inputs {
			ins = append(ins, in.expr)
		}
		s := indent + "$id: \"t\"\n" + indent + "name: \"" + t.name + "\"\n" + indent + "in: [" + strings.Join(ins, ", ") + "]\n" + indent + "out: string\n" + indent + "res: val: string\n"
		for k, j := range t.after {
			s += fmt.Sprintf("%safter%d: %s\n", indent, k, ref(j))
		}
		if len(t.items) > 0 {
			s += indent + "items: [string]: string\n"
		}
		return s
	}
	var listTasks []*c18task
	for _, t := range d.tasks {
		if t.dynOf >= 0 {
			continue
		}
		if t.isList {
			listTasks = append(listTasks, t)
			continue
		}
		sb.WriteString("\t" + t.name + ": {\n" + taskBody(t, "\t\t") + "\t}\n")
	}
	if len(listTasks) > 0 {
		sb.WriteString("\tseq: [\n")
		for _, t := range listTasks {
			sb.WriteString("\t\t{\n" + taskBody(t, "\t\t\t") + "\t\t},\n")
		}
		sb.WriteString("\t]\n")
	}
	if prod >= 0 {
		sb.WriteString(fmt.Sprintf("\tdyn: {\n\t\tfor k, v in %s.items {\n\t\t\t\"d\\(k)\": {\n\t\t\t\t$id: \"t\"\n\t\t\t\tname: \"d\\(k)\"\n\t\t\t\tin: [v]\n\t\t\t\tout: string\n\t\t\t\tres: val: string\n\t\t\t}\n\t\t}\n\t}\n", ref(prod)))
	}
	sb.WriteString("}\nmid: {\n" + strings.Join(mid, "\n") + "\n}\n")
	d.src = sb.String()
	for i := range d.deps {
		sort.Ints(d.deps[i])
	}
	return d
}

type c18event struct {
	Seq  int64  `json:"seq"`
	Kind string `json:"kind"` // start | end | fail
	Task string `json:"task"`
	In   string `json:"in,omitempty"`
}

type c18result struct {
	events  []c18event
	runErr  error
	hung    bool
	final   cue.Value
	started map[string]int
	order   []string
	newErr  error
}

// c18run executes one schedule of dag. mode: 0 one gate at a time, 1 several at once, 2 free running with sleeps,
// 3 adversarial (prefer the task with the highest index), 4 adversarial (lowest index last among list tasks).
// failTask >= 0 makes that task fail (abort=true: flow.ErrAbort).
func c18run(r *rand.Rand, d *c18dag, mode int, failTask int, abort bool, watchdog time.Duration) *c18result {
	res := &c18result{started: map[string]int{}}
	ctx := cuecontext.New()
	v := ctx.CompileString(d.src)
	if v.Err() != nil {
		res.newErr = fmt.Errorf("generated workflow does not compile: %v", v.Err())
		return res
	}
	byName := map[string]*c18task{}
	for _, t := range d.tasks {
		byName[t.name] = t
	}
	var seq atomic.Int64
	var mu sync.Mutex
	gates := map[string]chan struct{}{}
	released := map[string]bool{}
	getGate := func(name string) chan struct{} {
		mu.Lock()
		defer mu.Unlock()
		g, ok := gates[name]
		if !ok {
			g = make(chan struct{}, 1)
			gates[name] = g
		}
		return g
	}
	closed := false // set once the run is over: late runners of a failed run no longer log
	rec := func(kind, task, in string) {
		mu.Lock()
		if !closed {
			res.events = append(res.events, c18event{seq.Add(1), kind, task, in})
		}
		mu.Unlock()
	}
	var rmu sync.Mutex // protects r when runners sleep in free-running mode
	finished := make(chan struct{})
	taskFunc := func(v cue.Value) (flow.Runner, error) {
		id := v.LookupPath(cue.ParsePath("$id"))
		if !id.Exists() {
			return nil, nil
		}
		return flow.RunnerFunc(func(t *flow.Task) error {
			name, _ := t.Value().LookupPath(cue.ParsePath("name")).String()
			var ins []string
			it, _ := t.Value().LookupPath(cue.ParsePath("in")).List()
			for it.Next() {
				s, err := it.Value().String()
				if err != nil {
					s = "<nonconcrete>"
				}
				ins = append(ins, s)
			}
			rec("start", name, strings.Join(ins, ","))
			if mode == 2 {
				rmu.Lock()
				dly := r.IntN(400)
				rmu.Unlock()
				time.Sleep(time.Duration(dly) * time.Microsecond)
			} else {
				select {
				case <-getGate(name):
				case <-finished:
					return nil
				}
			}
			tk := byName[name]
			if tk != nil && tk.idx == failTask {
				rec("fail", name, "")
				if abort {
					return flow.ErrAbort
				}
				return fmt.Errorf("injected failure of %s", name)
			}
			out := name + "<" + strings.Join(ins, ",") + ">"
			fill := map[string]any{"out": out, "res": map[string]any{"val": out + "#v"}}
			if tk != nil && len(tk.items) > 0 {
				items := map[string]string{}
				for _, k := range tk.items {
					items[k] = out + "/" + k
				}
				fill["items"] = items
			}
			err := t.Fill(fill)
			rec("end", name, out)
			return err
		}), nil
	}
	cfg := &flow.Config{
		Root: cue.ParsePath("root"),
		UpdateFunc: func(c *flow.Controller, t *flow.Task) error {
			if mode == 2 {
				return nil
			}
			var cand []string
			for _, x := range c.Tasks() {
				st := x.State()
				name, _ := x.Value().LookupPath(cue.ParsePath("name")).String()
				if (st == flow.Ready || st == flow.Running) && !released[name] && name != "" {
					cand = append(cand, name)
				}
			}
			sort.Strings(cand)
			if len(cand) == 0 {
				return nil
			}
			k := 1
			rmu.Lock() // the task runners draw their delays from the same PRNG
			switch mode {
			case 1:
				k = 1 + r.IntN(len(cand))
				r.Shuffle(len(cand), func(i, j int) { cand[i], cand[j] = cand[j], cand[i] })
			case 0:
				r.Shuffle(len(cand), func(i, j int) { cand[i], cand[j] = cand[j], cand[i] })
			case 3: // highest name first (reverse order as far as the DAG allows)
				sort.Sort(sort.Reverse(sort.StringSlice(cand)))
			case 4: // lowest first
			}
			rmu.Unlock()
			for _, pick := range cand[:k] {
				released[pick] = true
				getGate(pick) <- struct{}{}
			}
			return nil
		},
	}
	c := flow.New(cfg, v, taskFunc)
	done := make(chan error, 1)
	go func() { done <- c.Run(context.Background()) }()
	select {
	case err := <-done:
		res.runErr = err
	case <-time.After(watchdog):
		res.hung = true
	}
	mu.Lock()
	closed = true
	res.events = append([]c18event(nil), res.events...)
	mu.Unlock()
	close(finished) // blocked runners of a finished/failed/hung run are let go
	if !res.hung {
		res.final = c.Value()
	}
	mu.Lock()
	for _, e := range res.events {
		if e.Kind == "start" {
			res.started[e.Task]++
		}
		if e.Kind == "end" {
			res.order = append(res.order, e.Task)
		}
	}
	mu.Unlock()
	return res
}

// c18check applies the offline checker to one run.
func c18check(c *Ctx, d *c18dag, res *c18result, failTask int, rp map[string]any, key string) {
	if res.newErr != nil {
		c.Inconclusive(res.newErr.Error())
		return
	}
	viol := func(kind, what string) {
		r2 := map[string]any{}
		for k, v := range rp {
			r2[k] = v
		}
		r2["events"] = res.events
		c.Violate(key+"|"+kind, what, r2)
	}
	if res.hung {
		viol("hang", "Run did not return (watchdog) – deadlock")
		return
	}
	byName := map[string]*c18task{}
	for _, t := range d.tasks {
		byName[t.name] = t
	}
	if d.cyclic {
		if res.runErr == nil {
			viol("cycle-not-reported", "a cyclic workflow ran to completion without an error")
		} else if !strings.Contains(res.runErr.Error(), "cycl") {
			viol("cycle-error-text", "cyclic workflow failed with an unrelated error: "+res.runErr.Error())
		}
		return
	}
	endSeq := map[string]int64{}
	failSeq := int64(-1)
	for _, e := range res.events {
		if e.Kind == "end" {
			endSeq[e.Task] = e.Seq
		}
		if e.Kind == "fail" {
			failSeq = e.Seq
		}
	}
	tok := map[int]string{}
	var tokOf func(i int) string
	tokOf = func(i int) string {
		if s, ok := tok[i]; ok {
			return s
		}
		t := d.tasks[i]
		var ins []string
		for _, in := range t.inputs {
			ins = append(ins, in.want(tokOf))
		}
		s := t.name + "<" + strings.Join(ins, ",") + ">"
		tok[i] = s
		return s
	}
	for _, e := range res.events {
		if e.Kind != "start" {
			continue
		}
		t := byName[e.Task]
		if t == nil {
			viol("unknown-task", "a runner started for unknown task "+e.Task)
			continue
		}
		for _, j := range d.deps[t.idx] {
			dn := d.tasks[j].name
			if s, ok := endSeq[dn]; !ok || s > e.Seq {
				viol("order", fmt.Sprintf("task %s started (seq %d) before its dependency %s completed", e.Task, e.Seq, dn))
			}
		}
		// the configuration the task sees carries its producers' results
		var want []string
		for _, in := range t.inputs {
			want = append(want, in.want(tokOf))
		}
		if got := e.In; got != strings.Join(want, ",") {
			viol("stale-input", fmt.Sprintf("task %s saw inputs %q, its dependencies produced %q", e.Task, got, strings.Join(want, ",")))
		}
		if failTask >= 0 && d.allDeps(t.idx)[failTask] {
			viol("dependant-of-failed", fmt.Sprintf("task %s started although %s failed/aborted", e.Task, d.tasks[failTask].name))
		}
		_ = failSeq
	}
	for name, n := range res.started {
		if n > 1 {
			viol("twice", fmt.Sprintf("task %s started %d times", name, n))
		}
	}
	if failTask >= 0 {
		if res.runErr == nil {
			viol("failure-swallowed", "Run returned nil although a task failed")
		}
		return
	}
	if res.runErr != nil {
		viol("run-error", "Run of an acyclic workflow without failures returned an error: "+res.runErr.Error())
		return
	}
	for _, t := range d.tasks {
		if res.started[t.name] != 1 {
			viol("not-run", fmt.Sprintf("task %s of an acyclic workflow never ran", t.name))
		}
	}
	// final configuration = initial ∧ all results
	ctx := cuecontext.New()
	exp := ctx.CompileString(d.src)
	// dynamic tasks only exist once their producer's items are filled: fill producers first
	order := make([]*c18task, len(d.tasks))
	copy(order, d.tasks)
	sort.SliceStable(order, func(i, j int) bool { return order[i].dynOf < order[j].dynOf })
	for _, t := range order {
		out := tokOf(t.idx)
		fill := map[string]any{"out": out, "res": map[string]any{"val": out + "#v"}}
		if len(t.items) > 0 {
			items := map[string]string{}
			for _, k := range t.items {
				items[k] = out + "/" + k
			}
			fill["items"] = items
		}
		exp = exp.FillPath(cue.ParsePath(t.path), fill)
	}
	var gotJ, expJ any
	gb, gerr := res.final.MarshalJSON()
	eb, eerr := exp.MarshalJSON()
	if eerr != nil {
		c.Inconclusive("expected configuration is not concrete: " + eerr.Error())
		return
	}
	if gerr != nil {
		viol("final-error", "final configuration is erroneous or incomplete: "+gerr.Error())
		return
	}
	json.Unmarshal(gb, &gotJ)
	json.Unmarshal(eb, &expJ)
	if !reflect.DeepEqual(gotJ, expJ) {
		viol("final", fmt.Sprintf("final configuration differs from initial ∧ results:\n got  %s\n want %s", trunc9(string(gb), 1500), trunc9(string(eb), 1500)))
	}
}

func init() {
	register("C18", "exploration", func(c *Ctx) {
		c.Rule = "PRNG task DAGs (2-10 static tasks as struct fields and as list elements, chains/diamonds/fan-in, dependencies through direct references, intermediate fields outside the root, interpolations, nested result fields, computed intermediate fields, whole-task references; optional dynamic tasks generated by a comprehension over a producer's result) × schedules (one gate at a time in PRNG order, several gates at once so completions race, free running with PRNG sleeps, reverse-order and forward-order adversaries), with and without one injected failure or ErrAbort, cyclic variants, and workflows whose cycle only closes at run time (a conditional dependency between two existing tasks that appears once a third task has filled its result). Each task fills a unique token derived from the inputs it saw; instrumented Runners log start/end with a global sequence number; offline checker: start after end of every dependency, inputs = producers' tokens, at most one start, all tasks ran, no dependant of a failed task started, cycle reported not hung, final value = initial ∧ results; -race. Non-trivial = distinct DAG source with ≥1 dependency; distinct completion orders are counted."
		c.Assume = []string{"a hang is decided by a 60s watchdog (a step takes milliseconds) and re-confirmed once with 120s before it is reported", "dependency ground truth comes from the generator's own reference list"}
		if c.Replay != nil {
			src, _ := c.Replay["source"].(string)
			c.Inconclusive("replay: rerun the seed; workflow source:\n" + src)
			return
		}
		nDags := c.N(150, 3000)
		nSched := c.N(12, 120)
		orders := map[string]struct{}{}
		var omu sync.Mutex
		batches := 16
		var dynSeen, listSeen, failsInjected, cyc atomic.Int64
		c.Par(batches, func(b int) {
			r := c.RNG(fmt.Sprintf("dags-%d", b))
			for k := 0; k < nDags/batches; k++ {
				cyclic := r.IntN(8) == 0
				d := c18gen(r, cyclic)
				dkey := mon.Hash(d.src)
				rp := map[string]any{"source": d.src}
				nontrivial := false
				for _, t := range d.tasks {
					if len(d.deps[t.idx]) > 0 {
						nontrivial = true
					}
					if t.dynOf >= 0 {
						dynSeen.Add(1)
					}
					if t.isList {
						listSeen.Add(1)
					}
				}
				if nontrivial {
					c.Nontrivial(dkey)
				}
				if b == 0 && k < 2 {
					c.Sample(map[string]any{"workflow": d.src})
				}
				if cyclic {
					cyc.Add(1)
					res := c18run(r, d, 0, -1, false, 60*time.Second)
					c.Eval(1)
					if res.hung { // re-confirm
						res = c18run(r, d, 0, -1, false, 120*time.Second)
					}
					c18check(c, d, res, -1, rp, "C18|"+dkey)
					continue
				}
				local := map[string]struct{}{}
				for s := 0; s < nSched; s++ {
					mode := s % 5
					failTask, abort := -1, false
					if s%6 == 5 {
						failTask = r.IntN(len(d.tasks))
						abort = r.IntN(2) == 0
						failsInjected.Add(1)
					}
					res := c18run(r, d, mode, failTask, abort, 60*time.Second)
					if res.hung {
						res = c18run(r, d, mode, failTask, abort, 120*time.Second)
					}
					c.Eval(1)
					c.Count("events", int64(len(res.events)))
					rp2 := map[string]any{"source": d.src, "mode": mode, "fail_task": failTask, "abort": abort}
					c18check(c, d, res, failTask, rp2, "C18|"+dkey)
					local[strings.Join(res.order, ">")] = struct{}{}
				}
				omu.Lock()
				for o := range local {
					orders[dkey+o] = struct{}{}
				}
				omu.Unlock()
				c.Max("max_completion_orders_per_dag", int64(len(local)))
			}
		})
		c.Set("distinct_completion_orders", len(orders))
		c.Set("dynamic_tasks", dynSeen.Load())
		c.Set("list_element_tasks", listSeen.Load())
		c.Set("failures_injected", failsInjected.Load())
		// cycles that only close while the workflow runs: a dependency between two tasks that exist from the start
		// appears once a third task has produced its result (no task is added in that step)
		nDyn := c.N(6, 60)
		var dynCyc atomic.Int64
		c.Par(nDyn, func(k int) {
			r := c.RNG(fmt.Sprintf("dyncycle-%d", k))
			d := c18dynCycle(r)
			dynCyc.Add(1)
			c.Nontrivial(mon.Hash(d.src))
			mode := []int{2, 0, 1}[k%3]
			res := c18run(r, d, mode, -1, false, 60*time.Second)
			c.Eval(1)
			if res.hung {
				res = c18run(r, d, mode, -1, false, 120*time.Second)
			}
			c18check(c, d, res, -1, map[string]any{"source": d.src, "mode": mode}, "C18|dyncycle|"+mon.Hash(d.src))
			if k == 0 {
				c.Sample(map[string]any{"dynamic_cycle_workflow": d.src})
			}
		})
		c.Set("dynamic_cycle_workflows", dynCyc.Load())
		c.Set("cyclic_workflows", cyc.Load())
		c.CheckRaceLogs(mon.RaceLogPrefix())
	})
}

// c18dynCycle: a -> (b gains a dependency on the end of a chain that starts at b) once a has run.
func c18dynCycle(r *rand.Rand) *c18dag {
	d := &c18dag{deps: map[int][]int{}, cyclic: true}
	chain := 1 + r.IntN(3) // c0 <- c1 <- ... each depends on the previous, c0 depends on b
	names := []string{"a", "b"}
	for i := 0; i < chain; i++ {
		names = append(names, fmt.Sprintf("c%d", i))
	}
	extra := r.IntN(3) // unrelated tasks
	for i := 0; i < extra; i++ {
		names = append(names, fmt.Sprintf("u%d", i))
	}
	for i, n := range names {
		d.tasks = append(d.tasks, &c18task{idx: i, name: n, dynOf: -1})
	}
	var sb strings.Builder
	sb.WriteString("root: {\n")
	task := func(name, in, more string) {
		fmt.Fprintf(&sb, "\t%s: {\n\t\t$id: \"t\"\n\t\tname: %q\n\t\tin: [%s]\n\t\tout: string\n\t\tres: val: string\n%s\t}\n", name, name, in, more)
	}
	task("a", "", "")
	last := fmt.Sprintf("c%d", chain-1)
	cond := []string{
		fmt.Sprintf("\t\tif root.a.out == \"a<>\" {\n\t\t\tlate: root.%s.out\n\t\t}\n", last),
		fmt.Sprintf("\t\tif root.a.res.val != \"\" {\n\t\t\tlate: root.%s.res.val\n\t\t}\n", last),
		fmt.Sprintf("\t\tif len(root.a.out) > 0 {\n\t\t\tlate: {x: root.%s.out}\n\t\t}\n", last),
	}[r.IntN(3)]
	task("b", "", cond)
	prev := "b"
	for i := 0; i < chain; i++ {
		n := fmt.Sprintf("c%d", i)
		task(n, "root."+prev+".out", "")
		prev = n
	}
	for i := 0; i < extra; i++ {
		in := ""
		if i > 0 && r.IntN(2) == 0 {
			in = fmt.Sprintf("root.u%d.out", i-1)
		}
		task(fmt.Sprintf("u%d", i), in, "")
	}
	sb.WriteString("}\n")
	d.src = sb.String()
	return d
}
