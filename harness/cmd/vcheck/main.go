// Command vcheck runs one property monitor against the cue tree it was
// built with. See /verif/DESIGN.md.
package main

import (
	"encoding/json"
	"flag"
	"fmt"
	"math/rand/v2"
	"os"
	"runtime"
	"sort"
	"strconv"
	"sync"

	"cuelang.org/go/verifh/mon"
)

// Ctx is what a check gets.
type Ctx struct {
	*mon.Run
	Thorough bool
	Replay   map[string]any // decoded replay file, if replaying
	Self     string         // path of this binary (for worker re-exec)
	CueBin   string         // path of the cue binary built from the tree
	BatchEnv []string       // extra environment of the worker processes started by RunBatch
	Workers  int
	// ASLimitKB, if > 0, is the address-space limit (ulimit -v) of batch workers.
	ASLimitKB int
}

func (c *Ctx) RNG(stream string) *rand.Rand { return mon.RNG(c.Seed, c.Prop, stream) }

// N picks the quick or thorough size.
func (c *Ctx) N(quick, thorough int) int {
	if c.Thorough {
		return thorough
	}
	return quick
}

// Par runs f(i) for i in [0,n) on c.Workers goroutines.
func (c *Ctx) Par(n int, f func(i int)) {
	var wg sync.WaitGroup
	ch := make(chan int, 64)
	w := c.Workers
	if w > n {
		w = n
	}
	for k := 0; k < w; k++ {
		wg.Add(1)
		go func() {
			defer wg.Done()
			for i := range ch {
				f(i)
			}
		}()
	}
	for i := 0; i < n; i++ {
		ch <- i
	}
	close(ch)
	wg.Wait()
}

type checkFn func(c *Ctx)

var checks = map[string]checkFn{}
var levels = map[string]string{}

// workerModes are entry points for child processes: vcheck -worker <mode> args...
var workerModes = map[string]func(args []string) int{}

func register(id, level string, f checkFn) { checks[id] = f; levels[id] = level }

func main() {
	prop := flag.String("prop", "", "property id")
	tier := flag.String("tier", "quick", "quick|thorough")
	seed := flag.Int64("seed", 1, "seed")
	replay := flag.String("replay", "", "violation file to replay")
	worker := flag.String("worker", "", "internal: worker mode")
	cuebin := flag.String("cue", "", "path of the cue binary built from the tree")
	list := flag.Bool("list", false, "list properties")
	flag.Parse()
	if *worker != "" {
		f, ok := workerModes[*worker]
		if !ok {
			fmt.Fprintf(os.Stderr, "unknown worker mode %q\n", *worker)
			os.Exit(3)
		}
		os.Exit(f(flag.Args()))
	}
	if *list {
		var ids []string
		for id := range checks {
			ids = append(ids, id)
		}
		sort.Strings(ids)
		for _, id := range ids {
			fmt.Println(id, levels[id])
		}
		return
	}
	f, ok := checks[*prop]
	if !ok {
		fmt.Fprintf(os.Stderr, "unknown property %q\n", *prop)
		os.Exit(3)
	}
	if s := os.Getenv("VERIF_SEED"); s != "" && !isFlagSet("seed") {
		if v, err := strconv.ParseInt(s, 10, 64); err == nil {
			*seed = v
		}
	}
	self, _ := os.Executable()
	c := &Ctx{Run: mon.NewRun(*prop, *tier, *seed, levels[*prop]), Thorough: *tier == "thorough",
		Self: self, CueBin: *cuebin, Workers: runtime.NumCPU()}
	if w := os.Getenv("VERIF_WORKERS"); w != "" {
		if v, err := strconv.Atoi(w); err == nil && v > 0 {
			c.Workers = v
		}
	}
	if *replay != "" {
		data, err := os.ReadFile(*replay)
		if err != nil {
			fmt.Fprintln(os.Stderr, err)
			os.Exit(3)
		}
		var m map[string]any
		if err := json.Unmarshal(data, &m); err != nil {
			fmt.Fprintln(os.Stderr, err)
			os.Exit(3)
		}
		c.Replay, _ = m["replay"].(map[string]any)
		if c.Replay == nil {
			c.Replay = map[string]any{}
		}
		c.MinNontriv = 0
	}
	f(c)
	os.Exit(c.Finish())
}

func isFlagSet(name string) bool {
	set := false
	flag.Visit(func(f *flag.Flag) {
		if f.Name == name {
			set = true
		}
	})
	return set
}

func monHash(s string) string { return mon.Hash(s) }

func monRoot() string { return mon.Root() }
