package main

// C17 – cue mod tidy computes a correct, minimal fixpoint; module files round-trip.
//
// Monitor: an in-memory modload.Registry that logs every call and delays it by a PRNG latency (the suspension
// points the real registry has), run under the race detector; the oracle is a brute-force resolver / MVS closure
// over the generated universe plus invariants on the result.

import (
	"context"
	"encoding/json"
	"fmt"
	"math/rand/v2"
	"sort"
	"strings"
	"sync"
	"testing/fstest"
	"time"

	"cuelang.org/go/internal/mod/modload"
	"cuelang.org/go/internal/mod/semver"
	"cuelang.org/go/mod/modfile"
	"cuelang.org/go/mod/modregistry"
	"cuelang.org/go/mod/module"
	"cuelang.org/go/verifh/mon"
)

// ---------- registry double ----------
type c17reg struct {
	mu       sync.Mutex
	mods     map[module.Version]fstest.MapFS
	calls    map[string]int
	lat      *rand.Rand
	maxDelay int // microseconds
	inflight int
	maxInfl  int
	listing  int // 0 semver order, 1 reverse, 2 PRNG order
}

func (r *c17reg) enter(kind string) {
	r.mu.Lock()
	r.calls[kind]++
	r.inflight++
	if r.inflight > r.maxInfl {
		r.maxInfl = r.inflight
	}
	d := 0
	if r.maxDelay > 0 {
		d = r.lat.IntN(r.maxDelay)
	}
	r.mu.Unlock()
	if d > 0 {
		time.Sleep(time.Duration(d) * time.Microsecond)
	}
}

func (r *c17reg) leave() {
	r.mu.Lock()
	r.inflight--
	r.mu.Unlock()
}

func (r *c17reg) Fetch(ctx context.Context, m module.Version) (module.SourceLoc, error) {
	r.enter("Fetch")
	defer r.leave()
	fs, ok := r.mods[m]
	if !ok {
		return module.SourceLoc{}, modregistry.ErrNotFound
	}
	return module.SourceLoc{FS: fs, Dir: "."}, nil
}

func (r *c17reg) ModFile(ctx context.Context, m module.Version) (*modfile.File, error) {
	r.enter("ModFile")
	defer r.leave()
	fs, ok := r.mods[m]
	if !ok {
		return nil, modregistry.ErrNotFound
	}
	return modfile.Parse(fs["cue.mod/module.cue"].Data, "cue.mod/module.cue")
}

func (r *c17reg) ModuleVersions(ctx context.Context, mpath string) ([]string, error) {
	r.enter("ModuleVersions")
	defer r.leave()
	var vs []string
	for m := range r.mods {
		if m.Path() == mpath || m.BasePath() == mpath {
			vs = append(vs, m.Version())
		}
	}
	semver.Sort(vs) // the interface asks for semver order
	// ... but the outcome must not depend on the order a registry lists versions in: some schedules list them
	// in reverse or in PRNG order
	switch r.listing {
	case 1:
		for i, j := 0, len(vs)-1; i < j; i, j = i+1, j-1 {
			vs[i], vs[j] = vs[j], vs[i]
		}
	case 2:
		r.mu.Lock()
		r.lat.Shuffle(len(vs), func(i, j int) { vs[i], vs[j] = vs[j], vs[i] })
		r.mu.Unlock()
	}
	return vs, nil
}

// ---------- universe ----------
type c17mod struct {
	path    string              // ex.com/m1@v0
	ver     string              // v0.2.0
	imports map[string][]string // package dir -> import paths (with major version)
	deps    map[string]string   // module path -> version (tidy: every module of its import closure)
}

type c17universe struct {
	mods    map[string]*c17mod // "path version"
	main    *c17mod
	kind    string // simple | stale | missing | ambiguous | nomajor
	nomajor map[string]bool
}

func c17pkgModule(imp string) (mpath, dir string) {
	// ex.com/m2/sub@v0 -> ex.com/m2@v0, sub
	base, major, _ := strings.Cut(imp, "@")
	dir = ""
	if i := strings.Index(base, "/m"); i >= 0 {
		rest := base[i+1:]
		if j := strings.IndexByte(rest, '/'); j >= 0 {
			dir = rest[j+1:]
			base = base[:i+1+j]
		}
	}
	return base + "@" + major, dir
}

func (m *c17mod) fs(r *rand.Rand, defaults map[string]bool) fstest.MapFS {
	var sb strings.Builder
	fmt.Fprintf(&sb, "module: %q\nlanguage: version: \"v0.8.0\"\n", m.path)
	if len(m.deps) > 0 {
		var ks []string
		for k := range m.deps {
			ks = append(ks, k)
		}
		sort.Strings(ks)
		if r != nil {
			r.Shuffle(len(ks), func(i, j int) { ks[i], ks[j] = ks[j], ks[i] })
		}
		sb.WriteString("deps: {\n")
		for _, k := range ks {
			if defaults[k] {
				fmt.Fprintf(&sb, "\t%q: {v: %q, default: true}\n", k, m.deps[k])
			} else {
				fmt.Fprintf(&sb, "\t%q: v: %q\n", k, m.deps[k])
			}
		}
		sb.WriteString("}\n")
	}
	out := fstest.MapFS{"cue.mod/module.cue": {Data: []byte(sb.String())}}
	var dirs []string
	for dir := range m.imports {
		dirs = append(dirs, dir)
	}
	sort.Strings(dirs)
	for _, dir := range dirs {
		imps := append([]string{}, m.imports[dir]...)
		if r != nil {
			r.Shuffle(len(imps), func(i, j int) { imps[i], imps[j] = imps[j], imps[i] })
		}
		var b strings.Builder
		base, _, _ := strings.Cut(m.path, "@")
		name := strings.ReplaceAll(base[strings.LastIndexByte(base, '/')+1:], ".", "")
		file := "x.cue"
		if dir != "" {
			name = strings.ReplaceAll(dir, "/", "_")
			file = dir + "/x.cue"
		}
		fmt.Fprintf(&b, "package %s\n", name)
		// split the imports over two files in PRNG order (file order must not matter)
		var b2 strings.Builder
		fmt.Fprintf(&b2, "package %s\n", name)
		w := func(dst *strings.Builder, list []string, off int) {
			if len(list) == 0 {
				return
			}
			dst.WriteString("import (\n")
			for i, ip := range list {
				fmt.Fprintf(dst, "\ti%d %q\n", off+i, ip)
			}
			dst.WriteString(")\n")
			for i := range list {
				fmt.Fprintf(dst, "f%d: i%d.v\n", off+i, off+i)
			}
		}
		cut := len(imps)
		if r != nil && len(imps) > 1 {
			cut = r.IntN(len(imps) + 1)
		}
		w(&b, imps[:cut], 0)
		w(&b2, imps[cut:], cut)
		b.WriteString("v: 1\n")
		out[file] = &fstest.MapFile{Data: []byte(b.String())}
		if cut < len(imps) {
			f2 := "y.cue"
			if dir != "" {
				f2 = dir + "/y.cue"
			}
			out[f2] = &fstest.MapFile{Data: []byte(b2.String())}
		}
	}
	return out
}

var c17versions = []string{"v0.1.0", "v0.2.0", "v0.3.0-pre"}

func c17majorVersions(major string) []string {
	out := make([]string, len(c17versions))
	for i, v := range c17versions {
		out[i] = major + strings.TrimPrefix(v, "v0")
	}
	return out
}

// mvs: minimal version selection over the pruned module graph cue uses (modrequirements.readModGraph: the roots
// and the explicit requirements of each root, not the requirements of those): the selected version of a module is
// the highest version named by the main module or by one of the modules it lists.
func (u *c17universe) mvs(roots map[string]string) map[string]string {
	sel := map[string]string{}
	up := func(p, v string) {
		if cur, ok := sel[p]; !ok || semver.Compare(v, cur) > 0 {
			sel[p] = v
		}
	}
	for p, v := range roots {
		up(p, v)
		if s, ok := u.mods[p+" "+v]; ok {
			for dp, dv := range s.deps {
				up(dp, dv)
			}
		}
	}
	return sel
}

func (u *c17universe) latest(mpath string) string {
	var vs []string
	for _, m := range u.mods {
		if m.path == mpath {
			vs = append(vs, m.ver)
		}
	}
	return modloadLatest(vs)
}

// modloadLatest: latest stable version, else latest of any (documented behaviour of LatestVersion; reimplemented).
func modloadLatest(vs []string) string {
	best, bestAny := "", ""
	for _, v := range vs {
		if semver.Prerelease(v) == "" && (best == "" || semver.Compare(v, best) > 0) {
			best = v
		}
		if bestAny == "" || semver.Compare(v, bestAny) > 0 {
			bestAny = v
		}
	}
	if best != "" {
		return best
	}
	return bestAny
}

// resolve is the brute-force model of tidy for the simple fragment: keep the existing roots, add the latest version
// of the unique provider of every import that is not provided, close under MVS, keep the modules that provide a
// package of the import closure.  ok=false if some import cannot be resolved.
func (u *c17universe) resolve(existing map[string]string, imports map[string][]string) (map[string]string, bool) {
	roots := map[string]string{}
	for k, v := range existing {
		roots[k] = v
	}
	for iter := 0; iter < 50; iter++ {
		sel := u.mvs(roots)
		needed := map[string]bool{}
		seenPkg := map[string]bool{}
		added := false
		okAll := true
		var walk func(imps []string)
		walk = func(imps []string) {
			for _, ip := range imps {
				if seenPkg[ip] {
					continue
				}
				seenPkg[ip] = true
				mp, dir := c17pkgModule(ip)
				v, ok := sel[mp]
				if !ok {
					lv := u.latest(mp)
					if lv == "" {
						okAll = false
						continue
					}
					roots[mp] = lv
					added = true
					continue
				}
				needed[mp] = true
				m := u.mods[mp+" "+v]
				if m == nil {
					okAll = false
					continue
				}
				if _, ok := m.imports[dir]; !ok {
					okAll = false
					continue
				}
				walk(m.imports[dir])
			}
		}
		for _, imps := range imports {
			walk(imps)
		}
		if !okAll {
			return nil, false
		}
		if added {
			continue
		}
		// the needed modules become the roots at their selected versions; with a pruned graph that can bring in
		// new requirements, so iterate to the fixpoint
		out := map[string]string{}
		for p := range needed {
			out[p] = sel[p]
		}
		changed := len(out) != len(roots)
		for p, v := range out {
			if roots[p] != v {
				changed = true
			}
		}
		if !changed {
			return out, true
		}
		for p, v := range out {
			if cur, ok := roots[p]; !ok || semver.Compare(v, cur) > 0 {
				roots[p] = v
			}
		}
		// roots that are no longer needed stay only as long as they are needed by the walk above
		for p := range roots {
			if !needed[p] {
				delete(roots, p)
			}
		}
	}
	return nil, false
}

func c17genUniverse(r *rand.Rand) *c17universe {
	u := &c17universe{mods: map[string]*c17mod{}, nomajor: map[string]bool{}}
	nm := 2 + r.IntN(5)
	kindRoll := r.IntN(10)
	switch {
	case kindRoll < 5:
		u.kind = "simple"
	case kindRoll < 7:
		u.kind = "stale"
	case kindRoll < 8:
		u.kind = "missing"
	case kindRoll < 9:
		u.kind = "ambiguous"
	default:
		u.kind = "nomajor"
	}
	majors := make([]string, nm)
	for i := range majors {
		majors[i] = "v0"
		if r.IntN(5) == 0 {
			majors[i] = "v1"
		}
	}
	modPath := func(i int) string { return fmt.Sprintf("ex.com/m%d@%s", i, majors[i]) }
	pkgPath := func(i int, dir string) string {
		if dir == "" {
			return modPath(i)
		}
		return fmt.Sprintf("ex.com/m%d/%s@%s", i, dir, majors[i])
	}
	// modules import only modules with a higher index (acyclic); every published module is tidy: its deps are the
	// model's own resolution of its imports over the modules published so far
	for i := nm - 1; i >= 0; i-- {
		for _, v := range c17majorVersions(majors[i]) {
			if r.IntN(4) == 0 && !strings.HasSuffix(v, ".1.0") {
				continue
			}
			m := &c17mod{path: modPath(i), ver: v, imports: map[string][]string{}, deps: map[string]string{}}
			pin := map[string]string{}
			for _, dir := range []string{"", "sub"} {
				var imps []string
				for j := i + 1; j < nm; j++ {
					if r.IntN(3) == 0 {
						d := []string{"", "sub"}[r.IntN(2)]
						imps = append(imps, pkgPath(j, d))
						// a minimum version for j chosen among the published ones
						var have []string
						for _, vv := range c17majorVersions(majors[j]) {
							if _, ok := u.mods[modPath(j)+" "+vv]; ok {
								have = append(have, vv)
							}
						}
						if _, ok := pin[modPath(j)]; !ok {
							pin[modPath(j)] = have[r.IntN(len(have))]
						}
					}
				}
				m.imports[dir] = imps
			}
			if deps, ok := u.resolve(pin, m.imports); ok {
				m.deps = deps
			}
			u.mods[m.path+" "+v] = m
		}
	}
	main := &c17mod{path: "main.org@v0", imports: map[string][]string{}, deps: map[string]string{}}
	for _, dir := range []string{"", "sub"} {
		var imps []string
		for j := 0; j < nm; j++ {
			if r.IntN(2) == 0 {
				imps = append(imps, pkgPath(j, []string{"", "sub"}[r.IntN(2)]))
			}
		}
		main.imports[dir] = imps
	}
	switch u.kind {
	case "simple":
		// empty, or the consistent requirements of a previous state of the source (a subset of today's imports)
		if r.IntN(2) == 0 {
			prev := map[string][]string{}
			for _, dir := range []string{"", "sub"} { // fixed order: the PRNG is consumed reproducibly
				for _, ip := range main.imports[dir] {
					if r.IntN(2) == 0 {
						prev[dir] = append(prev[dir], ip)
					}
				}
			}
			if deps, ok := u.resolve(nil, prev); ok {
				// ... possibly resolved when only older versions were published
				var dk []string
				for p := range deps {
					dk = append(dk, p)
				}
				sort.Strings(dk)
				for _, p := range dk {
					v := deps[p]
					if r.IntN(3) == 0 {
						if older := c17majorVersions(strings.SplitN(p, "@", 2)[1])[0]; u.mods[p+" "+older] != nil {
							v = older
						}
					}
					main.deps[p] = v
				}
				// make it consistent again (MVS closure of itself)
				sel := u.mvs(main.deps)
				for p := range main.deps {
					main.deps[p] = sel[p]
				}
			}
		}
	case "stale":
		for j := 0; j < nm; j++ {
			if r.IntN(3) == 0 {
				main.deps[modPath(j)] = c17majorVersions(majors[j])[0]
			}
		}
	case "missing":
		main.imports[""] = append(main.imports[""], fmt.Sprintf("ex.com/m%d/nosuchpkg@%s", r.IntN(nm), majors[0]))
		if r.IntN(2) == 0 {
			main.imports[""] = []string{"ex.com/unknownmodule/x@v0"}
		}
	case "ambiguous":
		// ex.com/m0/sub@vN is provided by module ex.com/m0 (dir sub) and by a module ex.com/m0/sub
		amb := &c17mod{path: fmt.Sprintf("ex.com/m0/sub@%s", majors[0]), ver: c17majorVersions(majors[0])[0], imports: map[string][]string{"": nil}, deps: map[string]string{}}
		u.mods[amb.path+" "+amb.ver] = amb
		main.imports[""] = []string{pkgPath(0, "sub")}
	case "nomajor":
		for _, dir := range []string{"", "sub"} {
			imps := main.imports[dir]
			for k, ip := range imps {
				if r.IntN(2) == 0 {
					base, _, _ := strings.Cut(ip, "@")
					main.imports[dir][k] = base
					mp, _ := c17pkgModule(ip)
					u.nomajor[mp] = true
				}
			}
		}
	}
	u.main = main
	// one module in three universes has pre-release versions only (order-preserving renaming of its versions):
	// the "latest" version is then the highest pre-release, whatever order the registry lists them in
	if r.IntN(3) == 0 {
		var paths []string
		seen := map[string]bool{}
		for _, m := range u.mods {
			if !seen[m.path] {
				seen[m.path] = true
				paths = append(paths, m.path)
			}
		}
		sort.Strings(paths)
		if len(paths) > 0 {
			u.renameVersions(paths[r.IntN(len(paths))])
		}
	}
	return u
}

// renameVersions makes every version of module p a pre-release, keeping their order.
func (u *c17universe) renameVersions(p string) {
	major := ""
	if i := strings.LastIndex(p, "@"); i >= 0 {
		major = p[i+1:]
	}
	ren := map[string]string{}
	for i, v := range c17majorVersions(major) {
		ren[v] = major + strings.TrimPrefix([]string{"v0.1.0-alpha.2", "v0.1.0-alpha.9", "v0.1.0-alpha.10"}[i], "v0")
	}
	mods := map[string]*c17mod{}
	all := []*c17mod{}
	for _, m := range u.mods {
		all = append(all, m)
	}
	if u.main != nil {
		all = append(all, u.main)
	}
	for _, m := range all {
		if m.path == p {
			if nv, ok := ren[m.ver]; ok {
				m.ver = nv
			}
		}
		if dv, ok := m.deps[p]; ok {
			if nv, ok := ren[dv]; ok {
				m.deps[p] = nv
			}
		}
	}
	for _, m := range u.mods {
		mods[m.path+" "+m.ver] = m
	}
	u.mods = mods
	u.kind += "+prerelease-only"
}

func c17depsOf(f *modfile.File) map[string]string {
	out := map[string]string{}
	for p, d := range f.Deps {
		out[p] = d.Version
	}
	return out
}

func c17fmtDeps(d map[string]string) string {
	var ks []string
	for k := range d {
		ks = append(ks, k+" "+d[k])
	}
	sort.Strings(ks)
	return strings.Join(ks, ", ")
}

func (u *c17universe) describe() string {
	var sb strings.Builder
	fmt.Fprintf(&sb, "kind=%s main imports=%v deps=%v\n", u.kind, u.main.imports, c17fmtDeps(u.main.deps))
	var ks []string
	for k := range u.mods {
		ks = append(ks, k)
	}
	sort.Strings(ks)
	for _, k := range ks {
		m := u.mods[k]
		fmt.Fprintf(&sb, "  %s imports=%v deps={%s}\n", k, m.imports, c17fmtDeps(m.deps))
	}
	return sb.String()
}

// ---------- module files ----------
func c17genFile(r *rand.Rand) *modfile.File {
	langs := []string{"v0.8.0", "v0.9.0", "v0.9.2", "v0.10.0", "v0.12.0", "v0.13.2"}
	f := &modfile.File{}
	f.Module = []string{"ex.com/a@v0", "ex.com/a/b@v1", "foo.org/x-y/z@v2", "ex.com/a"}[r.IntN(4)]
	lang := langs[r.IntN(len(langs))]
	f.Language = &modfile.Language{Version: lang}
	if semver.Compare(lang, "v0.9.0") >= 0 && r.IntN(2) == 0 {
		f.Source = &modfile.Source{Kind: []string{"git", "self"}[r.IntN(2)]}
	}
	if n := r.IntN(4); n > 0 {
		f.Deps = map[string]*modfile.Dep{}
		usedBase := map[string]bool{}
		for i := 0; i < n; i++ {
			major := []string{"v0", "v1", "v2"}[r.IntN(3)]
			base := fmt.Sprintf("dep%d.example/m%d", r.IntN(3), r.IntN(3))
			v := fmt.Sprintf("%s.%d.%d", major, r.IntN(4), r.IntN(4))
			if r.IntN(4) == 0 {
				v += "-rc." + fmt.Sprint(r.IntN(3))
			}
			d := &modfile.Dep{Version: v}
			if !usedBase[base] && r.IntN(3) == 0 {
				d.Default = true
			}
			usedBase[base] = true
			f.Deps[base+"@"+major] = d
		}
	}
	if r.IntN(3) == 0 {
		f.Custom = map[string]map[string]any{
			"example.com": {"k": []any{"x", float64(r.IntN(5)), true}[r.IntN(3)], "nested": map[string]any{"a": "b"}},
		}
		if r.IntN(2) == 0 {
			f.Custom["other.org"] = map[string]any{"n": float64(r.IntN(9))}
		}
	}
	return f
}

func c17fileJSON(f *modfile.File) string {
	b, _ := json.Marshal(f)
	return string(b)
}

var c17malformed = []struct{ name, src string }{
	{"unknown-top-level-field", "module: \"ex.com/a@v0\"\nlanguage: version: \"v0.9.0\"\nfoo: 1\n"},
	{"unknown-dep-field", "module: \"ex.com/a@v0\"\nlanguage: version: \"v0.9.0\"\ndeps: \"b.com/c@v0\": {v: \"v0.1.0\", extra: true}\n"},
	{"dep-version-not-a-string", "module: \"ex.com/a@v0\"\nlanguage: version: \"v0.9.0\"\ndeps: \"b.com/c@v0\": v: 1\n"},
	{"dep-version-not-canonical", "module: \"ex.com/a@v0\"\nlanguage: version: \"v0.9.0\"\ndeps: \"b.com/c@v0\": v: \"v0.1\"\n"},
	{"dep-major-mismatch", "module: \"ex.com/a@v0\"\nlanguage: version: \"v0.9.0\"\ndeps: \"b.com/c@v1\": v: \"v0.1.0\"\n"},
	{"dep-without-major", "module: \"ex.com/a@v0\"\nlanguage: version: \"v0.9.0\"\ndeps: \"b.com/c\": v: \"v0.1.0\"\n"},
	{"missing-language-version", "module: \"ex.com/a@v0\"\n"},
	{"language-version-not-semver", "module: \"ex.com/a@v0\"\nlanguage: version: \"0.9\"\n"},
	{"module-not-a-string", "module: 5\nlanguage: version: \"v0.9.0\"\n"},
	{"source-unknown-kind", "module: \"ex.com/a@v0\"\nlanguage: version: \"v0.9.0\"\nsource: kind: \"svn\"\n"},
	{"source-before-v0.9", "module: \"ex.com/a@v0\"\nlanguage: version: \"v0.8.0\"\nsource: kind: \"git\"\n"},
	{"unknown-language-field", "module: \"ex.com/a@v0\"\nlanguage: {version: \"v0.9.0\", flavour: \"x\"}\n"},
	{"two-defaults-for-one-path", "module: \"ex.com/a@v0\"\nlanguage: version: \"v0.9.0\"\ndeps: {\"b.com/c@v0\": {v: \"v0.1.0\", default: true}, \"b.com/c@v1\": {v: \"v1.0.0\", default: true}}\n"},
	{"non-data-expression", "module: \"ex.com/a@v0\"\nlanguage: version: \"v0.9.0\"\ndeps: \"b.com/c@v0\": v: \"v0.\" + \"1.0\"\n"},
	{"definition-field", "module: \"ex.com/a@v0\"\nlanguage: version: \"v0.9.0\"\n#x: 1\n"},
	{"invalid-module-path", "module: \"Ex.com/a b@v0\"\nlanguage: version: \"v0.9.0\"\n"},
}

func init() {
	register("C17", "exploration", func(c *Ctx) {
		c.Rule = "universes of 2-6 modules x up to 3 versions (major suffixes v0/v1, pre-releases, packages in the module root and in sub/, acyclic random imports, every published module tidy) behind an in-memory registry that logs and delays every call; main module with random imports and (a) empty or consistent existing requirements, (b) stale requirements, (c) an import nobody provides, (d) an import two modules provide, (e) imports without major version. Per universe: Tidy under 4 schedules (PRNG latencies x permuted source files, import lists and deps order) with the race detector; result must be identical across schedules, pass CheckTidy, be a fixpoint of Tidy, list no unused module, resolve every import of the closure to exactly one listed/selected module, list the versions minimal version selection picks in the result's own (pruned) module graph, and only justified versions (already listed, latest, or required by a published module); agreement with a brute-force resolver is recorded; (c) and (d) must be errors. Module files: Parse(Format(f)) == f and Format is a fixpoint for generated files; malformed files must be rejected. Non-trivial = universe whose tidy result lists >= 2 modules."
		c.Assume = []string{"the registry double returns versions in semver order as the interface requires; the brute-force resolver (MVS closure + latest-version rule written from the documentation of LatestVersion) is the reference in the simple fragment"}
		if c.Replay != nil {
			c.Inconclusive("replay: the violation file contains the universe description")
			return
		}
		ctx := context.Background()
		n := c.N(1200, 20000)
		var mu sync.Mutex
		calls := map[string]int{}
		maxInfl := 0
		c.Par(n, func(i int) {
			r := mon.RNG(c.Seed, "C17", fmt.Sprintf("universe-%d", i))
			u := c17genUniverse(r)
			desc := u.describe()
			defer mon.WAL(desc)()
			c.Eval(1)
			c.Count("universe:"+u.kind, 1)
			var results []string
			var first *modfile.File
			var firstFS fstest.MapFS
			var firstReg *c17reg
			errs := 0
			for sched := 0; sched < 4; sched++ {
				reg := &c17reg{mods: map[module.Version]fstest.MapFS{}, calls: map[string]int{}, lat: mon.RNG(c.Seed, "C17", fmt.Sprintf("lat-%d-%d", i, sched))}
				if sched > 0 {
					reg.maxDelay = []int{0, 50, 300, 1500}[sched]
				}
				reg.listing = []int{0, 0, 1, 2}[sched]
				var pr *rand.Rand
				if sched > 0 {
					pr = mon.RNG(c.Seed, "C17", fmt.Sprintf("perm-%d-%d", i, sched))
				}
				for _, m := range u.mods {
					reg.mods[module.MustNewVersion(m.path, m.ver)] = m.fs(pr, nil)
				}
				mainFS := u.main.fs(pr, nil)
				res, err := modload.Tidy(ctx, mainFS, ".", reg, nil)
				mu.Lock()
				for k, v := range reg.calls {
					calls[k] += v
				}
				if reg.maxInfl > maxInfl {
					maxInfl = reg.maxInfl
				}
				mu.Unlock()
				if err != nil {
					errs++
					results = append(results, "error: "+c17errClass(err.Error()))
					continue
				}
				out, ferr := modfile.Format(res.Module)
				if ferr != nil {
					c.Violate("C17|format|"+u.kind, "modfile.Format of the tidy result fails: "+ferr.Error()+"\n"+desc, map[string]any{"universe": desc})
					return
				}
				results = append(results, string(out))
				if first == nil {
					first, firstFS, firstReg = res.Module, mainFS, reg
					firstFS["cue.mod/module.cue"] = &fstest.MapFile{Data: out}
				}
			}
			for s := 1; s < len(results); s++ {
				if results[s] != results[0] {
					c.Violate("C17|schedule|"+u.kind, fmt.Sprintf("tidy result depends on the schedule / order (schedule 0 vs %d):\n%s\n---\n%s\n%s", s, results[0], results[s], desc), map[string]any{"universe": desc})
					return
				}
			}
			switch u.kind {
			case "missing", "ambiguous":
				if errs == 0 {
					c.Violate("C17|no-error|"+u.kind, "tidy succeeds although an import is "+u.kind+":\n"+results[0]+"\n"+desc, map[string]any{"universe": desc})
				} else {
					c.Count("expected_error_reported:"+u.kind, 1)
				}
				return
			}
			if errs > 0 {
				if u.kind == "simple" {
					if _, ok := u.resolve(u.main.deps, u.main.imports); ok {
						c.Violate("C17|error|simple", "tidy fails on a resolvable universe: "+results[0]+"\n"+desc, map[string]any{"universe": desc})
					} else {
						c.Count("unresolvable_universe", 1)
					}
				} else {
					c.Count("tidy_error:"+u.kind, 1)
				}
				return
			}
			deps := c17depsOf(first)
			if len(deps) >= 2 {
				c.Nontrivial(desc)
			}
			viol := func(class, what string) {
				key := "C17|" + class + "|" + u.kind
				if u.kind == "stale" {
					// stale roots: recorded stream (DESIGN §4 C17), see the finding
					c.Count("stale_stream:"+class, 1)
					key = "C17|" + class + "|stale"
				}
				c.Violate(key, what+"\ntidied: "+c17fmtDeps(deps)+"\n"+desc, map[string]any{"universe": desc})
			}
			// fixpoint and CheckTidy (on the first schedule's registry, no latency)
			if err := modload.CheckTidy(ctx, firstFS, ".", firstReg, nil); err != nil {
				viol("checktidy", "CheckTidy rejects the output of Tidy: "+err.Error())
			}
			if res2, err := modload.Tidy(ctx, firstFS, ".", firstReg, nil); err != nil {
				viol("retidy-error", "Tidy fails on its own output: "+err.Error())
			} else if out2, _ := modfile.Format(res2.Module); string(out2) != results[0] {
				viol("not-idempotent", "Tidy changes its own output:\n"+results[0]+"---\n"+string(out2))
			}
			// MVS consistency of the listed versions
			sel := u.mvs(deps)
			for p, v := range deps {
				if sel[p] != v {
					viol("not-mvs-selected", fmt.Sprintf("%s is listed at %s but the listed requirements select %s", p, v, sel[p]))
					break
				}
			}
			// every import of the closure is provided by exactly one selected module; no unused entry
			needed := map[string]bool{}
			seenPkg := map[string]bool{}
			var walk func(imps []string) bool
			walk = func(imps []string) bool {
				for _, ip := range imps {
					if !strings.Contains(ip, "@") {
						// import without major version: resolved through the defaults of the result
						cands := 0
						for p := range sel {
							base, _, _ := strings.Cut(p, "@")
							if base == strings.TrimSuffix(ip, "/sub") {
								ip2 := ip + "@" + strings.SplitN(p, "@", 2)[1]
								ip = ip2
								cands++
							}
						}
						if cands != 1 {
							viol("nomajor-unresolved", fmt.Sprintf("import %s has %d candidate modules in the result", ip, cands))
							return false
						}
					}
					if seenPkg[ip] {
						continue
					}
					seenPkg[ip] = true
					mp, dir := c17pkgModule(ip)
					v, ok := sel[mp]
					if !ok {
						viol("unresolved-import", "import "+ip+" is not provided by the build list of the result")
						return false
					}
					needed[mp] = true
					m := u.mods[mp+" "+v]
					if m == nil {
						viol("unknown-version", "selected version "+mp+" "+v+" does not exist")
						return false
					}
					if _, ok := m.imports[dir]; !ok {
						viol("unresolved-import", "package "+ip+" does not exist in "+mp+" "+v)
						return false
					}
					if !walk(m.imports[dir]) {
						return false
					}
				}
				return true
			}
			okWalk := true
			for _, imps := range u.main.imports {
				okWalk = okWalk && walk(imps)
			}
			if okWalk {
				for p := range deps {
					if !needed[p] {
						viol("unused-entry", p+" is listed but provides no package of the import closure")
						break
					}
				}
				for p := range needed {
					if _, ok := deps[p]; !ok {
						viol("needed-not-listed", p+" provides a package of the import closure but is not listed")
						break
					}
				}
			}
			// every listed version is justified: it is the version the main module already listed, the latest
			// version of the module (the documented choice for a module that has to be added), or a version that
			// some published module requires; and a module that nobody listed requires and that was not listed before
			// is at its latest version
			for p, v := range deps {
				justified := u.main.deps[p] == v || u.latest(p) == v
				requiredByListed := false
				for _, m := range u.mods {
					if m.deps[p] == v {
						justified = true
					}
					if _, listed := deps[m.path]; listed && deps[m.path] == m.ver {
						if _, ok := m.deps[p]; ok {
							requiredByListed = true
						}
					}
				}
				if !justified {
					viol("unjustified-version", fmt.Sprintf("%s %s is neither the listed version, the latest version (%s) nor required by any published module", p, v, u.latest(p)))
					break
				}
				_ = requiredByListed // (a module nobody requires in the end can still sit at a version that an
				// intermediate state required - upgrades and additions are never undone - so "at least the latest
				// version" is not an invariant; the rule was removed after it raised a false alarm)
			}
			if u.kind == "simple" {
				// the brute-force resolver follows the same rules but not the same intermediate states; upgrades are
				// never undone, so the two may keep different residues: recorded, not alarmed
				if want, ok := u.resolve(u.main.deps, u.main.imports); ok {
					if c17fmtDeps(want) != c17fmtDeps(deps) {
						c.Count("differs_from_brute_force_resolver_in_residual_upgrades", 1)
					} else {
						c.Count("equal_to_brute_force_resolver", 1)
					}
				}
			}
		})
		for k, v := range calls {
			c.Set("registry_calls_"+k, v)
		}
		c.Set("max_concurrent_registry_calls", maxInfl)
		c.Sample(map[string]any{"universe": c17genUniverse(mon.RNG(c.Seed, "C17", "universe-0")).describe()})

		// module files
		nf := c.N(3000, 100000)
		c.Par(64, func(b int) {
			r := mon.RNG(c.Seed, "C17", fmt.Sprintf("files-%d", b))
			for i := b; i < nf; i += 64 {
				f := c17genFile(r)
				want := c17fileJSON(f)
				out, err := modfile.Format(f)
				c.Eval(1)
				if err != nil {
					c.Violate("C17|modfile-format-error|"+c17errClass(err.Error()), "Format fails on a valid file value: "+err.Error()+"\n"+want, map[string]any{"file": want})
					continue
				}
				g, err := modfile.Parse(out, "module.cue")
				if err != nil {
					c.Violate("C17|modfile-parse-error|"+c17errClass(err.Error()), "Parse rejects the output of Format: "+err.Error()+"\n"+string(out), map[string]any{"file": want, "formatted": string(out)})
					continue
				}
				if got := c17fileJSON(g); got != want {
					c.Violate("C17|modfile-roundtrip", "Parse(Format(f)) != f:\n"+want+"\n"+got+"\n"+string(out), map[string]any{"file": want, "formatted": string(out)})
					continue
				}
				out2, err := modfile.Format(g)
				if err != nil || string(out2) != string(out) {
					c.Violate("C17|modfile-format-fixpoint", "Format(Parse(Format(f))) differs:\n"+string(out)+"---\n"+string(out2), map[string]any{"file": want})
				}
				c.Count("module_files_round_tripped", 1)
			}
		})
		for _, m := range c17malformed {
			c.Eval(1)
			if f, err := modfile.Parse([]byte(m.src), "module.cue"); err == nil {
				c.Violate("C17|malformed-accepted|"+m.name, "Parse accepts a malformed module file ("+m.name+"):\n"+m.src+"\nparsed as "+c17fileJSON(f), map[string]any{"src": m.src})
			} else {
				c.Count("malformed_rejected", 1)
			}
		}
		c.Sample(map[string]any{"module_file": c17fileJSON(c17genFile(mon.RNG(c.Seed, "C17", "files-0")))})
	})
}

func c17errClass(s string) string {
	s = strings.TrimSpace(s)
	if i := strings.IndexByte(s, '\n'); i >= 0 {
		s = s[:i]
	}
	var b strings.Builder
	inQ := false
	for _, r := range s {
		switch {
		case r == '"':
			inQ = !inQ
			b.WriteByte('"')
		case inQ:
		case r >= '0' && r <= '9':
			b.WriteByte('N')
		default:
			b.WriteRune(r)
		}
	}
	out := b.String()
	if len(out) > 100 {
		out = out[:100]
	}
	return out
}
