package main

// C10 – JSON in and out agrees with the JSON standard and round-trips exactly.

import (
	"bytes"
	stdjson "encoding/json"
	"fmt"
	"math/rand/v2"
	"strings"

	"cuelang.org/go/cue"
	"cuelang.org/go/cue/ast"
	"cuelang.org/go/cue/cuecontext"
	cuejson "cuelang.org/go/encoding/json"
	"cuelang.org/go/verifh/gen"
)

// c10invalid mutates a valid document into an invalid one and says how.
func c10invalid(r *rand.Rand, doc string) (string, string) {
	switch r.IntN(16) {
	case 0:
		return "[" + doc + ",]", "trailing comma in array"
	case 1:
		return `{"a":` + doc + `,}`, "trailing comma in object"
	case 2:
		return "[01]", "leading zero"
	case 3:
		return "[\"a\x01b\"]", "bare control character in string"
	case 4:
		return `["\x41"]`, "bad escape \\x"
	case 5:
		return "[NaN]", "NaN"
	case 6:
		return "[Infinity]", "Infinity"
	case 7:
		return "['a']", "single quotes"
	case 8:
		return "[1] // c", "comment"
	case 9:
		if len(doc) > 1 {
			return doc[:len(doc)-1], "truncated"
		}
		return "[", "truncated"
	case 10:
		return "[.5]", "number without integer part"
	case 11:
		return "[1.]", "number without fraction digits"
	case 12:
		return "[+1]", "leading plus"
	case 13:
		return `{"a" 1}`, "missing colon"
	case 14:
		return `{a: 1}`, "unquoted key"
	default:
		return "[1e]", "exponent without digits"
	}
}

func c10checkValue(c *Ctx, ctx *cue.Context, d *gen.Data) {
	// (a) CUE value → MarshalJSON → encoding/json → ground truth
	src := d.CUE()
	rp := map[string]any{"cue": src}
	key := func(kind string) string { return "C10|" + kind + "|" + monHash(src) }
	v := ctx.CompileString("x: " + src).LookupPath(cue.ParsePath("x"))
	c.Eval(1)
	if err := v.Err(); err != nil {
		c.Violate(key("compile"), fmt.Sprintf("generated data does not compile: %v\n%s", err, trunc9(src, 600)), rp)
		return
	}
	b, err := v.MarshalJSON()
	if err != nil {
		c.Violate(key("marshal"), fmt.Sprintf("MarshalJSON fails on concrete data: %v\n%s", err, trunc9(src, 600)), rp)
		return
	}
	rp["json"] = string(b)
	if !stdjson.Valid(b) {
		c.Violate(key("invalid-json"), fmt.Sprintf("MarshalJSON output is not valid JSON: %s", trunc9(string(b), 600)), rp)
		return
	}
	back, err := gen.FromJSON(b)
	if err != nil {
		c.Violate(key("unreadable"), fmt.Sprintf("encoding/json cannot read MarshalJSON output: %v: %s", err, trunc9(string(b), 600)), rp)
		return
	}
	if diff := gen.Diff(d, back, "", false, false); diff != "" {
		c.Violate(key("marshal-data"), fmt.Sprintf("MarshalJSON output reads back as different data: %s\n cue: %s\n json: %s", diff, trunc9(src, 500), trunc9(string(b), 500)), rp)
	}
	for _, h := range []string{"\\u003c", "\\u003e", "\\u0026", "\\u003C", "\\u003E"} {
		if bytes.Contains(b, []byte(h)) && !strings.Contains(src, h) {
			c.Violate(key("html-escape"), "MarshalJSON HTML-escapes <, > or &: "+trunc9(string(b), 300), rp)
		}
	}
	// json.Marshal builtin inside CUE gives the same document data
	w := ctx.CompileString("import \"encoding/json\"\nx: " + src + "\ny: json.Marshal(x)").LookupPath(cue.ParsePath("y"))
	if s, err := w.String(); err != nil {
		c.Violate(key("builtin-marshal"), fmt.Sprintf("json.Marshal builtin fails: %v", err), rp)
	} else if back2, err := gen.FromJSON([]byte(s)); err != nil || gen.Diff(d, back2, "", false, false) != "" {
		c.Violate(key("builtin-marshal-data"), fmt.Sprintf("json.Marshal builtin output %s differs from the data (%v)", trunc9(s, 300), err), rp)
	}
	// Value.Decode into any agrees for strings/bools/structure (numbers become float64/int there: not compared)
}

func c10build(ctx *cue.Context, e ast.Expr) cue.Value { return ctx.BuildExpr(e) }

func c10checkDoc(c *Ctx, ctx *cue.Context, r *rand.Rand, d *gen.Data) {
	doc := d.JSON(r)
	rp := map[string]any{"json": doc}
	key := func(kind string) string { return "C10|" + kind + "|" + monHash(doc) }
	c.Eval(1)
	if !stdjson.Valid([]byte(doc)) {
		c.Count("generator_invalid", 1)
		return
	}
	// (b) Extract
	e, err := cuejson.Extract("doc.json", []byte(doc))
	if err != nil {
		k := key("extract-rejects")
		if strings.Contains(doc, "\ufeff") {
			// recorded finding: a raw U+FEFF inside a string makes the document "invalid JSON"; the class
			// is confirmed by checking that the same document without the BOMs is accepted
			if _, err2 := cuejson.Extract("doc.json", []byte(strings.ReplaceAll(doc, "\ufeff", "x"))); err2 == nil {
				k = "C10|raw-bom-in-string-rejected"
			}
		}
		c.Violate(k, fmt.Sprintf("json.Extract rejects a valid document: %v\n%s", err, trunc9(doc, 500)), rp)
		return
	}
	v := c10build(ctx, e)
	got, err := gen.FromValue(v)
	if err != nil {
		c.Violate(key("extract-value"), fmt.Sprintf("extracted document is not concrete data: %v\n%s", err, trunc9(doc, 500)), rp)
		return
	}
	if diff := gen.Diff(d, got, "", true, false); diff != "" {
		c.Violate(key("extract-data"), fmt.Sprintf("json.Extract denotes different data: %s\n%s", diff, trunc9(doc, 500)), rp)
		return
	}
	if !cuejson.Valid([]byte(doc)) {
		c.Violate(key("valid"), "json.Valid rejects a valid document: "+trunc9(doc, 300), rp)
	}
	// (d) Marshal(Extract(doc)) ≡ doc
	b, err := v.MarshalJSON()
	if err != nil {
		c.Violate(key("remarshal"), fmt.Sprintf("cannot marshal what was decoded: %v", err), rp)
	} else if back, err := gen.FromJSON(b); err != nil || gen.Diff(d, back, "", false, false) != "" {
		c.Violate(key("remarshal-data"), fmt.Sprintf("marshalling the decoded document gives different data: %s (%v)", trunc9(string(b), 300), err), rp)
	}
	// streaming decoder over a concatenation
	if r.IntN(4) == 0 {
		d2 := gen.NumData("7")
		stream := doc + "\n" + d2.JSON(nil) + " " + doc
		dec := cuejson.NewDecoder(nil, "stream.json", strings.NewReader(stream))
		n := 0
		for {
			ex, err := dec.Extract()
			if err != nil {
				break
			}
			n++
			if n == 3 {
				g3, err := gen.FromValue(c10build(ctx, ex))
				if err != nil || gen.Diff(d, g3, "", true, false) != "" {
					c.Violate(key("stream-data"), "third document of a stream decodes to different data", rp)
				}
			}
		}
		if n != 3 {
			c.Violate(key("stream-count"), fmt.Sprintf("streaming decoder read %d of 3 documents", n), rp)
		}
	}
	// json.Unmarshal builtin
	if r.IntN(4) == 0 {
		src := "import \"encoding/json\"\ny: json.Unmarshal(" + gen.CUEString(doc) + ")"
		w := ctx.CompileString(src).LookupPath(cue.ParsePath("y"))
		g4, err := gen.FromValue(w)
		if err != nil {
			k := key("builtin-unmarshal")
			if strings.Contains(doc, "\ufeff") {
				k = "C10|raw-bom-in-string-rejected"
			}
			c.Violate(k, fmt.Sprintf("json.Unmarshal builtin fails on a valid document: %v", err), rp)
		} else if diff := gen.Diff(d, g4, "", true, false); diff != "" {
			c.Violate(key("builtin-unmarshal-data"), "json.Unmarshal builtin denotes different data: "+diff, rp)
		}
	}
	// (c) an invalid neighbour must be rejected
	bad, how := c10invalid(r, doc)
	if stdjson.Valid([]byte(bad)) {
		return
	}
	c.Eval(1)
	c.Count("invalid:"+how, 1)
	if e2, err := cuejson.Extract("bad.json", []byte(bad)); err == nil {
		if v2 := c10build(ctx, e2); v2.Err() == nil {
			c.Violate("C10|accepts-invalid|"+how, fmt.Sprintf("json.Extract accepts invalid JSON (%s): %s", how, trunc9(bad, 300)), map[string]any{"json": bad})
		}
	}
	if cuejson.Valid([]byte(bad)) {
		c.Violate("C10|valid-accepts-invalid|"+how, fmt.Sprintf("json.Valid accepts invalid JSON (%s): %s", how, trunc9(bad, 300)), map[string]any{"json": bad})
	}
}

func init() {
	register("C10", "exploration", func(c *Ctx) {
		c.Rule = "data trees from the data generator (adversarial string pool as values and keys incl. empty keys, control characters, U+2028/9, BOM, non-BMP, HTML-special characters; numbers incl. -0, 1e400, 60-digit integers, high-precision decimals; nesting <= 5): (a) written as CUE → Value.MarshalJSON and the json.Marshal builtin → read with encoding/json (token stream, UseNumber) → must equal the ground truth (order, strings byte for byte, numbers exactly), valid JSON, no HTML escaping; (b) printed as JSON with PRNG escape spellings (\\uXXXX upper/lower case, surrogate pairs, \\/), whitespace of all four kinds and number spellings → json.Extract / json.Valid / NewDecoder over concatenations / json.Unmarshal builtin must accept and denote the ground truth (int iff no fraction or exponent); (c) an invalid neighbour of each document (16 mutation kinds) must be rejected; (d) marshalling the decoded document gives the same data. Non-trivial = distinct document with a nested value or a special string."
		c.Assume = []string{"encoding/json is only the reader of cue's output; validity of generated documents is double-checked with json.Valid", "duplicate keys with different values and unpaired surrogates are 'unpredictable' per RFC 8259 and are not generated"}
		if c.Replay != nil {
			c.Inconclusive("replay by seed")
			return
		}
		n := c.N(10000, 300000)
		batches := 64
		c.Par(batches, func(b int) {
			r := c.RNG(fmt.Sprintf("data-%d", b))
			ctx := cuecontext.New()
			for k := 0; k < n/batches; k++ {
				if k%200 == 199 {
					ctx = cuecontext.New() // bound the memory held by one context
				}
				d := gen.GenData(r, gen.DataOpts{MaxDepth: 4}, 0)
				func() {
					defer func() {
						if rec := recover(); rec != nil {
							c.Violate("C10|panic|"+fmt.Sprint(rec), fmt.Sprintf("panic: %v on %s", rec, trunc9(d.CUE(), 300)), map[string]any{"cue": d.CUE()})
						}
					}()
					c10checkValue(c, ctx, d)
					c10checkDoc(c, ctx, r, d)
				}()
				if d.Kind == "struct" || d.Kind == "list" || len(d.S) > 1 {
					c.Nontrivial(d.CUE())
				}
				if b == 0 && k < 3 {
					c.Sample(map[string]any{"cue": trunc9(d.CUE(), 300), "json": trunc9(d.JSON(r), 300)})
				}
			}
		})
		// frozen witnesses
		ctx := cuecontext.New()
		r := c.RNG("witness")
		for _, d := range []*gen.Data{
			{Kind: "string", S: "\ufeffa"}, {Kind: "string", S: "<a>&b"}, gen.NumData("1e400"), gen.NumData("-0"), gen.NumData("-0.0"),
			{Kind: "struct", Keys: []string{"", " ", "a\u0007b", "\U000e0001"}, Vals: []*gen.Data{gen.NumData("1"), gen.NumData("2"), gen.NumData("3"), gen.NumData("4")}},
		} {
			c10checkValue(c, ctx, d)
			c10checkDoc(c, ctx, r, d)
		}
	})
}
