package main

// C12 – cue export / cue import are inverse and fail exactly when they must.
//
// Monitor: the real cue binary built from the working tree, one private directory per case (private HOME and
// CUE_CACHE_DIR); exit status, stdout and produced files of every invocation are observed and compared with the
// ground truth the data generator carries.

import (
	"fmt"
	"math/rand/v2"
	"os"
	"os/exec"
	"path/filepath"
	"strings"
	"sync"

	"cuelang.org/go/verifh/gen"
	"cuelang.org/go/verifh/mon"
)

type c12run struct {
	out  string
	errs string
	code int
}

func c12exec(bin, dir string, args ...string) c12run {
	cmd := exec.Command(bin, args...)
	cmd.Dir = dir
	cmd.Env = append(os.Environ(), "CUE_CACHE_DIR="+filepath.Join(dir, ".cache"), "HOME="+dir)
	var so, se strings.Builder
	cmd.Stdout, cmd.Stderr = &so, &se
	err := cmd.Run()
	code := 0
	if ee, ok := err.(*exec.ExitError); ok {
		code = ee.ExitCode()
	} else if err != nil {
		code = -1
	}
	return c12run{so.String(), se.String(), code}
}

// c12tomlSafe: TOML cannot represent null; its integers are int64.
// c12addBytes replaces some string leaves by bytes leaves (single line, multi-line printable text such as a PEM
// block, arbitrary bytes): JSON and YAML carry them as base64 / !!binary, CUE as a bytes literal.
func c12addBytes(r *rand.Rand, d *gen.Data) {
	pool := [][]byte{[]byte("abc"), []byte("-----BEGIN X-----\nMIIB\nAAAA\n-----END X-----\n"), []byte("line1\nline2"), []byte("a\n\nb\n"), {0, 1, 2, 0xff}, []byte("tab\there"), []byte("é\nü"), {}, []byte("x: y\n- z\n"), []byte(" lead\ntrail \n")}
	var walk func(x *gen.Data)
	walk = func(x *gen.Data) {
		for i, e := range x.Elems {
			if e.Kind == "string" && r.IntN(6) == 0 {
				x.Elems[i] = gen.BytesData(pool[r.IntN(len(pool))])
			} else {
				walk(e)
			}
		}
		for i, v := range x.Vals {
			if v.Kind == "string" && r.IntN(6) == 0 {
				x.Vals[i] = gen.BytesData(pool[r.IntN(len(pool))])
			} else {
				walk(v)
			}
		}
	}
	walk(d)
}

func c12tomlSafe(d *gen.Data) bool {
	if d.CUELit != "" {
		return false // TOML has no bytes
	}
	switch d.Kind {
	case "null":
		return false
	case "int":
		return d.Num.IsInt() && d.Num.Num().IsInt64()
	case "float":
		// floats outside float64 range have no TOML spelling either
		f, _ := d.Num.Float64()
		return f < 1e300 && f > -1e300 && (f == 0) == (d.Num.Sign() == 0)
	case "list":
		for _, e := range d.Elems {
			if !c12tomlSafe(e) {
				return false
			}
		}
	case "struct":
		for _, v := range d.Vals {
			if !c12tomlSafe(v) {
				return false
			}
		}
	}
	return true
}

var c12keys = []string{"a", "ab", "abc", "a.b", "a b", "item", "items", "itemsMeta", "item.x", "srv", "srvcfg", "x", "b", "\"q\"", "k-1", "1", "true", "é", ""}

// c12tomlShape builds the structures TOML has special syntax for: tables, arrays of tables, nested and empty
// ones, with sibling keys that are prefixes of each other, dotted and quoted keys, and every scalar type.
func c12tomlShape(r *rand.Rand, depth int) *gen.Data {
	scalar := func() *gen.Data {
		switch r.IntN(5) {
		case 0:
			return &gen.Data{Kind: "string", S: []string{"s", "", "a.b", "x y", "multi\nline", "'q'", "\"dq\"", "#c", "[t]"}[r.IntN(9)]}
		case 1:
			return gen.NumData([]string{"0", "1", "-1", "42", "9223372036854775807", "-9223372036854775808", "20"}[r.IntN(7)])
		case 2:
			return gen.NumData([]string{"1.5", "-0.25", "1e3", "3.0", "0.0"}[r.IntN(5)])
		default:
			return &gen.Data{Kind: "bool", B: r.IntN(2) == 0}
		}
	}
	var strct func(depth int) *gen.Data
	strct = func(depth int) *gen.Data {
		d := &gen.Data{Kind: "struct"}
		seen := map[string]bool{}
		// two or three keys of one prefix family, plus others
		n := 2 + r.IntN(4)
		for i := 0; i < n; i++ {
			key := c12keys[r.IntN(len(c12keys))]
			if seen[key] {
				continue
			}
			seen[key] = true
			var v *gen.Data
			k := r.IntN(10)
			if depth <= 0 && k >= 4 {
				k = r.IntN(4)
			}
			switch {
			case k < 3:
				v = scalar()
			case k == 3:
				v = &gen.Data{Kind: "list"}
				for j := 0; j < r.IntN(4); j++ {
					v.Elems = append(v.Elems, scalar())
				}
			case k < 7:
				v = &gen.Data{Kind: "list"} // array of tables
				for j := 0; j < 1+r.IntN(3); j++ {
					v.Elems = append(v.Elems, strct(depth-1))
				}
			default:
				v = strct(depth - 1)
			}
			d.Keys = append(d.Keys, key)
			d.Vals = append(d.Vals, v)
		}
		return d
	}
	return strct(depth)
}

func c12hasBOM(d *gen.Data) bool {
	if strings.Contains(d.S, "\ufeff") {
		return true
	}
	for _, k := range d.Keys {
		if strings.Contains(k, "\ufeff") {
			return true
		}
	}
	for _, e := range d.Elems {
		if c12hasBOM(e) {
			return true
		}
	}
	for _, v := range d.Vals {
		if c12hasBOM(v) {
			return true
		}
	}
	return false
}

func c12errClass(s string) string {
	s = strings.TrimSpace(s)
	if i := strings.IndexByte(s, '\n'); i >= 0 {
		s = s[:i]
	}
	var b strings.Builder
	inQ := false
	for _, r := range s {
		switch {
		case r == '"':
			inQ = !inQ
			b.WriteByte('"')
		case inQ:
		case r >= '0' && r <= '9':
			b.WriteByte('N')
		default:
			b.WriteRune(r)
		}
	}
	out := b.String()
	if len(out) > 80 {
		out = out[:80]
	}
	return out
}

func init() {
	register("C12", "exploration", func(c *Ctx) {
		c.Rule = "concrete packages from the data generator (top-level struct, adversarial string/key pool without U+FEFF - recorded under C10 -, numbers incl. > 64 bit and exponents; bytes values - single line, multi-line printable text, arbitrary bytes - whose JSON form is base64; TOML-safe subset for TOML) x the real cue binary: export --out json (file argument, package argument, -e path, --escape) must equal the ground truth; export to json/yaml/toml/cue through --out on stdout, -o file.ext (type from the name) and -o enc:file, then cue import of the exported file and export --out json must reproduce the original JSON (key order insensitive for TOML); exit status 0 for concrete packages, non-zero for non-concrete, conflicting and missing-required packages in every encoding; values TOML cannot represent must be refused. Non-trivial = distinct package with >= 3 fields or nesting."
		c.Assume = []string{"ground truth = the generator's own tree; encoding/json (Go) reads the CLI's JSON output back with json.Number precision"}
		if c.Replay != nil {
			c.Inconclusive("replay: the violation file holds the package source and the command lines")
			return
		}
		if c.CueBin == "" {
			c.Inconclusive("no cue binary")
			return
		}
		base := filepath.Join(os.Getenv("VERIF_RUNDIR"), "c12")
		os.MkdirAll(base, 0o777)
		defer os.RemoveAll(base)
		n := c.N(300, 6000)
		var mu sync.Mutex
		invocations := 0
		c.Par(n, func(i int) {
			r := mon.RNG(c.Seed, "C12", fmt.Sprintf("case-%d", i))
			opts := gen.DataOpts{MaxDepth: 3, NoEmptyKey: false}
			tomlCase := i%2 == 0
			if tomlCase {
				opts.NoNull, opts.Int64Only = true, true
			}
			var d *gen.Data
			for tries := 0; ; tries++ {
				if i%4 == 2 {
					d = c12tomlShape(r, 2)
				} else {
					d = gen.GenData(r, opts, 0)
				}
				if d.Kind == "struct" && len(d.Keys) > 0 && !c12hasBOM(d) {
					break
				}
			}
			if i%4 == 1 || i%4 == 3 {
				c12addBytes(r, d)
			}
			dir := filepath.Join(base, fmt.Sprint(i))
			os.MkdirAll(dir, 0o777)
			defer os.RemoveAll(dir)
			src := "package p\n\n" + d.CUE() + "\n"
			os.WriteFile(filepath.Join(dir, "data.cue"), []byte(src), 0o666)
			defer mon.WAL(src)()
			ninv := 0
			run := func(args ...string) c12run {
				ninv++
				return c12exec(c.CueBin, dir, args...)
			}
			c.Eval(1)
			if len(d.Keys) >= 3 || func() bool {
				for _, v := range d.Vals {
					if v.Kind == "struct" || v.Kind == "list" {
						return true
					}
				}
				return false
			}() {
				c.Nontrivial(src)
			}
			viol := func(class, what string, cmdline string) {
				c.Violate("C12|"+class, what+"\ncommand: cue "+cmdline+"\npackage:\n"+src, map[string]any{"src": src, "cmd": cmdline})
			}
			check := func(enc, how, cmdline string, res c12run, truth *gen.Data, orderInsensitive bool) bool {
				if res.code != 0 {
					viol("exit|"+enc+"|"+c12errClass(res.errs), fmt.Sprintf("exit status %d on a concrete package (%s): %s", res.code, how, strings.TrimSpace(res.errs)), cmdline)
					return false
				}
				got, err := gen.FromJSON([]byte(res.out))
				if err != nil {
					viol("json-unreadable|"+enc, "the JSON written by cue export cannot be read: "+err.Error()+"\n"+res.out, cmdline)
					return false
				}
				if diff := gen.Diff(truth, got, "", false, orderInsensitive); diff != "" {
					viol("data|"+enc+"|"+how, "exported data differs from the ground truth ("+how+"): "+diff, cmdline)
					return false
				}
				return true
			}
			// 1. JSON against the ground truth, several argument forms
			j0 := run("export", "--out", "json", "data.cue")
			if !check("json", "file argument", "export --out json data.cue", j0, d, false) {
				return
			}
			c.Count("json_equals_ground_truth", 1)
			check("json", "package argument", "export --out json .", run("export", "--out", "json", "."), d, false)
			check("json", "--escape", "export --out json --escape data.cue", run("export", "--out", "json", "--escape", "data.cue"), d, false)
			// -e path: the first key that is a plain identifier
			for k, key := range d.Keys {
				if key != "" && strings.IndexFunc(key, func(r rune) bool { return !(r >= 'a' && r <= 'z') }) < 0 && key != "null" && key != "true" && key != "false" && key != "if" && key != "for" && key != "in" && key != "let" {
					check("json", "-e path", "export --out json -e "+key+" data.cue", run("export", "--out", "json", "-e", key, "data.cue"), d.Vals[k], false)
					c.Count("expression_flag_cases", 1)
					break
				}
			}
			// 2. every encoding: export (three output forms), import, export --out json
			encs := []string{"json", "yaml", "cue"}
			if tomlCase && c12tomlSafe(d) {
				encs = append(encs, "toml")
			}
			for _, enc := range encs {
				ext := enc
				form := r.IntN(3)
				file := "out." + ext
				if enc == "yaml" && r.IntN(2) == 0 {
					file = "out.yml"
				}
				var res c12run
				var cmdline string
				switch form {
				case 0:
					cmdline = "export --out " + enc + " data.cue > " + file
					res = run("export", "--out", enc, "data.cue")
					if res.code == 0 {
						os.WriteFile(filepath.Join(dir, file), []byte(res.out), 0o666)
					}
				case 1:
					cmdline = "export -o " + file + " data.cue"
					res = run("export", "-o", file, "data.cue")
				default:
					file = "out.dat"
					cmdline = "export -o " + enc + ":" + file + " data.cue"
					res = run("export", "-o", enc+":"+file, "data.cue")
				}
				if res.code != 0 {
					viol("exit|"+enc+"|"+c12errClass(res.errs), fmt.Sprintf("exit status %d exporting a concrete package to %s: %s", res.code, enc, strings.TrimSpace(res.errs)), cmdline)
					continue
				}
				if _, err := os.Stat(filepath.Join(dir, file)); err != nil {
					viol("no-output-file|"+enc, "no output file "+file, cmdline)
					continue
				}
				// a second -o without --force must refuse to overwrite; with --force it must succeed
				if form == 1 && r.IntN(4) == 0 {
					if again := run("export", "-o", file, "data.cue"); again.code == 0 {
						viol("overwrite-without-force|"+enc, "export -o overwrites an existing file without --force", cmdline)
					}
					if again := run("export", "--force", "-o", file, "data.cue"); again.code != 0 {
						viol("force-fails|"+enc, "export --force -o fails: "+again.errs, cmdline)
					}
				}
				var back c12run
				var backCmd string
				if enc == "cue" {
					backCmd = "export --out json cue: " + file
					back = run("export", "--out", "json", "cue:", file)
				} else {
					// import writes <name>.cue next to the input
					imp := run("import", "-f", "-o", "back_"+enc+".cue", enc+":", file)
					if imp.code != 0 {
						viol("import-exit|"+enc+"|"+c12errClass(imp.errs), fmt.Sprintf("cue import of the exported %s fails (exit %d): %s", enc, imp.code, strings.TrimSpace(imp.errs)), cmdline+" ; import -f -o back_"+enc+".cue "+enc+": "+file)
						continue
					}
					backCmd = "import -f -o back_" + enc + ".cue " + enc + ": " + file + " ; export --out json back_" + enc + ".cue"
					back = run("export", "--out", "json", "back_"+enc+".cue")
				}
				if check(enc, "export, import, export --out json", cmdline+" ; "+backCmd, back, d, enc == "toml") {
					c.Count("round_trip_ok:"+enc, 1)
				}
				os.Remove(filepath.Join(dir, file))
			}
			// 3. exit status of failing packages, every encoding
			if i%4 == 0 {
				bad := []struct{ name, extra string }{
					{"non-concrete", "\nverifNC: int\n"},
					{"conflict", "\nverifC: 1\nverifC: 2\n"},
					{"required-missing", "\nverifR!: int\n"},
				}[r.IntN(3)]
				os.WriteFile(filepath.Join(dir, "bad.cue"), []byte("package q\n\n"+d.CUE()+bad.extra), 0o666)
				for _, enc := range []string{"json", "yaml", "toml", "cue"} {
					res := run("export", "--out", enc, "bad.cue")
					if res.code == 0 {
						viol("exit-zero|"+bad.name+"|"+enc, "exit status 0 for a "+bad.name+" package exported to "+enc+"; stdout:\n"+res.out, "export --out "+enc+" bad.cue")
					} else {
						c.Count("failing_package_refused:"+bad.name, 1)
					}
					if strings.TrimSpace(res.out) != "" && res.code != 0 {
						c.Count("failing_package_partial_stdout", 1)
					}
				}
				os.Remove(filepath.Join(dir, "bad.cue"))
			}
			// 4. values TOML cannot represent must be refused, not changed silently
			if i%8 == 1 {
				for _, tc := range []struct{ name, src string }{
					{"toml-null", "package t\n\na: null\nb: 1\n"},
					{"toml-null-in-list", "package t\n\na: [1, null]\n"},
					{"toml-int-beyond-int64", "package t\n\na: 12345678901234567890123\n"},
				} {
					os.WriteFile(filepath.Join(dir, "t.cue"), []byte(tc.src), 0o666)
					res := run("export", "--out", "toml", "t.cue")
					if res.code == 0 {
						viol(tc.name+"-exported-silently", "a value TOML cannot represent is exported with exit status 0:\n"+res.out, "export --out toml t.cue   ("+strings.ReplaceAll(tc.src, "\n", " ")+")")
					} else {
						c.Count("toml_unrepresentable_refused:"+tc.name, 1)
					}
				}
				os.Remove(filepath.Join(dir, "t.cue"))
			}
			mu.Lock()
			invocations += ninv
			mu.Unlock()
		})
		c.Set("cli_invocations", invocations)
		c.Sample(map[string]any{"package": "package p\n\n" + gen.GenData(mon.RNG(c.Seed, "C12", "sample"), gen.DataOpts{MaxDepth: 2}, 0).CUE()})
	})
}
