package main

// C04 model: a literal implementation of the spec's value/default pair rules (M0/M1, D0-D2, U0-U2)
// over finite sets of leaf values.  Written from doc/ref/spec.md §Default values.

import (
	"fmt"
	"math/rand/v2"
	"sort"
	"strings"
)

// ----- c4leaf algebra -----
type c4leaf struct {
	atom     string // "" if none; "1","2","3",`"a"`
	isInt    bool
	isString bool
	ge2      bool
	st       map[string]string // struct of atoms; nil if scalar
	isStruct bool
}

func c4atomKind(a string) string {
	if strings.HasPrefix(a, `"`) {
		return "string"
	}
	return "int"
}
func (l c4leaf) key() string {
	if l.isStruct {
		var ks []string
		for k, v := range l.st {
			ks = append(ks, k+":"+v)
		}
		sort.Strings(ks)
		return "{" + strings.Join(ks, ",") + "}"
	}
	return fmt.Sprintf("%s/%v/%v/%v", l.atom, l.isInt, l.isString, l.ge2)
}
func (l c4leaf) concrete() bool { return l.isStruct || l.atom != "" }

func c4unify(a, b c4leaf) (c4leaf, bool) {
	if a.isStruct != b.isStruct {
		return c4leaf{}, false
	}
	if a.isStruct {
		m := map[string]string{}
		for k, v := range a.st {
			m[k] = v
		}
		for k, v := range b.st {
			if w, ok := m[k]; ok && w != v {
				return c4leaf{}, false
			}
			m[k] = v
		}
		return c4leaf{st: m, isStruct: true}, true
	}
	r := c4leaf{isInt: a.isInt || b.isInt, isString: a.isString || b.isString, ge2: a.ge2 || b.ge2}
	switch {
	case a.atom != "" && b.atom != "":
		if a.atom != b.atom {
			return c4leaf{}, false
		}
		r.atom = a.atom
	case a.atom != "":
		r.atom = a.atom
	default:
		r.atom = b.atom
	}
	if r.isInt && r.isString {
		return c4leaf{}, false
	}
	if r.ge2 && r.isString {
		return c4leaf{}, false
	}
	if r.atom != "" {
		k := c4atomKind(r.atom)
		if r.isInt && k != "int" || r.isString && k != "string" {
			return c4leaf{}, false
		}
		if r.ge2 && (k != "int" || r.atom == "1") {
			return c4leaf{}, false
		}
		// atom absorbs constraints
		r = c4leaf{atom: r.atom}
	}
	return r, true
}

type c4set []c4leaf

func (s c4set) dedupe() c4set {
	seen := map[string]bool{}
	var out c4set
	for _, l := range s {
		if !seen[l.key()] {
			seen[l.key()] = true
			out = append(out, l)
		}
	}
	return out
}
func c4cross(a, b c4set) c4set {
	var out c4set
	for _, x := range a {
		for _, y := range b {
			if u, ok := c4unify(x, y); ok {
				out = append(out, u)
			}
		}
	}
	return out.dedupe()
}

func c4survive(d, v c4set) c4set {
	var out c4set
	for _, x := range d {
		for _, y := range v {
			if _, ok := c4unify(x, y); ok {
				out = append(out, x)
				break
			}
		}
	}
	return out
}

type c4pair struct {
	v   c4set
	d   c4set
	has bool // ⟨v, d⟩ rather than ⟨v⟩; d may be empty: ⟨1|2, _|_⟩ is the spec's value of (*1|2) & (1|*2)
}

// ----- expressions -----
type c4expr struct {
	op     string // "c4leaf","&","|"
	c4leaf c4leaf
	src    string
	args   []*c4expr
	marks  []bool
}

var c4leafSrcs = []struct {
	src string
	l   c4leaf
}{
	{"1", c4leaf{atom: "1"}}, {"2", c4leaf{atom: "2"}}, {"3", c4leaf{atom: "3"}}, {`"a"`, c4leaf{atom: `"a"`}},
	{"int", c4leaf{isInt: true}}, {"string", c4leaf{isString: true}}, {">=2", c4leaf{ge2: true}},
	{"{a: 1}", c4leaf{isStruct: true, st: map[string]string{"a": "1"}}},
	{"{b: 2}", c4leaf{isStruct: true, st: map[string]string{"b": "2"}}},
	{"{a: 1, b: 2}", c4leaf{isStruct: true, st: map[string]string{"a": "1", "b": "2"}}},
	{"{a: 2}", c4leaf{isStruct: true, st: map[string]string{"a": "2"}}},
}

// c4genPool draws an expression over a random 2-4 element subset of the leaves, so that equal terms (the
// duplicate-elimination paths of the evaluator) are frequent.
func c4genPool(r *rand.Rand, depth int) *c4expr {
	perm := r.Perm(len(c4leafSrcs))
	return c4genL(r, depth, false, perm[:2+r.IntN(3)])
}

func c4gen(r *rand.Rand, depth int, insideMarked bool) *c4expr {
	return c4genL(r, depth, insideMarked, nil)
}

func c4genL(r *rand.Rand, depth int, insideMarked bool, pool []int) *c4expr {
	if depth == 0 || r.IntN(3) == 0 {
		l := c4leafSrcs[r.IntN(len(c4leafSrcs))]
		if pool != nil {
			l = c4leafSrcs[pool[r.IntN(len(pool))]]
		}
		return &c4expr{op: "leaf", c4leaf: l.l, src: l.src}
	}
	if r.IntN(2) == 0 {
		return &c4expr{op: "&", args: []*c4expr{c4genL(r, depth-1, insideMarked, pool), c4genL(r, depth-1, insideMarked, pool)}}
	}
	n := 2 + r.IntN(2)
	e := &c4expr{op: "|"}
	marked := !insideMarked && r.IntN(2) == 0
	any := false
	for i := 0; i < n; i++ {
		m := marked && r.IntN(2) == 0
		any = any || m
		e.marks = append(e.marks, m)
	}
	for i := 0; i < n; i++ {
		// a marked disjunction's terms must not contain marks (no nesting)
		e.args = append(e.args, c4genL(r, depth-1, insideMarked || any, pool))
	}
	return e
}

func (e *c4expr) String() string {
	switch e.op {
	case "leaf":
		return e.src
	case "&":
		return "(" + e.args[0].String() + " & " + e.args[1].String() + ")"
	default:
		var parts []string
		for i, a := range e.args {
			s := a.String()
			if e.marks[i] {
				s = "*" + s
			}
			parts = append(parts, s)
		}
		return "(" + strings.Join(parts, " | ") + ")"
	}
}

// c4variant selects the recorded deviation of the pinned tree (finding C04 collapsed-marked-disjunction): an
// expression whose value set has one element is simplified to that plain value and carries no default.
func c4eval(e *c4expr) c4pair { return c4evalV(e, false) }

func c4evalV(e *c4expr, variant bool) c4pair {
	switch e.op {
	case "leaf":
		return c4pair{v: c4set{e.c4leaf}}
	case "&":
		a, b := c4evalV(e.args[0], variant), c4evalV(e.args[1], variant)
		p := c4pair{v: c4cross(a.v, b.v)}
		ad, bd := c4survive(a.d, b.v), c4survive(b.d, a.v)
		// "if all the marked disjuncts of a marked disjunction are eliminated, then the remaining unmarked
		// disjuncts are considered as if they originated from an unmarked disjunction"
		ah := a.has && !(len(a.d) > 0 && len(ad) == 0)
		bh := b.has && !(len(b.d) > 0 && len(bd) == 0)
		switch {
		case ah && bh:
			p.d, p.has = c4cross(ad, bd), true // U2; may be bottom, which then persists
		case ah:
			p.d, p.has = c4cross(ad, b.v), true // U1
		case bh:
			p.d, p.has = c4cross(a.v, bd), true
		}
		if variant && len(p.v) == 1 {
			p.d, p.has = nil, false
		}
		return p
	default:
		marked := false
		for _, m := range e.marks {
			marked = marked || m
		}
		var p c4pair
		for i, a := range e.args {
			x := c4evalV(a, variant)
			if marked {
				if e.marks[i] {
					if !x.has {
						x.d, x.has = x.v, true // M1
					}
				} else {
					x.d, x.has = nil, false // M0/M3
				}
			}
			p.v = append(p.v, x.v...)
			if x.has {
				p.d = append(p.d, x.d...) // D1/D2
				p.has = true
			}
		}
		p.v = p.v.dedupe()
		p.d = p.d.dedupe()
		if marked && len(p.d) == 0 {
			p.has = false // every marked term was eliminated
		}
		if variant && len(p.v) == 1 {
			p.d, p.has = nil, false
		}
		return p
	}
}
