package main

// C07 – printing an evaluated value as CUE and evaluating it again gives the same value.
// Monitor: observation(v) == observation(compile(format(v.Syntax(profile)))) under the
// projection each option profile promises; the printed text must parse and compile alone.

import (
	"encoding/json"
	"fmt"
	"math/rand/v2"
	"os"
	"os/exec"
	"path/filepath"
	"reflect"
	"regexp"
	"sort"
	"strings"
	"time"

	"cuelang.org/go/cue"
	"cuelang.org/go/cue/cuecontext"
	"cuelang.org/go/cue/format"
	"cuelang.org/go/cue/parser"
	"cuelang.org/go/verifh/gen"
	"cuelang.org/go/verifh/obs"
)

type c07profile struct {
	name string
	opts []cue.Option
	mode string // observation mode for the comparison
	// needs: concrete => only when Validate(Concrete) succeeds
	concrete bool
}

var c07profiles = []c07profile{
	{"concrete", []cue.Option{cue.Concrete(true)}, "data", true},
	{"final", []cue.Option{cue.Final()}, "final", false},
	{"eval", []cue.Option{cue.Final(), cue.Definitions(true), cue.Attributes(true), cue.Optional(false)}, "finaldefs", false},
	{"all", []cue.Option{cue.All()}, "raw", false},
	{"default", nil, "raw", false},
	{"docs-defs-hidden", []cue.Option{cue.Docs(true), cue.Definitions(true), cue.Hidden(true), cue.Optional(true)}, "raw", false},
}

func c07observe(ctx *cue.Context, v cue.Value, mode string) string {
	if mode == "data" {
		b, err := v.MarshalJSON()
		if err != nil {
			return "json-error: " + err.Error()
		}
		return string(b)
	}
	o := obs.New(ctx, mode, obs.DefaultProbes, obs.DefaultLabels)
	// `{_#def, _#def: {...}}` is how the exporter keeps a value taken out of a definition closed:
	// the helper definition is an artefact of printing, not part of the value
	o.IgnoreLabels = map[string]bool{"_#def": true}
	return o.Observe(v)
}

// c07roundTrip prints v with every profile, recompiles the text and compares.
func c07roundTrip(src string, sub string) map[string]any {
	out := map[string]any{}
	ctx := cuecontext.New()
	v := ctx.CompileString(src)
	if sub != "" {
		// the statement is about programs whose evaluation succeeds: a value taken out of a program
		// with an error elsewhere may refer to the erroneous field (recorded C01 class)
		if c07hasError(c07observe(ctx, v, "raw")) {
			out["skip"] = "evaluation error"
			return out
		}
		v = v.LookupPath(cue.ParsePath(sub))
	}
	if !v.Exists() {
		out["skip"] = "no value"
		return out
	}
	if c07hasError(c07observe(ctx, v, "raw")) {
		// an error somewhere below (in a definition, an optional or required field) that Validate does not report
		out["skip"] = "evaluation error"
		return out
	}
	concrete := v.Validate(cue.Concrete(true)) == nil
	res := map[string]any{}
	for _, p := range c07profiles {
		if p.concrete && !concrete {
			continue
		}
		r := map[string]any{}
		res[p.name] = r
		n := v.Syntax(p.opts...)
		b, err := format.Node(n)
		if err != nil {
			r["fail"] = "format: " + err.Error()
			continue
		}
		text := string(b)
		r["text"] = trunc9(text, 3000)
		if _, err := parser.ParseFile("out.cue", b); err != nil {
			if _, err2 := parser.ParseExpr("out.cue", b); err2 != nil {
				r["fail"] = "printed text does not parse: " + err.Error()
				continue
			}
		}
		ctx2 := cuecontext.New()
		w := ctx2.CompileBytes(b)
		if err := w.Err(); err != nil && !w.Exists() {
			r["fail"] = "printed text does not compile: " + err.Error()
			continue
		}
		if err := w.Validate(); err != nil && c07hasError(c07observe(ctx2, w, "raw")) {
			r["fail"] = "printed text evaluates to an error: " + err.Error()
			continue
		}
		a, bb := c07observe(ctx, v, p.mode), c07observe(ctx2, w, p.mode)
		if a != bb {
			r["fail"] = "re-evaluated value differs"
			r["want"], r["got"] = trunc9(a, 2500), trunc9(bb, 2500)
			continue
		}
		// instantiation probe: expressions over free variables look alike while incomplete; give the
		// free top-level scalars concrete values on both sides and compare what the expressions compute
		// (only for the profiles that print expressions with their references: value-mode output, i.e.
		// Final/Concrete, deliberately replaces references by values and so forgets the links between fields)
		if p.mode == "raw" && sub == "" {
			ia, na := c07instantiate(ctx, v)
			ib, nb := c07instantiate(ctx2, w)
			if na > 0 && na == nb {
				oa, ob := c07observe(ctx, ia, "final"), c07observe(ctx2, ib, "final")
				r["instantiated"] = na
				if oa != ob {
					r["fail"] = "re-evaluated value computes something else once its free variables are given values"
					r["want"], r["got"] = trunc9(oa, 2500), trunc9(ob, 2500)
				}
			}
		}
	}
	out["profiles"] = res
	out["concrete"] = concrete
	return out
}

// c07hasError: an error other than "incomplete" somewhere in the observation (a field that is still an
// expression over non-concrete values is incomplete, which is a successful, non-concrete result).
func c07hasError(o string) bool {
	return strings.Contains(o, "_|_(eval)") || strings.Contains(o, "_|_(cycle)") || strings.Contains(o, "_|_(structcycle)") || strings.Contains(o, "_|_(fields:") || strings.Contains(o, "_|_(nil)")
}

// c07instantiate fills every non-concrete top-level int/number/string field with a fixed concrete value.
func c07instantiate(ctx *cue.Context, v cue.Value) (cue.Value, int) {
	it, err := v.Fields()
	if err != nil {
		return v, 0
	}
	type fill struct {
		sel cue.Selector
		val any
	}
	var fills []fill
	ints := []int{10, 5, 3, 7, 2, 11}
	n := 0
	for it.Next() {
		fv := it.Value()
		if fv.IsConcrete() {
			continue
		}
		if _, ok := fv.Default(); ok && false {
			continue
		}
		switch k := fv.IncompleteKind(); {
		case k&^(cue.IntKind|cue.FloatKind) == 0 && k != 0:
			if op, _ := fv.Expr(); op == cue.NoOp || op == cue.AndOp || op == cue.OrOp {
				fills = append(fills, fill{it.Selector(), ints[n%len(ints)]})
				n++
			}
		}
	}
	out := v
	for _, f := range fills {
		out = out.FillPath(cue.MakePath(f.sel), f.val)
	}
	return out, len(fills)
}

func init() {
	batchOps["c07rt"] = func(cs bcase) map[string]any { return c07roundTrip(cs.Src, cs.Args["sub"]) }
}

// c07class recognises recorded defect classes from the failure and the program text.
var c07hiddenLetRe = regexp.MustCompile(`let\[\]: reference "(_[A-Za-z0-9_]*)" not found`)

func c07class(profile, fail, src, text string) string {
	return c07class2(profile, fail, src, text, "", "")
}

func c07class2(profile, fail, src, text, want, got string) string {
	if fail == "re-evaluated value differs" && strings.Contains(text, "_#def:") && strings.Contains(want, "|open") &&
		strings.Count(got, "|open") < strings.Count(want, "|open") {
		// a value that embeds a definition is printed as {_#def, _#def: {...}}: the literal's own nested
		// structs, which were open, now sit inside a definition and are closed recursively
		return "C07|def-wrapper-closes-nested-structs"
	}
	if m := c07hiddenLetRe.FindStringSubmatch(fail); m != nil && (profile == "all" || profile == "default" || profile == "docs-defs-hidden") &&
		strings.Contains(src, m[1]+":") && strings.Contains(text, "let ") {
		// a reference to a hidden field of an inner struct is printed through a let that is hoisted
		// to the top level of the output, where the hidden field is not in scope
		return "C07|hidden-field-reference-hoisted-as-top-level-let"
	}
	if m := c07letRefRe.FindStringSubmatch(fail); m != nil && strings.Contains(text, "let ") && !strings.Contains(text, m[1]+":") && strings.Contains("\n"+src, "\n"+m[1]+":") {
		// the value was taken out of its scope: a let clause inside it refers to a field outside the
		// value and is printed as is, leaving the reference dangling
		return "C07|let-expression-with-out-of-scope-reference"
	}
	return ""
}

var c07letRefRe = regexp.MustCompile(`let\[\]: reference "([A-Za-z#][A-Za-z0-9_#]*)" not found`)

func init() {
	register("C07", "exploration", func(c *Ctx) {
		c.Rule = "every program of the C01 generator that evaluates without error (whole file and, for a sample, single fields taken out of their scope so that references must be made self-contained), plus generated programs that import builtin packages (renamed imports, fields that shadow the package name, validators and incomplete calls that stay in the result), plus the evaluable import-free sources of the frozen evaluator corpus; for each of the option profiles Concrete(true) (= cue export --out cue; data compared as JSON), Final(), the `cue eval` set (Final, Definitions, Attributes), All(), no options, and Docs+Definitions+Hidden+Optional: Syntax → format.Node → must parse and compile on its own → must evaluate to a value whose observation (projection of the profile: data / final / final+definitions / raw) equals that of the printed value. Runs in isolated worker processes. A sample also goes through the cue binary (cue eval, cue export --out cue, cue def). Non-trivial = distinct error-free program with >= 2 fields for which at least 4 profiles were compared."
		c.Assume = []string{"equivalence is the public-API observation of DESIGN §3.2; docs and attribute text are not compared", "in final/data projections an unresolved disjunction is observed as the set of its distinct projected disjuncts"}
		if c.Replay != nil {
			src, _ := c.Replay["program"].(string)
			sub, _ := c.Replay["sub"].(string)
			res := c.RunBatch([]bcase{{ID: "r", Op: "c07rt", Src: src, Args: map[string]string{"sub": sub}}}, 60*time.Second)
			c.Eval(1)
			c07judge(c, "r", src, sub, "replay", res["r"])
			return
		}
		nGen := c.N(1500, 40000)
		var cases []bcase
		meta := map[string][3]string{}
		for k := 0; k < nGen; k++ {
			r := c.RNG(fmt.Sprintf("gen-%d", k))
			src := gen.Program(r)
			id := fmt.Sprintf("g%d", k)
			cases = append(cases, bcase{ID: id, Op: "c07rt", Src: src})
			meta[id] = [3]string{src, "", "gen"}
			if k%4 == 0 {
				sub := fmt.Sprintf("f%d", r.IntN(4))
				cases = append(cases, bcase{ID: id + "/" + sub, Op: "c07rt", Src: src, Args: map[string]string{"sub": sub}})
				meta[id+"/"+sub] = [3]string{src, sub, "gen-subvalue"}
			}
			if k < 2 {
				c.Sample(map[string]any{"program": src})
			}
		}
		// programs that import builtin packages (renamed or not, shadowed by fields of the package's name, used in
		// validators that stay in the result, in calls that stay incomplete, and in concrete calls): the printed
		// text has to bring the imports it needs, under names that resolve
		nImp := c.N(1200, 30000)
		for k := 0; k < nImp; k++ {
			r := c.RNG(fmt.Sprintf("imp-%d", k))
			src := c07importProgram(r)
			id := fmt.Sprintf("i%d", k)
			cases = append(cases, bcase{ID: id, Op: "c07rt", Src: src})
			meta[id] = [3]string{src, "", "gen"}
			if k%3 == 0 {
				sub := []string{"x", "y", "a", "b"}[r.IntN(4)]
				cases = append(cases, bcase{ID: id + "/" + sub, Op: "c07rt", Src: src, Args: map[string]string{"sub": sub}})
				meta[id+"/"+sub] = [3]string{src, sub, "gen-subvalue"}
			}
			if k < 1 {
				c.Sample(map[string]any{"import_program": src})
			}
		}
		// frozen witnesses of the recorded findings (replayed on every run)
		for i, w := range [][2]string{
			{"f0: 1\nf2: {let L = f0, _p: L, a: _p, b: L}\n", ""},
			{"f1: 2\nf3: {let L = f1, _p: L, a: _p, b: L}\n", "f3"},
			{"#D0: {e: \"\"}\nf3: {#D0, d: {d: \"bx\"}, b: \"bx\"}\n", "f3"},
		} {
			id := fmt.Sprintf("w%d", i)
			cases = append(cases, bcase{ID: id, Op: "c07rt", Src: w[0], Args: map[string]string{"sub": w[1]}})
			meta[id] = [3]string{w[0], w[1], "gen-subvalue"}
		}
		skip := c07loadSkip()
		for _, cf := range loadCorpus() {
			if !strings.HasPrefix(cf.Name, "cue/testdata/") || strings.Contains(cf.Src, "import ") || strings.Contains(cf.Src, "@experiment") || strings.Contains(cf.Src, "package ") || len(cf.Src) > 6000 {
				continue
			}
			if skip[cf.Name] {
				c.Count("corpus_listed", 1)
				continue
			}
			id := "c:" + cf.Name
			cases = append(cases, bcase{ID: id, Op: "c07rt", Src: cf.Src})
			meta[id] = [3]string{cf.Src, "", "corpus|" + cf.Name}
		}
		res := c.RunBatch(cases, 30*time.Second)
		for id, m := range meta {
			c07judge(c, id, m[0], m[1], m[2], res[id])
		}
		c07cli(c, meta, res)
	})
}

func c07judge(c *Ctx, id, src, sub, origin string, r *bres) {
	if r == nil || r.Status != "ok" {
		c.Count("inconclusive_cases", 1) // crashes and hangs are reported by C02
		if r != nil {
			c.Count("worker_"+r.Status, 1)
		}
		return
	}
	if s, ok := r.Out["skip"].(string); ok {
		c.Count("skipped:"+s, 1)
		return
	}
	profs, _ := r.Out["profiles"].(map[string]any)
	compared := 0
	for name, pv := range profs {
		p, _ := pv.(map[string]any)
		c.Eval(1)
		c.Count("profile:"+name, 1)
		compared++
		fail, _ := p["fail"].(string)
		if fail == "" {
			continue
		}
		text, _ := p["text"].(string)
		if lf := os.Getenv("VERIF_C07_LIST"); lf != "" && strings.HasPrefix(origin, "corpus|") {
			f, _ := os.OpenFile(lf, os.O_APPEND|os.O_CREATE|os.O_WRONLY, 0o666)
			fmt.Fprintf(f, "%s\t%s: %s\n", strings.TrimPrefix(origin, "corpus|"), name, strings.ReplaceAll(trunc9(fail, 120), "\n", " "))
			f.Close()
			continue
		}
		key := "C07|" + origin + "|" + name
		if origin == "gen" || origin == "gen-subvalue" {
			key = "C07|gen|" + name + "|" + monHash(src+sub)
		}
		wantS, _ := p["want"].(string)
		gotS, _ := p["got"].(string)
		if k := c07class2(name, fail, src, text, wantS, gotS); k != "" {
			key = k
		}
		what := fmt.Sprintf("profile %s: %s\n--- program%s\n%s\n--- printed\n%s", name, fail, map[bool]string{true: " (value at " + sub + ")", false: ""}[sub != ""], trunc9(src, 1200), trunc9(text, 1200))
		if w, ok := p["want"].(string); ok {
			what += fmt.Sprintf("\n--- observation of the value\n%s\n--- observation of the re-evaluated text\n%s", trunc9(w, 800), trunc9(fmt.Sprint(p["got"]), 800))
		}
		c.Violate(key, what, map[string]any{"program": src, "sub": sub, "profile": name, "printed": text})
	}
	if compared >= 4 && strings.Count(src, "\n") >= 2 {
		c.Nontrivial(src + "|" + sub)
	}
}

func c07loadSkip() map[string]bool {
	out := map[string]bool{}
	data, err := os.ReadFile(filepath.Join(monRoot(), "corpus", "c07_not_roundtripping.txt"))
	if err != nil {
		return out
	}
	for _, line := range strings.Split(string(data), "\n") {
		if line == "" || strings.HasPrefix(line, "#") {
			continue
		}
		name, _, _ := strings.Cut(line, "\t")
		out[name] = true
	}
	return out
}

// c07cli ties the library profiles to the commands: cue eval / cue export --out cue / cue def output must
// evaluate (with the same binary) to the same JSON as the input where the input is concrete.
func c07cli(c *Ctx, meta map[string][3]string, res map[string]*bres) {
	if c.CueBin == "" {
		return
	}
	dir := filepath.Join(os.Getenv("VERIF_RUNDIR"), "c07cli")
	os.MkdirAll(dir, 0o777)
	var ids []string
	for id, m := range meta {
		r := res[id]
		if m[1] != "" || r == nil || r.Status != "ok" || r.Out["concrete"] != true {
			continue
		}
		ids = append(ids, id)
	}
	sort.Strings(ids) // corpus ids ("c:...") sort first: the CLI sample is deterministic
	if len(ids) > c.N(150, 3000) && os.Getenv("VERIF_C07_LIST") == "" {
		ids = ids[:c.N(150, 3000)]
	}
	run := func(args ...string) (string, int) {
		cmd := exec.Command(c.CueBin, args...)
		cmd.Env = append(os.Environ(), "CUE_CACHE_DIR="+filepath.Join(dir, "cache"), "HOME="+dir)
		out, err := cmd.Output()
		code := 0
		if ee, ok := err.(*exec.ExitError); ok {
			code = ee.ExitCode()
		} else if err != nil {
			code = -1
		}
		return string(out), code
	}
	c.Par(len(ids), func(i int) {
		src := meta[ids[i]][0]
		in := filepath.Join(dir, fmt.Sprintf("in%d.cue", i))
		os.WriteFile(in, []byte(src), 0o666)
		defer os.Remove(in)
		want, code := run("export", "--out", "json", in)
		if code != 0 {
			return
		}
		for _, sub := range [][]string{{"eval", in}, {"export", "--out", "cue", in}, {"def", in}} {
			text, code := run(sub...)
			if code != 0 {
				if lf := os.Getenv("VERIF_C07_LIST"); lf != "" && strings.HasPrefix(meta[ids[i]][2], "corpus|") {
					f, _ := os.OpenFile(lf, os.O_APPEND|os.O_CREATE|os.O_WRONLY, 0o666)
					fmt.Fprintf(f, "%s\tcli %s fails\n", strings.TrimPrefix(meta[ids[i]][2], "corpus|"), sub[0])
					f.Close()
					continue
				}
				c.Violate("C07|cli|"+sub[0]+"|"+monHash(src), fmt.Sprintf("cue %s fails (exit %d) on a package that exports as JSON", sub[0], code), map[string]any{"program": src, "cmd": sub})
				continue
			}
			outp := filepath.Join(dir, fmt.Sprintf("out%d-%s.cue", i, sub[0]))
			os.WriteFile(outp, []byte(text), 0o666)
			got, code2 := run("export", "--out", "json", outp)
			os.Remove(outp)
			c.Count("cli:"+sub[0], 1)
			c.Eval(1)
			var gj, wj any
			json.Unmarshal([]byte(got), &gj)
			json.Unmarshal([]byte(want), &wj)
			if code2 != 0 || !reflect.DeepEqual(gj, wj) { // field order may differ (only the data must be the same)
				if lf := os.Getenv("VERIF_C07_LIST"); lf != "" && strings.HasPrefix(meta[ids[i]][2], "corpus|") {
					f, _ := os.OpenFile(lf, os.O_APPEND|os.O_CREATE|os.O_WRONLY, 0o666)
					fmt.Fprintf(f, "%s\tcli %s\n", strings.TrimPrefix(meta[ids[i]][2], "corpus|"), sub[0])
					f.Close()
					continue
				}
				c.Violate("C07|cli|"+sub[0]+"|"+monHash(src), fmt.Sprintf("output of cue %s does not export to the same JSON (exit %d)\n--- program\n%s\n--- output\n%s\n--- want\n%s\n--- got\n%s", sub[0], code2, trunc9(src, 800), trunc9(text, 800), trunc9(want, 400), trunc9(got, 400)),
					map[string]any{"program": src, "cmd": sub, "printed": text})
			}
		}
	})
}

// c07importProgram: see the call site.
func c07importProgram(r *rand.Rand) string {
	type pkg struct {
		path, name string
		validators []string // on a value of kind
		kind       string
		calls      []string // incomplete calls over the free variable of that kind (%s)
		concrete   []string
	}
	pkgs := []pkg{
		{"strings", "strings", []string{"MinRunes(2)", "MaxRunes(5)"}, "string", []string{"ToUpper(%s)", "TrimSpace(%s)", "HasPrefix(%s, \"a\")"}, []string{"ToUpper(\"ab\")", "Repeat(\"a\", 2)"}},
		{"list", "list", []string{"MaxItems(3)", "MinItems(1)", "UniqueItems()"}, "[...int]", []string{"Sum(%s)", "Max(%s)"}, []string{"Sum([1, 2])", "Sort([2, 1], list.Ascending)"}},
		{"math", "math", []string{"MultipleOf(2)"}, "int", []string{"Abs(%s)", "Floor(%s)"}, []string{"Abs(-2)", "Floor(2.5)"}},
		// (struct.MinFields/MaxFields are left out: a struct validator taken out as a sub-value is printed as an
		// embedding of the output file, which is a struct that satisfies it - the two are not comparable)
		{"strconv", "strconv", []string{"Atoi(\"12\")"}, "int", []string{"Atoi(\"1\\(%s)\")"}, []string{"FormatInt(12, 10)"}},
	}
	r.Shuffle(len(pkgs), func(i, j int) { pkgs[i], pkgs[j] = pkgs[j], pkgs[i] })
	n := 1 + r.IntN(3)
	pkgs = pkgs[:n]
	var b strings.Builder
	alias := map[string]string{}
	for _, p := range pkgs {
		switch r.IntN(4) {
		case 0:
			a := []string{"s", "l", "m", "st", "x1"}[r.IntN(5)] + p.name[:1]
			alias[p.name] = a
			fmt.Fprintf(&b, "import %s %q\n", a, p.path)
		default:
			alias[p.name] = p.name
			fmt.Fprintf(&b, "import %q\n", p.path)
		}
	}
	free := map[string]string{"string": "vs", "[...int]": "vl", "int": "vi"}
	b.WriteString("vs: string\nvl: [...int]\nvi: int\n")
	var decls []string
	use := func(p pkg) string {
		a := alias[p.name]
		// sort.Ascending etc. inside concrete calls keep the package's own name: rewrite to the alias
		fix := func(t string) string { return strings.ReplaceAll(t, p.name+".", a+".") }
		switch k := r.IntN(6); {
		case k < 2:
			return p.kind + " & " + a + "." + p.validators[r.IntN(len(p.validators))]
		case k == 2:
			return a + "." + p.validators[r.IntN(len(p.validators))]
		case k == 3 && len(p.calls) > 0:
			return a + "." + fmt.Sprintf(p.calls[r.IntN(len(p.calls))], free[p.kind])
		case k == 4 && len(p.concrete) > 0:
			return a + "." + fix(p.concrete[r.IntN(len(p.concrete))])
		default:
			return a + "." + p.validators[r.IntN(len(p.validators))] + " & " + a + "." + p.validators[r.IntN(len(p.validators))]
		}
	}
	names := []string{"a", "b", "c", "d", "e", "g"}
	for i := 0; i < 2+r.IntN(4); i++ {
		decls = append(decls, fmt.Sprintf("%s: %s", names[i], use(pkgs[r.IntN(len(pkgs))])))
	}
	// nested structs in which a field has the name of a package (or of its alias)
	for _, sn := range []string{"x", "y"} {
		if r.IntN(3) == 0 {
			continue
		}
		p := pkgs[r.IntN(len(pkgs))]
		var inner []string
		if r.IntN(2) == 0 {
			shadow := p.name
			if alias[p.name] != p.name && r.IntN(2) == 0 {
				shadow = alias[pkgs[r.IntN(len(pkgs))].name] + "2"
			}
			inner = append(inner, shadow+": string")
		}
		for i := 0; i < 1+r.IntN(2); i++ {
			inner = append(inner, fmt.Sprintf("%s: %s", []string{"p", "q"}[i], use(pkgs[r.IntN(len(pkgs))])))
		}
		r.Shuffle(len(inner), func(i, j int) { inner[i], inner[j] = inner[j], inner[i] })
		decls = append(decls, fmt.Sprintf("%s: {%s}", sn, strings.Join(inner, ", ")))
	}
	r.Shuffle(len(decls), func(i, j int) { decls[i], decls[j] = decls[j], decls[i] })
	b.WriteString(strings.Join(decls, "\n"))
	b.WriteString("\n")
	// every import has to be used
	for _, p := range pkgs {
		if !strings.Contains(b.String(), alias[p.name]+".") {
			fmt.Fprintf(&b, "u%s: %s.%s\n", p.name, alias[p.name], p.validators[0])
		}
	}
	return b.String()
}
