package main

// C16 – the module cache never serves a partial download, whatever crashes or races.
// Driver: crash-point enumeration through verifhook (single and pairs), registry
// faults over a loopback OCI stack, concurrent multi-process histories checked
// with porcupine, and a hook-independent strace kill-injection cross-check.

import (
	"bufio"
	"bytes"
	"encoding/json"
	"fmt"
	"math/rand/v2"
	"os"
	"os/exec"
	"path/filepath"
	"sort"
	"strings"
	"sync"
	"syscall"
	"time"

	"github.com/anishathalye/porcupine"

	"cuelang.org/go/mod/modcache"
	"cuelang.org/go/verifh/c16w"
	"cuelang.org/go/verifh/mon"
)

type c16run struct {
	events   []map[string]any
	exitCode int
	killed   bool
	stderr   string
	timedOut bool
}

var c16seq struct {
	mu sync.Mutex
	n  int
}

// c16exec runs the worker with spec and env; wrap, if non-nil, is a command prefix (strace ...).
func c16exec(c *Ctx, bin string, spec c16w.Spec, env []string, wrap []string, dir string) c16run {
	c16seq.mu.Lock()
	c16seq.n++
	id := c16seq.n
	c16seq.mu.Unlock()
	specPath := filepath.Join(dir, fmt.Sprintf("spec-%d.json", id))
	b, _ := json.Marshal(spec)
	os.WriteFile(specPath, b, 0o666)
	outPath := filepath.Join(dir, fmt.Sprintf("out-%d.jsonl", id))
	errPath := filepath.Join(dir, fmt.Sprintf("err-%d.txt", id))
	outF, _ := os.Create(outPath)
	errF, _ := os.Create(errPath)
	args := append(append([]string{}, wrap...), bin, specPath)
	cmd := exec.Command(args[0], args[1:]...)
	cmd.Stdout = outF
	cmd.Stderr = errF
	cmd.Env = append(os.Environ(), env...)
	cmd.SysProcAttr = &syscall.SysProcAttr{Setpgid: true}
	var r c16run
	if err := cmd.Start(); err != nil {
		r.exitCode = -1
		r.stderr = err.Error()
		return r
	}
	done := make(chan error, 1)
	go func() { done <- cmd.Wait() }()
	select {
	case err := <-done:
		if err != nil {
			if ee, ok := err.(*exec.ExitError); ok {
				ws := ee.Sys().(syscall.WaitStatus)
				if ws.Signaled() {
					r.killed = true
				}
				r.exitCode = ws.ExitStatus()
				if wrap != nil && (r.exitCode == 137 || r.exitCode == 128+9) {
					r.killed = true
				}
			} else {
				r.exitCode = -1
			}
		}
	case <-time.After(120 * time.Second):
		syscall.Kill(-cmd.Process.Pid, syscall.SIGKILL)
		<-done
		r.timedOut = true
	}
	outF.Close()
	errF.Close()
	data, _ := os.ReadFile(outPath)
	sc := bufio.NewScanner(bytes.NewReader(data))
	sc.Buffer(make([]byte, 1<<20), 1<<24)
	for sc.Scan() {
		var m map[string]any
		if json.Unmarshal(sc.Bytes(), &m) == nil {
			r.events = append(r.events, m)
		}
	}
	eb, _ := os.ReadFile(errPath)
	r.stderr = string(eb)
	os.Remove(specPath)
	os.Remove(outPath)
	os.Remove(errPath)
	return r
}

func (r c16run) done() bool {
	for _, e := range r.events {
		if e["t"] == "done" {
			return true
		}
	}
	return false
}

func c16str(v any) string {
	if v == nil {
		return ""
	}
	return fmt.Sprint(v)
}

// c16checkInspect applies the availability invariant to an inspect run.
// wantComplete: after a clean run everything must be present and complete.
func c16checkInspect(c *Ctx, r c16run, wantComplete bool, key string, what string, rp map[string]any, wantVers ...string) (classes []string) {
	if len(wantVers) == 0 {
		wantVers = []string{"v0.0.1"}
	}
	if r.exitCode != 0 || r.timedOut {
		c.Inconclusive(fmt.Sprintf("inspect worker failed (%d): %s", r.exitCode, trunc9(r.stderr, 300)))
		return nil
	}
	for _, e := range r.events {
		if e["t"] != "inspect" {
			continue
		}
		ver := c16str(e["ver"])
		avail, _ := e["available"].(bool)
		cok, _ := e["content_ok"].(bool)
		zip, mod := c16str(e["zip"]), c16str(e["mod"])
		partial, _ := e["partial"].(bool)
		dir, _ := e["extract_dir"].(bool)
		desc := fmt.Sprintf("%s: available=%v content_ok=%v zip=%s mod=%s partial=%v dir=%v err=%s", ver, avail, cok, zip, mod, partial, dir, c16str(e["err"]))
		if avail && !cok {
			c.Violate(key+"|available-incomplete", what+": directory reported available while incomplete or wrong: "+desc, rp)
		}
		if strings.HasPrefix(zip, "bad") {
			c.Violate(key+"|zip-bad", what+": cached zip present but not the registry's bytes: "+desc, rp)
		}
		if strings.HasPrefix(mod, "bad") {
			c.Violate(key+"|mod-bad", what+": cached module file present but not the registry's bytes: "+desc, rp)
		}
		if c16str(e["err"]) != "" {
			c.Violate(key+"|inspect-err", what+": FetchFromCache fails with a non-NotFound error: "+desc, rp)
		}
		wanted := false
		for _, w := range wantVers {
			if w == ver {
				wanted = true
			}
		}
		if wantComplete && wanted && !avail {
			c.Violate(key+"|not-available", what+": after a clean fetch the module is not available: "+desc, rp)
		}
		cl := "nothing"
		switch {
		case avail:
			cl = "complete"
		case partial && dir:
			cl = "partial-marker+dir"
		case partial:
			cl = "partial-marker"
		case dir:
			cl = "dir-without-marker"
		case zip == "ok":
			cl = "zip-only"
		case func() bool { l, _ := e["tmp_files"].([]any); return len(l) > 0 }():
			cl = "temp-only"
		}
		classes = append(classes, cl)
	}
	return classes
}

// c16checkClean: a clean run must succeed on every op with correct content.
func c16checkClean(c *Ctx, r c16run, key, what string, rp map[string]any) {
	if r.timedOut {
		c.Violate(key+"|recover-hang", what+": the next fetch does not complete (120s)", rp)
		return
	}
	if !r.done() {
		c.Violate(key+"|recover-crash", fmt.Sprintf("%s: recovery run ended abnormally (exit %d): %s", what, r.exitCode, trunc9(r.stderr, 600)), rp)
		return
	}
	for _, e := range r.events {
		if e["t"] != "ret" {
			continue
		}
		found, _ := e["found"].(bool)
		cok, _ := e["content_ok"].(bool)
		if c16str(e["err"]) != "" || !found || !cok {
			c.Violate(key+"|recover-fails", fmt.Sprintf("%s: next %s(%s) fails or returns wrong content: found=%v content_ok=%v err=%s", what, e["op"], e["ver"], found, cok, c16str(e["err"])), rp)
		}
	}
}

func c16newCache(base string) string {
	d, _ := os.MkdirTemp(base, "cache-")
	return d
}

func c16rm(dir string) { modcache.RemoveAll(dir) }

var c16singleOps = [][]c16w.Op{{{Op: "fetch", Ver: "v0.0.1"}, {Op: "modfile", Ver: "v0.0.1"}}}

func init() {
	register("C16", "fault_enumeration", func(c *Ctx) {
		c.Rule = "module of 6 files in 4 directories served by an in-process registry; (1) every hook point n of Fetch+ModFile (verifhook: between all file-system effects incl. each extracted file) is a crash point: kill at n → inspect (availability invariant, zip/mod absent-or-complete) → clean run must succeed with exact content → inspect complete; (2) crash pairs (second crash inside the recovery run); (3) registry faults over a loopback OCI HTTP stack (connection lost mid-body at several offsets, consistent short body, error mid-body, 500, flipped byte, on zip and module-file blobs) each followed by inspect + clean run; (4) k processes × m goroutines (shared and separate Cache objects) running Fetch/FetchFromCache/ModFile on two versions with hook delays and one process killed at a PRNG hook: per-op call/return events with CLOCK_MONOTONIC stamps, open operations stay open; offline checks: content, ≤1 zip download per (Cache, version), porcupine linearizability per version; race detector; (5) strace kill-injection at every file-system syscall of the worker's thread as hook-independent cross-check; (6) lock-free readers: 2-4 reader processes polling FetchFromCache (and the fast path of Fetch) under strace with every stat-family call delayed 1.5-9 ms on exit, so that a reader sits between two of its own checks most of the time, against a writer whose extraction is slowed at the unzip hooks: whatever a reader is told is available must be complete at that moment (same history checks). Non-trivial = distinct (crash point | pair | fault | concurrent history) that left the cache in a non-empty intermediate state or produced >1 interleaved operation."
		c.Assume = []string{"crashes are process kills (page cache survives): ordering of effects against process death, not power loss", "each process has its own in-memory registry with byte-identical deterministic content", "linearizability model: per version state absent/present; Fetch → present with full content; FetchFromCache found iff present; an operation of a killed process may or may not have taken effect"}
		if c.Replay != nil {
			c.Inconclusive("replay by seed: rerun ./check C16 with the recorded seed (crash points are deterministic)")
			return
		}
		// workers are a separate small binary (fast start-up): race build for the concurrent
		// histories, plain build for crash enumeration and strace
		bin := os.Getenv("VERIF_C16W_RACE")
		plain := os.Getenv("VERIF_C16W")
		if bin == "" || plain == "" {
			c.Inconclusive("VERIF_C16W / VERIF_C16W_RACE not set (run through ./check)")
			return
		}
		base := filepath.Join(os.Getenv("VERIF_RUNDIR"), "c16")
		if os.Getenv("VERIF_RUNDIR") == "" {
			base, _ = os.MkdirTemp("", "c16")
		}
		os.MkdirAll(base, 0o777)
		defer func() {
			ents, _ := os.ReadDir(base)
			for _, e := range ents {
				c16rm(filepath.Join(base, e.Name()))
			}
			os.RemoveAll(base)
		}()
		vers := []string{"v0.0.1", "v0.0.2"}
		mkspec := func(cache, mode string, ops [][]c16w.Op) c16w.Spec {
			return c16w.Spec{Cache: cache, Mode: mode, Versions: vers, Ops: ops, Seed: c.Seed}
		}

		t0 := time.Now()
		// ---- (1) record the hook sequence
		cache0 := c16newCache(base)
		trace := filepath.Join(base, "trace0")
		r0 := c16exec(c, plain, mkspec(cache0, "run", c16singleOps), []string{"VERIF_HOOK_TRACE=" + trace}, nil, base)
		c16checkClean(c, r0, "C16|baseline", "baseline fetch", nil)
		tb, _ := os.ReadFile(trace)
		hooks := strings.Split(strings.TrimSpace(string(tb)), "\n")
		os.Remove(trace)
		c16rm(cache0)
		if len(hooks) < 20 {
			c.Inconclusive(fmt.Sprintf("only %d hook points reached: was the harness built with -tags verif?", len(hooks)))
			return
		}
		hookNames := map[string]int{}
		for _, h := range hooks {
			if _, name, ok := strings.Cut(h, " "); ok {
				hookNames[name]++
			}
		}
		c.Set("hook_points", hookNames)
		c.Set("hook_sequence_length", len(hooks))

		classCount := map[string]int{}
		var cmu sync.Mutex
		addClasses := func(cl []string) {
			cmu.Lock()
			for _, x := range cl {
				classCount[x]++
			}
			cmu.Unlock()
		}
		// single crashes, each followed by a recorded recovery (for pairs)
		recoverLen := make([]int, len(hooks)+1)
		c.Par(len(hooks), func(i int) {
			n := i + 1
			cache := c16newCache(base)
			defer c16rm(cache)
			rp := map[string]any{"crash_at": n, "hook": hooks[i]}
			key := fmt.Sprintf("C16|crash@%s", strings.SplitN(hooks[i], " ", 2)[1])
			what := fmt.Sprintf("crash at hook %s", hooks[i])
			c.Eval(1)
			r := c16exec(c, plain, mkspec(cache, "run", c16singleOps), []string{fmt.Sprintf("VERIF_CRASH_AT=%d", n)}, nil, base)
			if !r.killed {
				c.Inconclusive(fmt.Sprintf("worker was not killed at hook %d (exit %d): %s", n, r.exitCode, trunc9(r.stderr, 200)))
				return
			}
			cl := c16checkInspect(c, c16exec(c, plain, mkspec(cache, "inspect", nil), nil, nil, base), false, key, what, rp)
			addClasses(cl)
			if len(cl) > 0 && cl[0] != "nothing" {
				c.Nontrivial(fmt.Sprintf("single|%d", n))
			}
			tr := filepath.Join(base, fmt.Sprintf("trace-r%d", n))
			rr := c16exec(c, plain, mkspec(cache, "run", c16singleOps), []string{"VERIF_HOOK_TRACE=" + tr}, nil, base)
			c16checkClean(c, rr, key, what, rp)
			c16checkInspect(c, c16exec(c, plain, mkspec(cache, "inspect", nil), nil, nil, base), true, key, what+" then clean run", rp)
			tb, _ := os.ReadFile(tr)
			os.Remove(tr)
			if s := strings.TrimSpace(string(tb)); s != "" {
				recoverLen[n] = len(strings.Split(s, "\n"))
			}
		})
		c.Count("single_crash_points", int64(len(hooks)))

		c.Set("phase1_s", time.Since(t0).Seconds())
		// ---- (2) crash pairs
		type pair struct{ n1, n2 int }
		var pairs []pair
		for n1 := 1; n1 <= len(hooks); n1++ {
			for n2 := 1; n2 <= recoverLen[n1]; n2++ {
				pairs = append(pairs, pair{n1, n2})
			}
		}
		c.Set("crash_pairs_total", len(pairs))
		if !c.Thorough {
			r := c.RNG("pairs")
			r.Shuffle(len(pairs), func(i, j int) { pairs[i], pairs[j] = pairs[j], pairs[i] })
			if len(pairs) > 48 {
				pairs = pairs[:48]
			}
		} else {
			c.Set("exhaustive_pairs", true)
		}
		c.Par(len(pairs), func(i int) {
			p := pairs[i]
			cache := c16newCache(base)
			defer c16rm(cache)
			rp := map[string]any{"crash_at": p.n1, "then_crash_at": p.n2}
			key := fmt.Sprintf("C16|pair@%d,%d", p.n1, p.n2)
			what := fmt.Sprintf("crash at hook %d, then at hook %d of the recovery", p.n1, p.n2)
			c.Eval(1)
			r1 := c16exec(c, plain, mkspec(cache, "run", c16singleOps), []string{fmt.Sprintf("VERIF_CRASH_AT=%d", p.n1)}, nil, base)
			r2 := c16exec(c, plain, mkspec(cache, "run", c16singleOps), []string{fmt.Sprintf("VERIF_CRASH_AT=%d", p.n2)}, nil, base)
			if !r1.killed || !r2.killed {
				c.Count("pair_not_killed", 1)
				return
			}
			addClasses(c16checkInspect(c, c16exec(c, plain, mkspec(cache, "inspect", nil), nil, nil, base), false, key, what, rp))
			c16checkClean(c, c16exec(c, plain, mkspec(cache, "run", c16singleOps), nil, nil, base), key, what, rp)
			c16checkInspect(c, c16exec(c, plain, mkspec(cache, "inspect", nil), nil, nil, base), true, key, what+" then clean run", rp)
			c.Nontrivial(fmt.Sprintf("pair|%d|%d", p.n1, p.n2))
		})
		c.Count("crash_pairs_run", int64(len(pairs)))

		c.Set("phase2_s", time.Since(t0).Seconds())
		// ---- (3) registry faults over HTTP
		type fcase struct {
			f c16w.Fault
		}
		var fcases []c16w.Fault
		for _, kind := range []string{"eof-mid", "short-ok", "err-mid", "flip"} {
			for _, after := range []int{0, 1, 100, 512, 1000, 1500} {
				fcases = append(fcases, c16w.Fault{Kind: kind, After: after, Blob: "zip"})
			}
			fcases = append(fcases, c16w.Fault{Kind: kind, After: 10, Blob: "mod"})
			fcases = append(fcases, c16w.Fault{Kind: kind, After: 0, Blob: "mod"})
		}
		fcases = append(fcases, c16w.Fault{Kind: "status500", Blob: "zip"}, c16w.Fault{Kind: "status500", Blob: "mod"}, c16w.Fault{Kind: "delay", After: 50, Blob: "zip"})
		if c.Thorough {
			r := c.RNG("faults")
			for i := 0; i < 120; i++ {
				fcases = append(fcases, c16w.Fault{Kind: []string{"eof-mid", "short-ok", "err-mid", "flip"}[r.IntN(4)], After: r.IntN(2000), Blob: []string{"zip", "zip", "mod"}[r.IntN(3)], Times: 1 + r.IntN(2)})
			}
		}
		c.Par(len(fcases), func(i int) {
			f := fcases[i]
			cache := c16newCache(base)
			defer c16rm(cache)
			rp := map[string]any{"fault": f}
			key := fmt.Sprintf("C16|fault|%s|%s", f.Kind, f.Blob)
			what := fmt.Sprintf("registry fault %s after %d bytes of the %s blob", f.Kind, f.After, f.Blob)
			c.Eval(1)
			sp := mkspec(cache, "run", c16singleOps)
			sp.HTTP, sp.Fault = true, f
			r := c16exec(c, plain, sp, nil, nil, base)
			if !r.done() {
				c.Violate(key+"|crash", fmt.Sprintf("%s: worker ended abnormally: %s", what, trunc9(r.stderr, 500)), rp)
				return
			}
			fired := false
			for _, e := range r.events {
				if e["t"] == "faults" {
					if l, ok := e["fired"].([]any); ok && len(l) > 0 {
						fired = true
					}
				}
				if e["t"] == "ret" {
					// an operation may fail under a fault, but it must not claim success with wrong content
					if found, _ := e["found"].(bool); found {
						if ok, _ := e["content_ok"].(bool); !ok {
							c.Violate(key+"|wrong-content", fmt.Sprintf("%s: %s returned success with wrong content", what, e["op"]), rp)
						}
					}
				}
			}
			if !fired {
				c.Count("faults_not_fired", 1)
				return
			}
			c.Count("faults_fired", 1)
			c.Count("fault:"+f.Kind, 1)
			addClasses(c16checkInspect(c, c16exec(c, plain, mkspec(cache, "inspect", nil), nil, nil, base), false, key, what, rp))
			sp2 := mkspec(cache, "run", c16singleOps)
			sp2.HTTP = true
			c16checkClean(c, c16exec(c, plain, sp2, nil, nil, base), key, what, rp)
			c16checkInspect(c, c16exec(c, plain, mkspec(cache, "inspect", nil), nil, nil, base), true, key, what+" then clean run", rp)
			c.Nontrivial(fmt.Sprintf("fault|%s|%d|%s|%d", f.Kind, f.After, f.Blob, f.Times))
		})

		c.Set("phase3_s", time.Since(t0).Seconds())
		// ---- (4) concurrent histories
		nHist := c.N(20, 500)
		hashes := map[string]struct{}{}
		var hmu sync.Mutex
		c.Par(nHist, func(h int) {
			r := c.RNG(fmt.Sprintf("conc-%d", h))
			cache := c16newCache(base)
			defer c16rm(cache)
			k := 1 + r.IntN(4)
			killIdx := -1
			if r.IntN(3) == 0 && k > 1 {
				killIdx = r.IntN(k)
			}
			type procRes struct {
				run c16run
			}
			results := make([]c16run, k)
			var wg sync.WaitGroup
			for p := 0; p < k; p++ {
				m := 1 + r.IntN(8)
				ops := make([][]c16w.Op, m)
				skew := make([]int, m)
				for g := range ops {
					n := 2 + r.IntN(5)
					for i := 0; i < n; i++ {
						ops[g] = append(ops[g], c16w.Op{Op: []string{"fetch", "fromcache", "fromcache", "modfile"}[r.IntN(4)], Ver: vers[r.IntN(2)]})
					}
					skew[g] = r.IntN(2000)
				}
				sp := mkspec(cache, "run", ops)
				sp.SkewUS = skew
				sp.Caches = []int{0, 1, 2}[r.IntN(3)]
				sp.RegJitter = r.IntN(800)
				sp.Seed = c.Seed*1000 + int64(h*10+p)
				env := []string{fmt.Sprintf("VERIF_HOOK_DELAY=*=%d", []int{0, 50, 300, 1000}[r.IntN(4)])}
				if p == killIdx {
					env = append(env, fmt.Sprintf("VERIF_CRASH_AT=%d", 1+r.IntN(len(hooks))))
				}
				wg.Add(1)
				go func(p int, sp c16w.Spec, env []string) {
					defer wg.Done()
					results[p] = c16exec(c, bin, sp, env, nil, base)
				}(p, sp, env)
			}
			wg.Wait()
			c.Eval(1)
			c16checkHistory(c, h, results, killIdx, hashes, &hmu)
			// whatever happened, the cache must now be consistent and a clean run must work
			key := fmt.Sprintf("C16|conc-%d", h)
			c16checkInspect(c, c16exec(c, plain, mkspec(cache, "inspect", nil), nil, nil, base), false, key, "after a concurrent history", map[string]any{"history": h})
			c16checkClean(c, c16exec(c, plain, mkspec(cache, "run", [][]c16w.Op{{{Op: "fetch", Ver: "v0.0.1"}, {Op: "fetch", Ver: "v0.0.2"}, {Op: "modfile", Ver: "v0.0.2"}}}), nil, nil, base), key, "after a concurrent history", map[string]any{"history": h})
		})
		c.Set("distinct_concurrent_histories", len(hashes))
		c.CheckRaceLogs(mon.RaceLogPrefix())

		c.Set("phase4_s", time.Since(t0).Seconds())
		// ---- (5) strace kill-injection cross-check
		c16strace(c, plain, base, mkspec, addClasses)

		c.Set("phase5_s", time.Since(t0).Seconds())
		// ---- (6) lock-free readers with slow system calls against a slow writer
		c16slowReaders(c, plain, base, vers, mkspec, hashes, &hmu)
		c.Set("phase6_s", time.Since(t0).Seconds())
		c.Set("crash_outcome_classes", classCount)
		c.Sample(map[string]any{"hook_sequence": hooks})
	})
}

type c16in struct {
	Op, Ver string
}
type c16out struct {
	Open      bool
	Found     bool
	ContentOK bool
	Err       string
}

// c16checkHistory merges the per-process logs into one history and checks it.
func c16checkHistory(c *Ctx, h int, results []c16run, killIdx int, hashes map[string]struct{}, hmu *sync.Mutex) {
	type opKey struct {
		pid, g, i int
	}
	type opRec struct {
		in        c16in
		call, ret int64
		out       c16out
		client    int
		haveRet   bool
	}
	ops := map[opKey]*opRec{}
	var order []string
	var maxTS int64
	clientID := map[string]int{}
	for p, r := range results {
		if r.timedOut {
			c.Violate(fmt.Sprintf("C16|conc-hang|%d", h), "a concurrent fetch process did not finish within 120s", map[string]any{"history": h, "stderr": trunc9(r.stderr, 2000)})
			return
		}
		if !r.done() && p != killIdx {
			c.Violate(fmt.Sprintf("C16|conc-crash|%d", h), fmt.Sprintf("concurrent worker ended abnormally (exit %d): %s", r.exitCode, trunc9(r.stderr, 800)), map[string]any{"history": h})
			return
		}
		for _, e := range r.events {
			t := c16str(e["t"])
			if t == "getzip" {
				if n, _ := e["n"].(float64); n > 1 {
					c.Violate(fmt.Sprintf("C16|getzip|%d", h), fmt.Sprintf("%v zip downloads of %s by one Cache in one process", n, e["ver"]), map[string]any{"history": h})
				}
				c.Count("getzip_events", 1)
				continue
			}
			if t != "call" && t != "ret" {
				continue
			}
			k := opKey{int(e["pid"].(float64)), int(e["g"].(float64)), int(e["i"].(float64))}
			ts := int64(e["ts"].(float64))
			if ts > maxTS {
				maxTS = ts
			}
			cid := fmt.Sprintf("%d/%d", k.pid, k.g)
			if _, ok := clientID[cid]; !ok {
				clientID[cid] = len(clientID)
			}
			if t == "call" {
				ops[k] = &opRec{in: c16in{c16str(e["op"]), c16str(e["ver"])}, call: ts, client: clientID[cid]}
				order = append(order, fmt.Sprintf("%d c %s %s", ts, e["op"], e["ver"]))
			} else if o := ops[k]; o != nil {
				o.ret, o.haveRet = ts, true
				o.out.Found, _ = e["found"].(bool)
				o.out.ContentOK, _ = e["content_ok"].(bool)
				o.out.Err = c16str(e["err"])
				order = append(order, fmt.Sprintf("%d r %s %s", ts, e["op"], e["ver"]))
			}
		}
	}
	var hist []porcupine.Operation
	for _, o := range ops {
		if !o.haveRet {
			// the process died: the operation stays open until the end of the history
			o.ret = maxTS + 1
			o.out.Open = true
			c.Count("open_operations", 1)
		} else {
			// direct checks on completed operations
			if o.out.Found && !o.out.ContentOK {
				c.Violate(fmt.Sprintf("C16|conc-content|%d", h), fmt.Sprintf("%s(%s) returned incomplete or wrong content under concurrency", o.in.Op, o.in.Ver), map[string]any{"history": h})
			}
			if o.in.Op != "fromcache" && (o.out.Err != "" || !o.out.Found) {
				c.Violate(fmt.Sprintf("C16|conc-error|%d", h), fmt.Sprintf("%s(%s) failed under concurrency: %s", o.in.Op, o.in.Ver, o.out.Err), map[string]any{"history": h})
			}
			if o.in.Op == "fromcache" && o.out.Err != "" {
				c.Violate(fmt.Sprintf("C16|conc-fromcache-err|%d", h), fmt.Sprintf("FetchFromCache(%s) failed with a non-NotFound error: %s", o.in.Ver, o.out.Err), map[string]any{"history": h})
			}
		}
		if o.in.Op == "modfile" {
			continue // module-file cache is independent of the extraction state
		}
		hist = append(hist, porcupine.Operation{ClientId: o.client, Input: o.in, Call: o.call, Output: o.out, Return: o.ret})
		c.Count("history_operations", 1)
	}
	sort.Strings(order)
	// the shape of the interleaving (not the timestamps) identifies a history
	var shape []string
	for _, s := range order {
		shape = append(shape, s[strings.IndexByte(s, ' ')+1:])
	}
	sh := mon.Hash(strings.Join(shape, ";"))
	hmu.Lock()
	hashes[sh] = struct{}{}
	hmu.Unlock()
	if len(hist) > 1 {
		c.Nontrivial("hist|" + sh)
	}
	nm := porcupine.NondeterministicModel{
		Partition: func(history []porcupine.Operation) [][]porcupine.Operation {
			m := map[string][]porcupine.Operation{}
			for _, o := range history {
				k := o.Input.(c16in).Ver
				m[k] = append(m[k], o)
			}
			var out [][]porcupine.Operation
			for _, v := range m {
				out = append(out, v)
			}
			return out
		},
		Init: func() []any { return []any{false} },
		Step: func(st, in, out any) []any {
			i, o := in.(c16in), out.(c16out)
			present := st.(bool)
			if o.Open {
				if i.Op == "fetch" {
					return []any{present, true} // may or may not have taken effect
				}
				return []any{present}
			}
			switch i.Op {
			case "fetch":
				if o.Err == "" && o.Found && o.ContentOK {
					return []any{true}
				}
				return nil
			default: // fromcache
				if present {
					if o.Found && o.ContentOK {
						return []any{true}
					}
					return nil
				}
				if !o.Found {
					return []any{false}
				}
				return nil
			}
		},
		Equal: func(a, b any) bool { return a == b },
	}
	res, _ := porcupine.CheckOperationsVerbose(nm.ToModel(), hist, 2*time.Minute)
	switch res {
	case porcupine.Illegal:
		var lines []string
		sort.Slice(hist, func(i, j int) bool { return hist[i].Call < hist[j].Call })
		for _, o := range hist {
			lines = append(lines, fmt.Sprintf("client %d [%d,%d] %v -> %+v", o.ClientId, o.Call, o.Return, o.Input, o.Output))
		}
		c.Violate(fmt.Sprintf("C16|linearizability|%d", h), "Fetch/FetchFromCache history is not linearizable against the absent/present model", map[string]any{"history": lines})
	case porcupine.Unknown:
		c.Inconclusive("porcupine timed out on a history")
	default:
		c.Count("histories_linearizable", 1)
	}
}

// c16strace kills the worker at its N-th file-system syscall for every N.
func c16strace(c *Ctx, bin, base string, mkspec func(cache, mode string, ops [][]c16w.Op) c16w.Spec, addClasses func([]string)) {
	if _, err := exec.LookPath("strace"); err != nil {
		c.Set("strace", "not available")
		return
	}
	const calls = "openat,mkdirat,renameat,renameat2,unlinkat,write,fchmodat,rename,unlink,mkdir,chmod"
	// recording run: count matching syscalls
	cache := c16newCache(base)
	sp := mkspec(cache, "run", c16singleOps)
	sp.LockThread = true
	log := filepath.Join(base, "strace.log")
	r := c16exec(c, bin, sp, []string{"GOMAXPROCS=1"}, []string{"strace", "-f", "-o", log, "-e", "trace=" + calls}, base)
	c16rm(cache)
	lb, _ := os.ReadFile(log)
	os.Remove(log)
	if !r.done() {
		c.Set("strace", "recording run failed: "+trunc9(r.stderr, 200))
		return
	}
	perThread := map[string]int{}
	for _, line := range strings.Split(string(lb), "\n") {
		if f := strings.Fields(line); len(f) > 1 && strings.Contains(line, "(") && !strings.Contains(line, "resumed") {
			perThread[f[0]]++
		}
	}
	maxN := 0
	for _, n := range perThread {
		if n > maxN {
			maxN = n
		}
	}
	c.Set("strace_syscalls_recorded", maxN)
	if maxN < 20 {
		c.Set("strace", "too few syscalls recorded")
		return
	}
	// quick: a PRNG-chosen third of the boundaries (a different third per seed); thorough: all
	var ns []int
	rs := c.RNG("strace")
	for n := 1; n <= maxN+3; n++ {
		if c.Thorough || rs.IntN(3) == 0 {
			ns = append(ns, n)
		}
	}
	killedAt := 0
	var kmu sync.Mutex
	c.Par(len(ns), func(i int) {
		n := ns[i]
		cache := c16newCache(base)
		defer c16rm(cache)
		sp := mkspec(cache, "run", c16singleOps)
		sp.LockThread = true
		c.Eval(1)
		r := c16exec(c, bin, sp, []string{"GOMAXPROCS=1"}, []string{"strace", "-f", "-o", "/dev/null", "-e", "trace=" + calls, "-e", fmt.Sprintf("inject=%s:signal=KILL:when=%d", calls, n)}, base)
		rp := map[string]any{"strace_when": n}
		key := fmt.Sprintf("C16|strace@%d", n)
		what := fmt.Sprintf("killed at file-system syscall %d", n)
		if r.done() {
			c.Count("strace_not_killed", 1)
		} else {
			kmu.Lock()
			killedAt++
			kmu.Unlock()
			c.Nontrivial(fmt.Sprintf("strace|%d", n))
		}
		addClasses(c16checkInspect(c, c16exec(c, bin, mkspec(cache, "inspect", nil), nil, nil, base), false, key, what, rp))
		c16checkClean(c, c16exec(c, bin, mkspec(cache, "run", c16singleOps), nil, nil, base), key, what, rp)
		c16checkInspect(c, c16exec(c, bin, mkspec(cache, "inspect", nil), nil, nil, base), true, key, what+" then clean run", rp)
	})
	c.Set("strace_kill_points", killedAt)
	_ = rand.IntN
}

// c16slowReaders: FetchFromCache and the fast path of Fetch decide without the lock whether a module directory
// is available, from a sequence of stat calls.  Reader processes run under strace with every stat-family call
// delayed by some milliseconds on exit (so a reader spends most of its time *between* two of its own checks),
// while a writer process whose extraction is slowed down at the unzip hooks fetches the version.  Whatever the
// readers are told is available must be complete at that moment.
func c16slowReaders(c *Ctx, plain, base string, vers []string, mkspec func(cache, mode string, ops [][]c16w.Op) c16w.Spec, hashes map[string]struct{}, hmu *sync.Mutex) {
	if _, err := exec.LookPath("strace"); err != nil {
		c.Set("slow_readers", "strace not available")
		return
	}
	rounds := c.N(8, 80)
	var foundEarly, polls, roundsWithOverlap int64
	var perRound []string
	var smu sync.Mutex
	c.Par(rounds, func(h int) {
		r := c.RNG(fmt.Sprintf("slow-%d", h))
		cache := c16newCache(base)
		defer c16rm(cache)
		ver := vers[r.IntN(len(vers))]
		nReaders := 2 + r.IntN(3)
		results := make([]c16run, nReaders+1)
		var wg sync.WaitGroup
		for p := 0; p < nReaders; p++ {
			var ops []c16w.Op
			delay := []int{1500, 4000, 9000}[r.IntN(3)]
			// enough polls to span the writer's start-up skew and its slowed-down extraction
			n := (4000 + r.IntN(1000)) * 1000 / delay
			for i := 0; i < n; i++ {
				ops = append(ops, c16w.Op{Op: "fromcache", Ver: ver})
			}
			if r.IntN(2) == 0 {
				// the lock-free fast path of Fetch
				ops = append(ops, c16w.Op{Op: "fetch", Ver: ver}, c16w.Op{Op: "fromcache", Ver: ver})
			}
			sp := mkspec(cache, "run", [][]c16w.Op{ops})
			sp.Seed = c.Seed*1000 + int64(h*10+p)
			wrap := []string{"strace", "-f", "-o", "/dev/null", "-e", "trace=newfstatat,statx,fstat", "-e", fmt.Sprintf("inject=newfstatat,statx:delay_exit=%d", delay)}
			wg.Add(1)
			go func(p int, sp c16w.Spec) {
				defer wg.Done()
				results[p] = c16exec(c, plain, sp, nil, wrap, base)
			}(p, sp)
		}
		// the writer starts while the readers are polling
		wsp := mkspec(cache, "run", [][]c16w.Op{{{Op: "fetch", Ver: ver}, {Op: "fromcache", Ver: ver}}})
		wsp.SkewUS = []int{1200000 + r.IntN(800000)}
		wenv := []string{fmt.Sprintf("VERIF_HOOK_DELAY=unzip.afterOpenFile=%d,unzip.afterMkdir=%d,fetch.afterPartial=%d,fetch.afterUnzip=%d", 15000+r.IntN(20000), r.IntN(20000), r.IntN(3000), r.IntN(20000))}
		wg.Add(1)
		go func() {
			defer wg.Done()
			results[nReaders] = c16exec(c, plain, wsp, wenv, nil, base)
		}()
		wg.Wait()
		c.Eval(1)
		// how much the readers saw: polls that returned before/after the writer's fetch returned
		var wret int64
		for _, e := range results[nReaders].events {
			if e["t"] == "ret" && e["op"] == "fetch" {
				wret = int64(e["ts"].(float64))
			}
		}
		var np, before, after int64
		for _, rr := range results[:nReaders] {
			for _, e := range rr.events {
				if e["t"] == "ret" && e["op"] == "fromcache" {
					np++
					if ts := int64(e["ts"].(float64)); ts < wret {
						before++
					} else {
						after++
					}
					if f, _ := e["found"].(bool); f {
						if ts := int64(e["ts"].(float64)); ts < wret {
							smu.Lock()
							foundEarly++
							smu.Unlock()
						}
					}
				}
			}
		}
		smu.Lock()
		perRound = append(perRound, fmt.Sprintf("%d:%d/%d", h, before, after))
		polls += np
		if before > 0 && after > 0 {
			roundsWithOverlap++
		}
		smu.Unlock()
		if before > 0 && after > 0 {
			c.Nontrivial(fmt.Sprintf("slow-readers|%d", h))
		}
		c16checkHistory(c, 100000+h, results, -1, hashes, hmu)
	})
	c.Set("slow_reader_rounds", rounds)
	c.Set("slow_reader_polls", polls)
	sort.Strings(perRound)
	c.Set("slow_reader_polls_before_and_after_the_writer_returned_per_round", perRound)
	c.Set("slow_reader_rounds_overlapping_the_fetch", roundsWithOverlap)
	c.Set("slow_reader_found_before_writer_returned", foundEarly)
	if roundsWithOverlap*2 < int64(rounds) {
		c.Inconclusive(fmt.Sprintf("slow readers overlapped the writer's fetch in only %d of %d rounds", roundsWithOverlap, rounds))
	}
}
