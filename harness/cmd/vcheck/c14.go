package main

// C14 – MVS is minimal, sufficient, order/schedule independent; semver is a
// total order agreeing with SemVer 2.0.

import (
	"fmt"
	"math/rand/v2"
	"runtime"
	"sort"
	"strings"
	"sync"
	"sync/atomic"
	"time"

	"cuelang.org/go/internal/mod/mvs"
	"cuelang.org/go/internal/mod/semver"
	"cuelang.org/go/mod/module"
	"cuelang.org/go/verifh/model"
	"cuelang.org/go/verifh/mon"
)

type c14mv struct{ path, ver string }

func (m c14mv) String() string { return m.path + "@" + m.ver }

// c14reqs is the instrumented Reqs implementation: every Required call is an
// event; it yields/sleeps according to the per-module latency assignment.
type c14reqs struct {
	g       map[c14mv][]c14mv
	vers    map[string][]string // sorted ascending per path (for Previous / Upgrade)
	delays  map[c14mv]int
	mu      sync.Mutex
	calls   map[c14mv]int
	conc    int32
	maxConc int32
	order   []string
	events  int
}

func (q *c14reqs) New(p, v string) (c14mv, error) { return c14mv{p, v}, nil }
func (q *c14reqs) Path(m c14mv) string            { return m.path }
func (q *c14reqs) Version(m c14mv) string         { return m.ver }
func (q *c14reqs) Max(a, b string) string         { return module.Versions{}.Max(a, b) }
func (q *c14reqs) Required(m c14mv) ([]c14mv, error) {
	cc := atomic.AddInt32(&q.conc, 1)
	q.mu.Lock()
	q.calls[m]++
	q.events++
	if cc > q.maxConc {
		q.maxConc = cc
	}
	q.order = append(q.order, m.String())
	d := q.delays[m]
	q.mu.Unlock()
	if d >= 100 {
		time.Sleep(time.Duration(d) * time.Microsecond)
	} else {
		for i := 0; i < d; i++ {
			runtime.Gosched()
		}
	}
	atomic.AddInt32(&q.conc, -1)
	return q.g[m], nil
}
func (q *c14reqs) Upgrade(m c14mv) (c14mv, error) {
	vs := q.vers[m.path]
	if len(vs) == 0 {
		return m, nil
	}
	latest := vs[len(vs)-1]
	if m.ver == "none" || model.CompareSemVer(m.ver, latest) < 0 {
		return c14mv{m.path, latest}, nil
	}
	return m, nil
}
func (q *c14reqs) Previous(m c14mv) (c14mv, error) {
	vs := q.vers[m.path]
	prev := "none"
	for _, v := range vs {
		if model.CompareSemVer(v, m.ver) < 0 {
			prev = v
		}
	}
	return c14mv{m.path, prev}, nil
}

// modelMax is the model of Reqs.Max ("" is the main module and highest, "none" lowest).
func c14modelMax(a, b string) string {
	switch {
	case a == "" || b == "":
		return ""
	case a == "none":
		return b
	case b == "none":
		return a
	}
	if model.CompareSemVer(a, b) >= 0 {
		return a
	}
	return b
}

// c14brute is the sequential fixpoint: closure over all Required edges (plus
// extra edges from extra), selecting the max version per path.
func c14brute(target c14mv, g map[c14mv][]c14mv, extra func(m c14mv) []c14mv) map[string]string {
	seen := map[c14mv]bool{target: true}
	stack := []c14mv{target}
	sel := map[string]string{target.path: target.ver}
	for len(stack) > 0 {
		m := stack[len(stack)-1]
		stack = stack[:len(stack)-1]
		var edges []c14mv
		if m.ver != "none" {
			edges = append(edges, g[m]...)
		}
		if extra != nil {
			edges = append(edges, extra(m)...)
		}
		for _, d := range edges {
			if cur, ok := sel[d.path]; !ok {
				sel[d.path] = d.ver
			} else {
				sel[d.path] = c14modelMax(cur, d.ver)
			}
			if !seen[d] {
				seen[d] = true
				stack = append(stack, d)
			}
		}
	}
	return sel
}

func c14selString(target c14mv, sel map[string]string) string {
	var out []string
	for p, v := range sel {
		if p != target.path && v != "none" {
			out = append(out, p+"@"+v)
		}
	}
	sort.Strings(out)
	return target.String() + " " + strings.Join(out, " ")
}

func c14listString(list []c14mv) string {
	var got []string
	for _, m := range list[1:] {
		if m.ver != "none" {
			got = append(got, m.String())
		}
	}
	sort.Strings(got)
	return list[0].String() + " " + strings.Join(got, " ")
}

var c14versionPool = []string{"v0.1.0", "v0.2.0", "v0.2.1-pre", "v0.2.1-pre.2", "v0.2.1", "v0.10.0", "v0.10.0-alpha.1", "v0.9.9"}

type c14graph struct {
	target c14mv
	g      map[c14mv][]c14mv
	all    []c14mv
	vers   map[string][]string
}

func c14genGraph(r *rand.Rand) *c14graph {
	n := 2 + r.IntN(7)
	nv := 2 + r.IntN(3)
	gr := &c14graph{target: c14mv{"main", ""}, g: map[c14mv][]c14mv{}, vers: map[string][]string{}}
	for i := 0; i < n; i++ {
		p := fmt.Sprintf("m%d", i)
		perm := r.Perm(len(c14versionPool))[:nv]
		var vs []string
		for _, k := range perm {
			vs = append(vs, c14versionPool[k])
		}
		sort.Slice(vs, func(a, b int) bool { return model.CompareSemVer(vs[a], vs[b]) < 0 })
		gr.vers[p] = vs
		for _, v := range vs {
			gr.all = append(gr.all, c14mv{p, v})
		}
	}
	pick := func(k int, self string) []c14mv {
		var out []c14mv
		seen := map[string]bool{}
		for i := 0; i < k; i++ {
			m := gr.all[r.IntN(len(gr.all))]
			if !seen[m.path] && m.path != self {
				seen[m.path] = true
				out = append(out, m)
			}
		}
		return out
	}
	gr.g[gr.target] = pick(1+r.IntN(4), "main")
	dense := r.IntN(3)
	for _, m := range gr.all {
		if r.IntN(3) <= dense {
			gr.g[m] = pick(r.IntN(4), m.path)
		}
	}
	return gr
}

func (gr *c14graph) replay() map[string]any {
	edges := map[string][]string{}
	for k, v := range gr.g {
		var s []string
		for _, m := range v {
			s = append(s, m.String())
		}
		edges[k.String()] = s
	}
	return map[string]any{"graph": edges}
}

func (gr *c14graph) newReqs(r *rand.Rand, permute bool, latency int) *c14reqs {
	g2 := map[c14mv][]c14mv{}
	for k, v := range gr.g {
		w := append([]c14mv(nil), v...)
		if permute {
			r.Shuffle(len(w), func(i, j int) { w[i], w[j] = w[j], w[i] })
		}
		g2[k] = w
	}
	q := &c14reqs{g: g2, vers: gr.vers, calls: map[c14mv]int{}, delays: map[c14mv]int{}}
	for _, m := range gr.all {
		switch latency {
		case 1:
			q.delays[m] = r.IntN(60)
		case 2: // a few slow modules, sleeping
			if r.IntN(4) == 0 {
				q.delays[m] = 100 + r.IntN(400)
			}
		}
	}
	return q
}

func c14checkGraph(c *Ctx, r *rand.Rand, gr *c14graph, runs int, orders map[string]struct{}, omu *sync.Mutex) {
	want := c14selString(gr.target, c14brute(gr.target, gr.g, nil))
	gkey := mon14key(gr)
	localOrders := map[string]struct{}{}
	for run := 0; run < runs; run++ {
		q := gr.newReqs(r, run > 0, run%3)
		list, err := mvs.BuildList([]c14mv{gr.target}, q)
		c.Eval(1)
		c.Count("required_events", int64(q.events))
		if err != nil {
			c.Violate("C14|buildlist-err|"+gkey, "BuildList error on a graph without errors: "+err.Error(), gr.replay())
			continue
		}
		got := c14listString(list)
		if got != want {
			c.Violate("C14|buildlist|"+gkey, fmt.Sprintf("BuildList = %s, brute-force fixpoint = %s", got, want), gr.replay())
		}
		for m, n := range q.calls {
			if n > 1 {
				c.Violate("C14|dup|"+gkey, fmt.Sprintf("Required(%s) called %d times in one BuildList", m, n), gr.replay())
				break
			}
		}
		if q.maxConc > 10 {
			c.Violate("C14|conc|"+gkey, fmt.Sprintf("%d concurrent Required callbacks (limit 10)", q.maxConc), gr.replay())
		}
		c.Max("max_concurrent_callbacks", int64(q.maxConc))
		localOrders[strings.Join(q.order, ",")] = struct{}{}
		// sorted by path after the target?  (documented: list[0] is target)
		if list[0] != gr.target {
			c.Violate("C14|target|"+gkey, "build list does not start with the target", gr.replay())
		}
	}
	omu.Lock()
	for o := range localOrders {
		orders[gkey+o] = struct{}{}
	}
	omu.Unlock()
	if len(localOrders) > 1 || len(gr.g) > 3 {
		c.Nontrivial(gkey)
	}

	// Req: minimal requirement list that regenerates the build list.
	q := gr.newReqs(r, true, 1)
	var base []string
	if r.IntN(2) == 0 && len(gr.g[gr.target]) > 0 {
		base = []string{gr.g[gr.target][0].path}
	}
	min, err := mvs.Req(gr.target, base, q)
	c.Eval(1)
	if err != nil {
		c.Violate("C14|req-err|"+gkey, "Req error: "+err.Error(), gr.replay())
	} else {
		g2 := map[c14mv][]c14mv{}
		for k, v := range gr.g {
			g2[k] = v
		}
		g2[gr.target] = min
		if got := c14selString(gr.target, c14brute(gr.target, g2, nil)); got != want {
			c.Violate("C14|req-sufficient|"+gkey, fmt.Sprintf("Req result %v regenerates %s, want %s", min, got, want), gr.replay())
		}
		inBase := map[string]bool{}
		for _, b := range base {
			inBase[b] = true
		}
		for i := range min {
			if inBase[min[i].path] {
				continue
			}
			rest := append(append([]c14mv{}, min[:i]...), min[i+1:]...)
			g2[gr.target] = rest
			if got := c14selString(gr.target, c14brute(gr.target, g2, nil)); got == want {
				c.Violate("C14|req-minimal|"+gkey, fmt.Sprintf("Req result %v is not minimal: %s can be dropped", min, min[i]), gr.replay())
				break
			}
		}
		for _, b := range base {
			found := false
			for _, m := range min {
				if m.path == b {
					found = true
				}
			}
			if !found {
				c.Violate("C14|req-base|"+gkey, fmt.Sprintf("Req result %v lacks base path %s", min, b), gr.replay())
			}
		}
	}

	// Upgrade: target requirement list with some modules raised.
	if len(gr.all) > 0 {
		var ups []c14mv
		for i := 0; i < 1+r.IntN(2); i++ {
			ups = append(ups, gr.all[r.IntN(len(gr.all))])
		}
		upTo := map[string]string{}
		for _, u := range ups {
			if p, ok := upTo[u.path]; ok {
				upTo[u.path] = c14modelMax(p, u.ver)
			} else {
				upTo[u.path] = u.ver
			}
		}
		wantSel := c14brute(gr.target, gr.g, func(m c14mv) []c14mv {
			var ex []c14mv
			if m == gr.target {
				for p, v := range upTo {
					ex = append(ex, c14mv{p, v})
				}
			}
			if v, ok := upTo[m.path]; ok && m != gr.target {
				ex = append(ex, c14mv{m.path, v})
			}
			return ex
		})
		var results []string
		for run := 0; run < 2; run++ {
			q := gr.newReqs(r, run > 0, 1+run)
			list, err := mvs.Upgrade(gr.target, q, ups...)
			c.Eval(1)
			if err != nil {
				c.Violate("C14|upgrade-err|"+gkey, "Upgrade error: "+err.Error(), gr.replay())
				continue
			}
			results = append(results, c14listString(list))
		}
		wantU := c14selString(gr.target, wantSel)
		for _, res := range results {
			if res != wantU {
				rp := gr.replay()
				rp["upgrade"] = fmt.Sprint(ups)
				c.Violate("C14|upgrade|"+gkey, fmt.Sprintf("Upgrade(%v) = %s, model = %s", ups, res, wantU), rp)
				break
			}
		}
	}

	// UpgradeAll: every module at its latest version.
	{
		q := gr.newReqs(r, true, 1)
		list, err := mvs.UpgradeAll(gr.target, q)
		c.Eval(1)
		if err == nil {
			wantSel := c14brute(gr.target, gr.g, func(m c14mv) []c14mv {
				if m == gr.target {
					return nil
				}
				vs := gr.vers[m.path]
				return []c14mv{{m.path, vs[len(vs)-1]}}
			})
			if got, w := c14listString(list), c14selString(gr.target, wantSel); got != w {
				c.Violate("C14|upgradeall|"+gkey, fmt.Sprintf("UpgradeAll = %s, model = %s", got, w), gr.replay())
			}
		} else {
			c.Violate("C14|upgradeall-err|"+gkey, "UpgradeAll error: "+err.Error(), gr.replay())
		}
	}

	// Downgrade: invariants from the MVS paper (Algorithm 4).
	if len(gr.all) > 0 {
		d := gr.all[r.IntN(len(gr.all))]
		origSel := c14brute(gr.target, gr.g, nil)
		var results []string
		for run := 0; run < 2; run++ {
			q := gr.newReqs(r, run > 0, run)
			list, err := mvs.Downgrade(gr.target, q, d)
			c.Eval(1)
			if err != nil {
				c.Violate("C14|downgrade-err|"+gkey, "Downgrade error: "+err.Error(), gr.replay())
				continue
			}
			results = append(results, c14listString(list))
			sel := map[string]string{}
			for _, m := range list {
				sel[m.path] = m.ver
			}
			rp := gr.replay()
			rp["downgrade"] = d.String()
			if v, ok := sel[d.path]; ok && v != "none" && model.CompareSemVer(v, d.ver) > 0 {
				c.Violate("C14|downgrade-above|"+gkey, fmt.Sprintf("Downgrade(%s) selects %s@%s", d, d.path, v), rp)
			}
			// never upgrades anything above the original build list
			for p, v := range sel {
				if p == gr.target.path || v == "none" {
					continue
				}
				if ov, ok := origSel[p]; ok && model.CompareSemVer(v, ov) > 0 {
					c.Violate("C14|downgrade-upgrades|"+gkey, fmt.Sprintf("Downgrade(%s) raises %s from %s to %s", d, p, ov, v), rp)
				}
			}
			// the result is a consistent build list: closing it under Required gives itself
			g2 := map[c14mv][]c14mv{}
			for k, v := range gr.g {
				g2[k] = v
			}
			g2[gr.target] = list[1:]
			if got := c14selString(gr.target, c14brute(gr.target, g2, nil)); got != c14listString(list) {
				c.Violate("C14|downgrade-closed|"+gkey, fmt.Sprintf("Downgrade(%s) = %s is not closed under requirements (closure %s)", d, c14listString(list), got), rp)
			}
		}
		if len(results) == 2 && results[0] != results[1] {
			c.Violate("C14|downgrade-order|"+gkey, fmt.Sprintf("Downgrade(%s) differs under permutation: %s vs %s", d, results[0], results[1]), gr.replay())
		}
	}

	// Graph API used by modrequirements: Require in random order, Selected = max over reachable.
	{
		cmp := func(a, b string) int {
			return c14cmpVia(module.Versions{}.Max, a, b)
		}
		g := mvs.NewGraph[c14mv](&c14reqs{}, cmp, []c14mv{gr.target})
		// Require must be called only for reachable nodes whose requirer was already added: BFS in random tie order.
		seen := map[c14mv]bool{gr.target: true}
		frontier := []c14mv{gr.target}
		for len(frontier) > 0 {
			i := r.IntN(len(frontier))
			m := frontier[i]
			frontier = append(frontier[:i], frontier[i+1:]...)
			reqs := append([]c14mv(nil), gr.g[m]...)
			r.Shuffle(len(reqs), func(i, j int) { reqs[i], reqs[j] = reqs[j], reqs[i] })
			g.Require(m, reqs)
			for _, d := range reqs {
				if !seen[d] {
					seen[d] = true
					frontier = append(frontier, d)
				}
			}
		}
		c.Eval(1)
		sel := c14brute(gr.target, gr.g, nil)
		for p, v := range sel {
			if got := g.Selected(p); got != v {
				c.Violate("C14|graph-selected|"+gkey, fmt.Sprintf("Graph.Selected(%s) = %q, model %q", p, got, v), gr.replay())
				break
			}
		}
		if got := c14listString(g.BuildList()); got != want {
			c.Violate("C14|graph-buildlist|"+gkey, fmt.Sprintf("Graph.BuildList = %s, model %s", got, want), gr.replay())
		}
	}
}

func c14cmpVia(max func(a, b string) string, v1, v2 string) int {
	if max(v1, v2) != v1 {
		return -1
	}
	if max(v2, v1) != v2 {
		return 1
	}
	return 0
}

func mon14key(gr *c14graph) string {
	var ks []string
	for k, v := range gr.g {
		var s []string
		for _, m := range v {
			s = append(s, m.String())
		}
		sort.Strings(s)
		ks = append(ks, k.String()+"->"+strings.Join(s, ","))
	}
	sort.Strings(ks)
	return monHash(strings.Join(ks, ";"))
}

func c14genVer(r *rand.Rand) string {
	nums := []string{"0", "1", "2", "9", "10", "11", "01", "100", "99999999999999999999", "18446744073709551616", ""}
	ids := []string{"alpha", "beta", "1", "2", "10", "01", "0", "a-b", "-", "A", "a", "rc1", "", "x_y", "9a", "a9", "00", "0a"}
	num := func() string { return nums[r.IntN(len(nums))] }
	id := func() string { return ids[r.IntN(len(ids))] }
	s := "v" + num()
	if r.IntN(8) > 0 {
		s += "." + num()
		if r.IntN(8) > 0 {
			s += "." + num()
		}
	}
	if r.IntN(2) == 0 {
		s += "-" + id()
		for r.IntN(2) == 0 {
			s += "." + id()
		}
	}
	if r.IntN(4) == 0 {
		s += "+" + id()
		if r.IntN(3) == 0 {
			s += "." + id()
		}
	}
	if r.IntN(25) == 0 {
		s = s[1:]
	}
	return s
}

func c14semver(c *Ctx) {
	nTriples := c.N(30000, 2000000)
	batches := 32
	c.Par(batches, func(b int) {
		r := c.RNG(fmt.Sprintf("semver-%d", b))
		sign := func(x int) int {
			if x < 0 {
				return -1
			} else if x > 0 {
				return 1
			}
			return 0
		}
		for k := 0; k < nTriples/batches; k++ {
			x, y, z := c14genVer(r), c14genVer(r), c14genVer(r)
			if r.IntN(3) == 0 { // near-equal pair: mutate one identifier
				y = x
				if i := strings.LastIndexAny(y, ".-"); i > 0 && r.IntN(2) == 0 {
					y = y[:i+1] + []string{"0", "1", "10", "a", "beta"}[r.IntN(5)]
				}
			}
			c.Eval(1)
			rp := map[string]any{"versions": []string{x, y, z}}
			for _, v := range []string{x, y, z} {
				if got, want := semver.IsValid(v), model.ParseSemVer(v).OK; got != want {
					c.Violate("C14|semver-valid|"+v, fmt.Sprintf("IsValid(%q) = %v, SemVer 2.0 model says %v", v, got, want), rp)
				}
			}
			cxy, cyx, cyz, cxz := semver.Compare(x, y), semver.Compare(y, x), semver.Compare(y, z), semver.Compare(x, z)
			if cxy != -cyx {
				c.Violate("C14|semver-antisym|"+x+"|"+y, fmt.Sprintf("Compare(%q,%q)=%d but Compare(%q,%q)=%d", x, y, cxy, y, x, cyx), rp)
			}
			if cxy <= 0 && cyz <= 0 && cxz > 0 {
				c.Violate("C14|semver-trans|"+x+"|"+y+"|"+z, fmt.Sprintf("not transitive: %q <= %q <= %q but Compare(x,z)=%d", x, y, z, cxz), rp)
			}
			if want := model.CompareSemVer(x, y); sign(cxy) != want {
				c.Violate("C14|semver-compare|"+x+"|"+y, fmt.Sprintf("Compare(%q,%q) = %d, SemVer 2.0 model says %d", x, y, cxy, want), rp)
			}
			if semver.Compare(x, x) != 0 {
				c.Violate("C14|semver-refl|"+x, fmt.Sprintf("Compare(%q,%q) != 0", x, x), rp)
			}
			vx, vy := model.ParseSemVer(x).OK, model.ParseSemVer(y).OK
			if vx && vy {
				c.Nontrivial(x + "|" + y)
				// Versions.Max consistent with Compare, with the ""/none conventions
				mx := module.Versions{}.Max(x, y)
				if want := model.CompareSemVer(x, y); (want > 0 && mx != x) || (want < 0 && mx != y) || (mx != x && mx != y) {
					c.Violate("C14|max|"+x+"|"+y, fmt.Sprintf("Versions.Max(%q,%q) = %q", x, y, mx), rp)
				}
				if module.Versions.Max(module.Versions{}, x, "none") != x || module.Versions.Max(module.Versions{}, "none", x) != x ||
					module.Versions.Max(module.Versions{}, x, "") != "" || module.Versions.Max(module.Versions{}, "", x) != "" {
					c.Violate("C14|max-special|"+x, fmt.Sprintf("Versions.Max conventions for \"\"/none broken with %q", x), rp)
				}
				// Canonical keeps precedence and drops build metadata
				cx := semver.Canonical(x)
				if model.CompareSemVer(cx, x) != 0 || strings.Contains(cx, "+") || !model.ParseSemVer(cx).OK {
					c.Violate("C14|canonical|"+x, fmt.Sprintf("Canonical(%q) = %q", x, cx), rp)
				}
			}
		}
		// Sort yields a sequence ordered by the model.
		for k := 0; k < 20; k++ {
			var l []string
			for i := 0; i < 12; i++ {
				l = append(l, c14genVer(r))
			}
			semver.Sort(l)
			for i := 1; i < len(l); i++ {
				if model.CompareSemVer(l[i-1], l[i]) > 0 {
					c.Violate("C14|sort|"+strings.Join(l, ","), fmt.Sprintf("Sort left %q before %q", l[i-1], l[i]), map[string]any{"versions": l})
				}
			}
		}
	})
}

func init() {
	register("C14", "exploration", func(c *Ctx) {
		c.Rule = "module graphs built by modrequirements.NewRequirements(...).Graph from PRNG root lists (1-6 module versions, often two versions of the same module) over an in-memory registry: the build list must hold, per module, the maximum of the versions named by the listed roots and by the explicit requirements of every listed root (also of a root that a higher root of the same module supersedes), nothing else, and the requirements of every listed root must be loaded; random requirement graphs (2-8 modules x 2-4 versions incl. pre-releases; diamonds, cycles, modules requiring older versions of their dependants); per graph BuildList under 5+ (permutation of requirement lists x latency assignment: none / Gosched rounds / sleeps) runs, Req (sufficiency+minimality), Upgrade, UpgradeAll, Downgrade invariants, Graph.Require in random order; instrumented Required callbacks log call events, duplicates and concurrency. Oracle: sequential closure fixpoint. Plus random valid/near-valid semver triples against an independent SemVer 2.0 model and the order axioms. Non-trivial graph = more than 3 nodes with requirements or more than one distinct callback order observed; non-trivial semver case = distinct pair of valid versions."
		c.Assume = []string{"SemVer model = semver.org 2.0.0 §2,§9,§10,§11 with leading v and vMAJOR / vMAJOR.MINOR shorthands; invalid versions compare below valid ones (package doc)", "Downgrade is checked through invariants of Algorithm 4, not against a full oracle"}
		if c.Replay != nil {
			c14replay(c)
			return
		}
		c14semver(c)
		// the module graph cue builds from a root list (modrequirements): also with several versions of one root
		{
			n := c.N(3000, 60000)
			c.Par(16, func(b int) {
				r := c.RNG(fmt.Sprintf("modreq-%d", b))
				for i := b; i < n; i += 16 {
					c14reqCase(c, r)
				}
			})
		}
		nGraphs := c.N(600, 20000)
		runs := c.N(6, 9)
		orders := map[string]struct{}{}
		var omu sync.Mutex
		batches := 32
		c.Par(batches, func(b int) {
			r := c.RNG(fmt.Sprintf("graphs-%d", b))
			for k := 0; k < nGraphs/batches; k++ {
				gr := c14genGraph(r)
				c14checkGraph(c, r, gr, runs, orders, &omu)
				if b == 0 && k < 2 {
					c.Sample(gr.replay())
				}
			}
		})
		c.CheckRaceLogs(mon.RaceLogPrefix())
		c.Set("distinct_callback_orders", len(orders))
		c.Set("graphs", nGraphs)
		c.Sample(map[string]any{"semver_triple": []string{c14genVer(c.RNG("s")), c14genVer(c.RNG("t")), c14genVer(c.RNG("u"))}})
	})
}

func c14replay(c *Ctx) {
	if vs, ok := c.Replay["versions"].([]any); ok {
		var l []string
		for _, v := range vs {
			l = append(l, fmt.Sprint(v))
		}
		for _, x := range l {
			for _, y := range l {
				c.Eval(1)
				got, want := semver.Compare(x, y), model.CompareSemVer(x, y)
				if (got < 0) != (want < 0) || (got > 0) != (want > 0) {
					c.Violate("C14|semver-compare|"+x+"|"+y, fmt.Sprintf("Compare(%q,%q) = %d, model %d", x, y, got, want), c.Replay)
				}
			}
			if semver.IsValid(x) != model.ParseSemVer(x).OK {
				c.Violate("C14|semver-valid|"+x, "IsValid disagrees with model for "+x, c.Replay)
			}
		}
		return
	}
	edges, _ := c.Replay["graph"].(map[string]any)
	gr := &c14graph{target: c14mv{"main", ""}, g: map[c14mv][]c14mv{}, vers: map[string][]string{}}
	parse := func(s string) c14mv {
		i := strings.IndexByte(s, '@')
		return c14mv{s[:i], s[i+1:]}
	}
	seenV := map[c14mv]bool{}
	add := func(m c14mv) {
		if m.path != "main" && !seenV[m] {
			seenV[m] = true
			gr.all = append(gr.all, m)
			gr.vers[m.path] = append(gr.vers[m.path], m.ver)
		}
	}
	for k, v := range edges {
		m := parse(k)
		add(m)
		for _, d := range v.([]any) {
			dm := parse(fmt.Sprint(d))
			add(dm)
			gr.g[m] = append(gr.g[m], dm)
		}
	}
	for p, vs := range gr.vers {
		sort.Slice(vs, func(a, b int) bool { return model.CompareSemVer(vs[a], vs[b]) < 0 })
		gr.vers[p] = vs
	}
	sort.Slice(gr.all, func(i, j int) bool { return gr.all[i].String() < gr.all[j].String() })
	var omu sync.Mutex
	for i := 0; i < 20; i++ {
		c14checkGraph(c, c.RNG(fmt.Sprint("replay", i)), gr, 8, map[string]struct{}{}, &omu)
	}
}
