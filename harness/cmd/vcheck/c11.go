package main

// C11 – YAML output reads back as the same data; JSON fed to the YAML decoder means JSON.

import (
	"fmt"
	"math/rand/v2"
	"regexp"
	"runtime/debug"
	"strings"

	goccyyaml "github.com/goccy/go-yaml"
	yamlv3 "go.yaml.in/yaml/v3"

	"cuelang.org/go/cue"
	"cuelang.org/go/cue/cuecontext"
	"cuelang.org/go/encoding/yaml"
	"cuelang.org/go/internal/cueexperiment"
	"cuelang.org/go/verifh/gen"
)

// c11roundTrip encodes d as YAML and decodes it again; it returns "" or a description of the failure.
func c11roundTrip(ctx *cue.Context, d *gen.Data) (fail string, out string) {
	v := ctx.CompileString("x: " + d.CUE()).LookupPath(cue.ParsePath("x"))
	if err := v.Err(); err != nil {
		return "generated data does not compile: " + err.Error(), ""
	}
	b, err := yaml.Encode(v)
	if err != nil {
		return "yaml.Encode fails: " + err.Error(), ""
	}
	out = string(b)
	f, err := yaml.Extract("out.yaml", b)
	if err != nil {
		return "yaml.Extract fails on the encoder's output: " + err.Error(), out
	}
	w := ctx.BuildFile(f)
	got, err := gen.FromValue(w)
	if err != nil {
		return "decoded YAML is not concrete data: " + err.Error(), out
	}
	if diff := gen.Diff(d, got, "", true, false); diff != "" {
		return "decoded YAML differs: " + diff, out
	}
	return "", out
}

type c11class struct {
	name string
	re   *regexp.Regexp
	key  bool // applies to keys only
}

// c11classes are the recorded defect classes of the pinned tree, each a predicate over the single string
// (scalar or key) that fails the round trip on its own.
var c11classes = []c11class{}

func c11atoms(d *gen.Data, atoms *[]string, keys *[]string) {
	switch d.Kind {
	case "string":
		*atoms = append(*atoms, d.S)
	case "list":
		for _, e := range d.Elems {
			c11atoms(e, atoms, keys)
		}
	case "struct":
		for i, k := range d.Keys {
			*keys = append(*keys, k)
			c11atoms(d.Vals[i], atoms, keys)
		}
	}
}

// c11explain shrinks a failing tree to the strings/keys that fail on their own.
func c11explain(ctx *cue.Context, d *gen.Data) (culprits []string) {
	var atoms, keys []string
	c11atoms(d, &atoms, &keys)
	seen := map[string]bool{}
	for _, s := range atoms {
		if seen["v"+s] {
			continue
		}
		seen["v"+s] = true
		for _, shape := range []*gen.Data{
			{Kind: "string", S: s},
			{Kind: "struct", Keys: []string{"k"}, Vals: []*gen.Data{{Kind: "string", S: s}}},
			{Kind: "list", Elems: []*gen.Data{{Kind: "string", S: s}}},
			{Kind: "struct", Keys: []string{"k", "z"}, Vals: []*gen.Data{{Kind: "string", S: s}, gen.NumData("1")}},
			{Kind: "list", Elems: []*gen.Data{{Kind: "string", S: s}, gen.NumData("1")}},
			{Kind: "list", Elems: []*gen.Data{{Kind: "struct", Keys: []string{"k"}, Vals: []*gen.Data{{Kind: "string", S: s}}}, gen.NumData("1")}},
		} {
			if f, _ := c11roundTrip(ctx, shape); f != "" {
				culprits = append(culprits, "value:"+s)
				break
			}
		}
	}
	for _, k := range keys {
		if seen["k"+k] {
			continue
		}
		seen["k"+k] = true
		if f, _ := c11roundTrip(ctx, &gen.Data{Kind: "struct", Keys: []string{k}, Vals: []*gen.Data{gen.NumData("1")}}); f != "" {
			culprits = append(culprits, "key:"+k)
		}
	}
	return culprits
}

// c11classOf maps a culprit to a recorded class ("" if none).
func c11classOf(impl, culprit string) string {
	kind, s, _ := strings.Cut(culprit, ":")
	for _, cl := range c11known[impl] {
		if cl.key && kind != "key" {
			continue
		}
		if cl.re.MatchString(s) {
			return "C11|" + impl + "|" + cl.name
		}
	}
	return ""
}

var c11known = map[string][]c11class{}

func c11secondOpinions(out string, d *gen.Data) (v3ok, goccyok bool) {
	var a any
	if err := yamlv3.Unmarshal([]byte(out), &a); err == nil {
		v3ok = c11sameAny(d, a)
	}
	var b any
	if err := goccyyaml.Unmarshal([]byte(out), &b); err == nil {
		goccyok = c11sameAny(d, b)
	}
	return
}

// c11sameAny compares strings/structure only (numbers are typed differently by the libraries).
func c11sameAny(d *gen.Data, a any) bool {
	switch d.Kind {
	case "string":
		s, ok := a.(string)
		return ok && s == d.S
	case "null":
		return a == nil
	case "bool":
		b, ok := a.(bool)
		return ok && b == d.B
	case "int", "float":
		switch a.(type) {
		case int, int64, uint64, float64, uint, int32:
			return true
		}
		return false
	case "list":
		l, ok := a.([]any)
		if !ok || len(l) != len(d.Elems) {
			return false
		}
		for i := range l {
			if !c11sameAny(d.Elems[i], l[i]) {
				return false
			}
		}
		return true
	case "struct":
		switch m := a.(type) {
		case map[string]any:
			if len(m) != len(d.Keys) {
				return false
			}
			for i, k := range d.Keys {
				v, ok := m[k]
				if !ok || !c11sameAny(d.Vals[i], v) {
					return false
				}
			}
			return true
		case map[any]any:
			if len(m) != len(d.Keys) {
				return false
			}
			for i, k := range d.Keys {
				v, ok := m[k]
				if !ok || !c11sameAny(d.Vals[i], v) {
					return false
				}
			}
			return true
		}
		return false
	}
	return false
}

func c11run(c *Ctx, impl string, n int) {
	batches := 32
	c.Par(batches, func(b int) {
		r := c.RNG(fmt.Sprintf("%s-%d", impl, b))
		ctx := cuecontext.New()
		for k := 0; k < n/batches; k++ {
			if k%200 == 199 {
				ctx = cuecontext.New()
			}
			d := gen.GenData(r, gen.DataOpts{MaxDepth: 4}, 0)
			c11case(c, ctx, r, impl, d)
			if b == 0 && k < 2 && impl == "goccy" {
				c.Sample(map[string]any{"cue": trunc9(d.CUE(), 300)})
			}
		}
	})
}

func c11case(c *Ctx, ctx *cue.Context, r *rand.Rand, impl string, d *gen.Data) {
	defer func() {
		if rec := recover(); rec != nil {
			st := string(debug.Stack())
			c.Violate("C11|"+impl+"|panic|"+crashSite(st), fmt.Sprintf("panic in the %s YAML path: %v at %s on %s", impl, rec, crashSite(st), trunc9(d.CUE(), 300)), map[string]any{"cue": d.CUE(), "impl": impl, "stack": trunc9(st, 4000)})
		}
	}()
	c.Eval(1)
	c.Count("cases:"+impl, 1)
	if impl == "yamlv3" {
		// the yaml.v3 implementation is only selected with CUE_EXPERIMENT=yamlgoccy=0 (goccy is the default since
		// v0.18): its failures are recorded, not alarmed (DESIGN §4 C11)
		if f, _ := c11roundTrip(ctx, d); f != "" {
			c.Count("yamlv3_roundtrip_failures_recorded", 1)
		}
		return
	}
	fail, out := c11roundTrip(ctx, d)
	if d.Kind == "struct" || d.Kind == "list" || len(d.S) > 1 {
		c.Nontrivial(impl + "|" + d.CUE())
	}
	if fail != "" {
		culprits := c11explain(ctx, d)
		rp := map[string]any{"cue": d.CUE(), "impl": impl, "yaml": out, "culprits": culprits}
		if len(culprits) == 0 {
			c.Violate("C11|"+impl+"|tree|"+monHash(d.CUE()), fmt.Sprintf("[%s] %s (no single string fails on its own)\n cue: %s\n yaml: %s", impl, fail, trunc9(d.CUE(), 500), trunc9(out, 500)), rp)
		}
		for _, cu := range culprits {
			key := c11classOf(impl, cu)
			if key == "" {
				key = "C11|" + impl + "|" + fmt.Sprintf("%q", cu)
			}
			c.Violate(key, fmt.Sprintf("[%s] %q does not survive YAML encode→decode (%s)\n yaml: %s", impl, cu, fail, trunc9(out, 300)), rp)
		}
	} else if out != "" && r.IntN(4) == 0 {
		// independent readers of the same output: alarm only if both agree with each other against the ground truth
		v3ok, gok := c11secondOpinions(out, d)
		if !v3ok {
			c.Count("second_opinion_yamlv3_disagrees", 1)
		}
		if !gok {
			c.Count("second_opinion_goccy_disagrees", 1)
		}
		if !v3ok && !gok {
			c.Count("both_independent_readers_disagree", 1)
		}
	}
	// the builtins: yaml.Unmarshal(yaml.Marshal(x)) == x and yaml.Validate accept the value against itself
	if fail == "" && r.IntN(4) == 0 {
		src := "import \"encoding/yaml\"\nx: " + d.CUE() + "\ny: yaml.Unmarshal(yaml.Marshal(x))\n"
		w := ctx.CompileString(src).LookupPath(cue.ParsePath("y"))
		c.Count("builtin_roundtrips", 1)
		got, err := gen.FromValue(w)
		if err != nil {
			c.Violate("C11|"+impl+"|builtin|"+monHash(d.CUE()), fmt.Sprintf("[%s] yaml.Unmarshal(yaml.Marshal(x)) fails: %v\n cue: %s", impl, err, trunc9(d.CUE(), 400)), map[string]any{"cue": d.CUE()})
		} else if diff := gen.Diff(d, got, "", true, false); diff != "" {
			c.Violate("C11|"+impl+"|builtin|"+monHash(d.CUE()), fmt.Sprintf("[%s] yaml.Unmarshal(yaml.Marshal(x)) differs from x: %s\n cue: %s", impl, diff, trunc9(d.CUE(), 400)), map[string]any{"cue": d.CUE()})
		}
	}
	// JSON through the YAML decoder
	if r.IntN(3) == 0 {
		doc := d.JSON(r)
		if strings.Contains(doc, "\ufeff") {
			return // recorded C10 finding (raw BOM inside a JSON string)
		}
		c.Eval(1)
		c.Count("json_via_yaml:"+impl, 1)
		f, err := yaml.Extract("doc.json", []byte(doc))
		rp := map[string]any{"json": doc, "impl": impl}
		if err != nil {
			c11jsonViolate(c, impl, d, doc, "yaml.Extract rejects a JSON document: "+err.Error(), rp)
			return
		}
		got, err := gen.FromValue(ctx.BuildFile(f))
		if err != nil {
			c11jsonViolate(c, impl, d, doc, "JSON document decoded by the YAML decoder is not concrete data: "+err.Error(), rp)
			return
		}
		if diff := gen.Diff(d, got, "", true, false); diff != "" {
			c11jsonViolate(c, impl, d, doc, "JSON document means something else to the YAML decoder: "+diff, rp)
		}
	}
}

func c11jsonViolate(c *Ctx, impl string, d *gen.Data, doc, what string, rp map[string]any) {
	if strings.Contains(doc, "\t") {
		// recorded class: a raw tab used as JSON whitespace (the generator escapes tabs inside strings) is
		// refused by the YAML parser; confirmed by decoding the same document with the tabs replaced by spaces
		ctx := cuecontext.New()
		if f, err := yaml.Extract("doc.json", []byte(strings.ReplaceAll(doc, "\t", " "))); err == nil {
			if got, err := gen.FromValue(ctx.BuildFile(f)); err == nil && gen.Diff(d, got, "", true, false) == "" {
				c.Violate("C11|"+impl+"|json-tab-whitespace", fmt.Sprintf("[%s] %s\n json: %s", impl, what, trunc9(doc, 300)), rp)
				return
			}
		}
	}
	c.Violate("C11|"+impl+"|json|"+monHash(doc), fmt.Sprintf("[%s] %s\n json: %s", impl, what, trunc9(doc, 400)), rp)
}

func init() {
	register("C11", "exploration", func(c *Ctx) {
		c.Rule = "data trees from the data generator with the adversarial pool (every YAML 1.1/1.2 implicit spelling: y/n/yes/no/on/off/~/null, 0x/0o/0b/017/1_000/1e3/.inf/.nan, sexagesimals, dates; document markers --- and ...; each indicator character in first/inner/last position; control characters, U+0085, U+00A0, U+2028/9, BOM, non-BMP; empty, blank-only and newline-only strings) as scalars and as keys, nested <= 4: yaml.Encode → yaml.Extract → evaluate → compare with the ground truth (strings byte for byte incl. keys, number value and int/float kind, nesting, order); JSON documents of the same data (PRNG escape/whitespace spellings) through yaml.Extract must denote the JSON data. Both YAML implementations are exercised: the default goccy path and the yaml.v3 path (cueexperiment yamlgoccy off). A failing tree is shrunk to the single strings/keys that fail on their own; each is matched against the recorded classes. go.yaml.in/yaml/v3 and goccy/go-yaml read a sample of the outputs as second opinions (recorded). Non-trivial = distinct tree with nesting or a special string."
		c.Assume = []string{"recorded classes are predicates over the single failing string (see known_findings.jsonl); any other string is a new violation keyed by that string", "JSON documents containing a raw BOM are skipped (recorded C10 finding)"}
		if c.Replay != nil {
			c.Inconclusive("replay by seed")
			return
		}
		c11loadClasses(c)
		n := c.N(30000, 600000)
		saved := cueexperiment.Flags.YAMLGoccy
		defer func() { cueexperiment.Flags.YAMLGoccy = saved }()
		cueexperiment.Flags.YAMLGoccy = true
		c11run(c, "goccy", n)
		cueexperiment.Flags.YAMLGoccy = false
		c11run(c, "yamlv3", n/2)
		cueexperiment.Flags.YAMLGoccy = saved
	})
}

// c11loadClasses reads the recorded classes from the open findings: key "C11|<impl>|<name>", witness.regexp.
func c11loadClasses(c *Ctx) {
	for _, f := range c.OpenFindings() {
		parts := strings.SplitN(f.Key, "|", 3)
		if len(parts) != 3 {
			continue
		}
		w, _ := f.Witness.(map[string]any)
		reS, _ := w["regexp"].(string)
		if reS == "" {
			continue
		}
		re, err := regexp.Compile(reS)
		if err != nil {
			continue
		}
		keyOnly, _ := w["key_only"].(bool)
		c11known[parts[1]] = append(c11known[parts[1]], c11class{name: parts[2], re: re, key: keyOnly})
	}
}
