package main

// C08 – cue fmt is idempotent and meaning-preserving.
//
// Monitor around format.Source: the input and output are re-scanned with cue/scanner in comment mode; the
// token streams (commas dropped, string literals by unquoted value, comments by text) must be equal, i.e. every
// token and every comment stays between the same two neighbours; the output must parse and be a fixpoint.

import (
	"bytes"
	"fmt"
	"math/rand/v2"
	"os"
	"path/filepath"
	"regexp"
	"sort"
	"strings"
	"time"

	"cuelang.org/go/cue/format"
	"cuelang.org/go/cue/literal"
	"cuelang.org/go/cue/parser"
	"cuelang.org/go/cue/scanner"
	"cuelang.org/go/cue/token"
	"cuelang.org/go/verifh/gen"
	"cuelang.org/go/verifh/mon"
)

type c8tok struct {
	off, end int
	tok      token.Token
	lit      string
}

func c8scan(src []byte) ([]c8tok, bool) {
	var s scanner.Scanner
	f := token.NewFile("x", -1, len(src))
	errs := 0
	s.Init(f, src, func(pos token.Pos, msg string, args []interface{}) { errs++ }, scanner.ScanComments)
	var out []c8tok
	// paren depth of every interpolation expression that is open: the scanner has to be told when the closing
	// parenthesis of the expression has been read (the parser does that through ResumeInterpolation)
	var depth []int
	for {
		pos, t, lit := s.Scan()
		if t == token.EOF {
			break
		}
		l := lit
		if l == "" {
			l = t.String()
		}
		out = append(out, c8tok{pos.Offset(), pos.Offset() + len(l), t, lit})
		switch {
		case t == token.INTERPOLATION:
			depth = append(depth, 0)
		case len(depth) > 0 && t == token.LPAREN:
			depth[len(depth)-1]++
		case len(depth) > 0 && t == token.RPAREN:
			depth[len(depth)-1]--
			if depth[len(depth)-1] == 0 {
				off := s.Offset() - 1
				part := s.ResumeInterpolation()
				out = append(out, c8tok{off, off + len(part), token.INTERPOLATION, part})
				if !strings.HasSuffix(part, "(") {
					depth = depth[:len(depth)-1]
				}
			}
		}
	}
	return out, errs == 0
}

// c8stream: the normalised token stream of a source.
func c8stream(src []byte) []string {
	toks, _ := c8scan(src)
	var out []string
	for _, t := range toks {
		if t.tok == token.COMMA {
			continue
		}
		switch t.tok {
		case token.STRING:
			if u, err := literal.Unquote(t.lit); err == nil {
				// the value and the literal class (quote character, number of #, single or multi line)
				q := strings.TrimLeft(t.lit, "#")
				class := fmt.Sprintf("%d", len(t.lit)-len(q))
				if strings.HasPrefix(q, `"""`) || strings.HasPrefix(q, `'''`) {
					class += q[:3]
				} else if q != "" {
					class += q[:1]
				}
				out = append(out, "S"+class+":"+u)
			} else {
				out = append(out, "s:"+strings.Join(strings.Fields(t.lit), " "))
			}
		case token.INTERPOLATION:
			// parts of an interpolated string: compared with the indentation of continuation lines removed
			var lines []string
			for _, l := range strings.Split(t.lit, "\n") {
				lines = append(lines, strings.TrimLeft(l, " \t"))
			}
			out = append(out, "i:"+strings.Join(lines, "\n"))
		case token.COMMENT:
			out = append(out, "C:"+strings.TrimRight(t.lit, " \t\r"))
		default:
			if t.lit != "" {
				out = append(out, t.lit)
			} else {
				out = append(out, t.tok.String())
			}
		}
	}
	return out
}

func c8diff(a, b []string) string {
	i := 0
	for i < len(a) && i < len(b) && a[i] == b[i] {
		i++
	}
	if i == len(a) && i == len(b) {
		return ""
	}
	ctx := func(s []string) string {
		lo, hi := i-2, i+3
		if lo < 0 {
			lo = 0
		}
		if hi > len(s) {
			hi = len(s)
		}
		return fmt.Sprintf("%q", s[lo:hi])
	}
	return fmt.Sprintf("token %d: input ...%s, output ...%s", i, ctx(a), ctx(b))
}

// c8classify names the kind of difference between two token streams.
func c8classify(a, b []string) string {
	strip := func(s []string, pred func(string) bool) []string {
		var out []string
		for _, x := range s {
			if !pred(x) {
				out = append(out, x)
			}
		}
		return out
	}
	isComment := func(x string) bool { return strings.HasPrefix(x, "C:") }
	if c8diff(strip(a, isComment), strip(b, isComment)) == "" {
		ca, cb := strip(a, func(x string) bool { return !isComment(x) }), strip(b, func(x string) bool { return !isComment(x) })
		if len(ca) != len(cb) {
			return "comment-lost-or-duplicated"
		}
		if c8diff(ca, cb) == "" {
			return "comment-moved-across-token"
		}
		return "comment-changed-or-reordered"
	}
	isParen := func(x string) bool { return x == "(" || x == ")" }
	np := func(x string) bool { return isComment(x) || isParen(x) }
	if c8diff(strip(a, np), strip(b, np)) == "" {
		return "parentheses-added-or-removed"
	}
	// find first difference among non-comment tokens
	sa, sb := strip(a, isComment), strip(b, isComment)
	i := 0
	for i < len(sa) && i < len(sb) && sa[i] == sb[i] {
		i++
	}
	kind := func(s []string) string {
		if i >= len(s) {
			return "EOF"
		}
		x := s[i]
		switch {
		case strings.HasPrefix(x, "S"):
			return "string-literal"
		case strings.HasPrefix(x, "s:"), strings.HasPrefix(x, "i:"):
			return "interpolation"
		}
		if len(x) > 12 {
			x = x[:12]
		}
		return x
	}
	return "token-changed:" + kind(sa) + "->" + kind(sb)
}

type c8result struct {
	class string
	what  string
}

// c8check formats src and compares; src must parse.
func c8check(src []byte) (res *c8result) {
	defer func() {
		if rec := recover(); rec != nil {
			res = &c8result{"panic", fmt.Sprint(rec)}
		}
	}()
	out, err := format.Source(src)
	if err != nil {
		return &c8result{"format-error", err.Error()}
	}
	if _, err := parser.ParseFile("out.cue", out, parser.ParseComments); err != nil {
		return &c8result{"output-does-not-parse", err.Error() + "\n--- output\n" + string(out)}
	}
	a, b := c8stream(src), c8stream(out)
	if d := c8diff(a, b); d != "" {
		return &c8result{c8classify(a, b), d + "\n--- output\n" + string(out)}
	}
	out2, err := format.Source(out)
	if err != nil {
		return &c8result{"second-pass-error", err.Error()}
	}
	if !bytes.Equal(out, out2) {
		return &c8result{"not-idempotent", "second pass differs\n--- first\n" + string(out) + "\n--- second\n" + string(out2)}
	}
	return nil
}

// ---------- mutations ----------
type c8mut struct {
	name string
	f    func(r *rand.Rand, src []byte, toks []c8tok) []byte
}

func c8insert(src []byte, at int, ins string) []byte {
	if at > len(src) {
		at = len(src)
	}
	out := make([]byte, 0, len(src)+len(ins))
	out = append(out, src[:at]...)
	out = append(out, ins...)
	return append(out, src[at:]...)
}

func c8lineStart(src []byte, off int) int {
	for off > 0 && src[off-1] != '\n' {
		off--
	}
	return off
}

func c8lineEnd(src []byte, off int) int {
	for off < len(src) && src[off] != '\n' {
		off++
	}
	return off
}

// c8firstOnLine: is toks[i] the first token of its line?
func c8firstOnLine(src []byte, toks []c8tok, i int) bool {
	ls := c8lineStart(src, toks[i].off)
	return strings.TrimSpace(string(src[ls:toks[i].off])) == ""
}

func c8inLiteral(toks []c8tok, off int) bool {
	for _, t := range toks {
		if (t.tok == token.STRING || t.tok == token.INTERPOLATION || t.tok == token.COMMENT) && off > t.off && off < t.end {
			return true
		}
	}
	return false
}

var c8muts = []c8mut{
	{"blank-line-before-line", func(r *rand.Rand, src []byte, toks []c8tok) []byte {
		i := r.IntN(len(toks))
		if !c8firstOnLine(src, toks, i) || c8inLiteral(toks, c8lineStart(src, toks[i].off)) {
			return nil
		}
		return c8insert(src, c8lineStart(src, toks[i].off), []string{"\n", "\n\n", "\n\n\n"}[r.IntN(3)])
	}},
	{"indentation-changed", func(r *rand.Rand, src []byte, toks []c8tok) []byte {
		i := r.IntN(len(toks))
		if !c8firstOnLine(src, toks, i) || c8inLiteral(toks, c8lineStart(src, toks[i].off)) {
			return nil
		}
		ls := c8lineStart(src, toks[i].off)
		out := append([]byte{}, src[:ls]...)
		out = append(out, []string{"", "\t\t\t", "   ", " \t "}[r.IntN(4)]...)
		return append(out, src[toks[i].off:]...)
	}},
	{"spaces-between-tokens", func(r *rand.Rand, src []byte, toks []c8tok) []byte {
		i := 1 + r.IntN(len(toks)-1)
		if toks[i].tok == token.COMMA && toks[i].lit == "\n" || c8inLiteral(toks, toks[i].off) {
			return nil
		}
		// only where there already is horizontal space (never glue or split tokens)
		if toks[i].off == 0 || (src[toks[i].off-1] != ' ' && src[toks[i].off-1] != '\t') {
			return nil
		}
		return c8insert(src, toks[i].off, []string{"  ", "\t", " \t  "}[r.IntN(3)])
	}},
	{"comment-on-own-line-before-line", func(r *rand.Rand, src []byte, toks []c8tok) []byte {
		i := r.IntN(len(toks))
		if !c8firstOnLine(src, toks, i) || c8inLiteral(toks, c8lineStart(src, toks[i].off)) {
			return nil
		}
		// not before a line that starts with a closing bracket: a comment there belongs to no declaration and the
		// formatter moves it behind the bracket (recorded position class)
		if toks[i].tok == token.RPAREN || toks[i].tok == token.RBRACK || toks[i].tok == token.RBRACE {
			return nil
		}
		// ... nor before a line that continues a comprehension (if/for/let clause lines)
		if toks[i].tok == token.IF || toks[i].tok == token.FOR || toks[i].tok == token.LET {
			return nil
		}
		// the line must start a declaration: the previous line ended one (inserted comma) or opened a struct
		if i > 0 && !(toks[i-1].tok == token.COMMA && toks[i-1].lit == "\n") && toks[i-1].tok != token.LBRACE {
			return nil
		}
		ls := c8lineStart(src, toks[i].off)
		indent := string(src[ls:toks[i].off])
		return c8insert(src, ls, indent+[]string{"// c", "// c\n" + indent + "// d", "//", "// TODO(x): y"}[r.IntN(4)]+"\n")
	}},
	{"comment-at-end-of-line", func(r *rand.Rand, src []byte, toks []c8tok) []byte {
		i := r.IntN(len(toks))
		le := c8lineEnd(src, toks[i].end)
		// the line must end a declaration or list element: the scanner inserted a comma at its end
		if i+1 >= len(toks) || !(toks[i+1].tok == token.COMMA && toks[i+1].lit == "\n") {
			return nil
		}
		if toks[i].tok == token.COMMENT || c8inLiteral(toks, le) || toks[i].end > le {
			return nil
		}
		// ... and not a clause of a comprehension (for/if/let lines are joined by the same inserted comma; a comment
		// there is moved behind the comprehension: recorded position class)
		for j := i + 2; j < len(toks); j++ {
			if toks[j].tok == token.COMMENT || toks[j].tok == token.COMMA {
				continue // an earlier mutation may have put a comment line in between
			}
			switch toks[j].tok {
			case token.IF, token.FOR, token.LET, token.LBRACE:
				return nil
			}
			if toks[j].lit == "try" || toks[j].lit == "otherwise" || toks[j].lit == "fallback" {
				return nil
			}
			break
		}
		return c8insert(src, le, " // t")
	}},
	{"trailing-spaces", func(r *rand.Rand, src []byte, toks []c8tok) []byte {
		i := r.IntN(len(toks))
		le := c8lineEnd(src, toks[i].end)
		if c8inLiteral(toks, le) || toks[i].end > le {
			return nil
		}
		return c8insert(src, le, "  \t")
	}},
	{"redundant-comma", func(r *rand.Rand, src []byte, toks []c8tok) []byte {
		// an explicit comma where the scanner inserted one at a line end
		var cands []int
		for i, t := range toks {
			if t.tok == token.COMMA && t.lit == "\n" && i > 0 {
				cands = append(cands, i)
			}
		}
		if len(cands) == 0 {
			return nil
		}
		i := cands[r.IntN(len(cands))]
		return c8insert(src, toks[i-1].end, ",")
	}},
	{"crlf", func(r *rand.Rand, src []byte, toks []c8tok) []byte {
		for _, t := range toks {
			if (t.tok == token.STRING || t.tok == token.INTERPOLATION) && strings.Contains(t.lit, "\n") {
				return nil
			}
		}
		return bytes.ReplaceAll(src, []byte("\n"), []byte("\r\n"))
	}},
}

// ---------- generated literals ----------
func c8literalFile(r *rand.Rand) []byte {
	var sb strings.Builder
	ind := []string{"", "\t", "\t\t", "    "}
	wsLine := []string{"", " ", "  ", "\t", "\t\t\t", " \t", "        "}
	text := []string{"first", "second line", "  indented", "x\\ty", "tab\there", "#hash", "\"q\"", "'s'", "\\\\"}
	n := 1 + r.IntN(4)
	for f := 0; f < n; f++ {
		in := ind[r.IntN(len(ind))]
		depth := r.IntN(3)
		open := strings.Repeat("{", 0)
		_ = open
		prefix := ""
		for d := 0; d < depth; d++ {
			fmt.Fprintf(&sb, "%sn%d: {\n", prefix, d)
			prefix += "\t"
		}
		hashes := strings.Repeat("#", r.IntN(3))
		q := []string{`"""`, `'''`}[r.IntN(2)]
		bodyIndent := prefix + in
		fmt.Fprintf(&sb, "%sf%d: %s%s\n", prefix, f, hashes, q)
		lines := 1 + r.IntN(5)
		for l := 0; l < lines; l++ {
			switch r.IntN(4) {
			case 0:
				// whitespace-only line: the closing indentation, possibly followed by more whitespace (which is
				// part of the value), or shorter than the indentation (an empty line)
				switch r.IntN(3) {
				case 0:
					sb.WriteString(bodyIndent + wsLine[r.IntN(len(wsLine))] + "\n")
				case 1:
					sb.WriteString("\n")
				default:
					sb.WriteString(bodyIndent + "\n")
				}
			default:
				t := text[r.IntN(len(text))]
				if q == `'''` {
					t = strings.ReplaceAll(t, "'s'", "s")
				}
				if hashes != "" {
					t = strings.ReplaceAll(t, "\\", "/")
				}
				sb.WriteString(bodyIndent + t + strings.Repeat(" ", r.IntN(3)*r.IntN(2)) + "\n")
			}
		}
		fmt.Fprintf(&sb, "%s%s%s\n", bodyIndent, q, hashes)
		for d := depth - 1; d >= 0; d-- {
			prefix = prefix[:len(prefix)-1]
			fmt.Fprintf(&sb, "%s}\n", prefix)
		}
		if r.IntN(3) == 0 {
			fmt.Fprintf(&sb, "g%d: %q\n", f, text[r.IntN(len(text))])
		}
	}
	return []byte(sb.String())
}

func c8loadKnown() map[string]string {
	out := map[string]string{}
	data, err := os.ReadFile(filepath.Join(mon.Root(), "corpus", "c08_known.txt"))
	if err != nil {
		return out
	}
	for _, line := range strings.Split(string(data), "\n") {
		if line == "" || strings.HasPrefix(line, "#") {
			continue
		}
		name, class, _ := strings.Cut(line, "\t")
		out[name] = class
	}
	return out
}

func init() {
	register("C08", "exploration", func(c *Ctx) {
		c.Rule = "inputs: (a) the frozen corpus of the repository's .cue sources that parse, (b) mutants of corpus files under layout mutations that cannot change the token stream (blank lines, indentation, horizontal space where space already is, trailing spaces, explicit commas at line ends, CRLF) and comments in the admitted position classes (own line before a line, end of a line), 1-3 mutations each, (c) generated multi-line string/bytes literals (all quote forms, nesting depths, whitespace-only and over-indented lines), (d) programs of the C01 generator under the same mutations. Oracle: format.Source succeeds, its output parses, the normalised token streams of input and output are equal (commas dropped; string literals by class and unquoted value; interpolation parts modulo leading indentation; comments by text - every token and comment keeps its neighbours), and formatting the output again changes nothing. Second oracle on every input that passes the first: the syntax trees of input and output (parser with comments and resolution, internal/astinternal dump without positions, literals by class and value) are equal, so every comment is attached to the same node and every reference is bound to the same node. (e) -s (format.Simplify) on all streams and on generated programs in which quoted labels, identifiers, dynamic labels, lets and references of the same few names meet in nested scopes: the trees are equal after applying the documented simplifications (plain-identifier labels unquoted, `...`/`[string]: _`/`[_]: _` merged into one trailing `...`) to both, references still bind to the same nodes, -s is a fixpoint and plain fmt leaves its output alone, and a sample of input/output pairs is evaluated in worker processes and compared observationally. (f) option profiles (space indentation of width 2/3/4, UseSpaces(8), spaces+Simplify) on the mutant and literal streams: same tree, fixpoint under the same options. Non-trivial = distinct input with a comment or a multi-line literal."
		c.Assume = []string{"cue/scanner in comment mode is the reader of both sides; literal.Unquote gives the value of a string literal", "files of the frozen corpus on which the pinned formatter already deviates are listed in corpus/c08_known.txt with their class (recorded findings)"}
		if c.Replay != nil {
			c.Inconclusive("replay: format the source stored in the violation file with cue fmt")
			return
		}
		listFile := os.Getenv("VERIF_C08_LIST")
		known := c8loadKnown()
		corpus := loadCorpus()
		var parseable []corpusFile
		for _, cf := range corpus {
			if _, err := parser.ParseFile(cf.Name, []byte(cf.Src), parser.ParseComments); err == nil {
				parseable = append(parseable, cf)
			}
		}
		c.Set("corpus_files_parseable", len(parseable))
		nontrivial := func(src []byte) bool {
			return bytes.Contains(src, []byte("//")) || bytes.Contains(src, []byte(`"""`)) || bytes.Contains(src, []byte(`'''`))
		}
		// (a) frozen corpus
		c.Par(len(parseable), func(i int) {
			cf := parseable[i]
			src := []byte(cf.Src)
			defer mon.WAL(cf.Src)()
			res := c8check(src)
			c.Eval(1)
			if nontrivial(src) {
				c.NontrivialN(1)
			}
			if res == nil {
				// second oracle (syntax tree with comment attachment and reference resolution), then -s
				if res = c8checkTree(src); res == nil {
					_, res = c8checkSimplify(src)
					c.Count("corpus_simplify_runs", 1)
				}
			}
			if res == nil {
				if known[cf.Name] != "" {
					c.Count("known_corpus_file_now_clean", 1)
				}
				return
			}
			if listFile != "" {
				f, _ := os.OpenFile(listFile, os.O_APPEND|os.O_CREATE|os.O_WRONLY, 0o666)
				fmt.Fprintf(f, "%s\t%s\n", cf.Name, res.class)
				f.Close()
				if g, err := os.OpenFile(listFile+".what", os.O_APPEND|os.O_CREATE|os.O_WRONLY, 0o666); err == nil {
					fmt.Fprintf(g, "=== %s\t%s\n%s\n", cf.Name, res.class, res.what)
					g.Close()
				}
				return
			}
			if known[cf.Name] == res.class {
				c.Count("known_corpus_deviation:"+res.class, 1)
				c.Violate("C08|corpus|"+res.class, cf.Name+": "+res.what, map[string]any{"name": cf.Name})
				return
			}
			c.Violate("C08|corpus-file|"+cf.Name+"|"+res.class, cf.Name+": "+res.class+": "+res.what, map[string]any{"name": cf.Name, "src": cf.Src})
		})
		if listFile != "" {
			return
		}
		// clean corpus files are the seeds of the mutation streams
		var seeds []corpusFile
		for _, cf := range parseable {
			// files without comments of their own: every comment of a mutant is then in an admitted position class
			if known[cf.Name] == "" && len(cf.Src) < 6000 && !strings.Contains(cf.Src, "//") {
				seeds = append(seeds, cf)
			}
		}
		sort.Slice(seeds, func(i, j int) bool { return seeds[i].Name < seeds[j].Name })
		report := func(stream, muts string, src []byte, res *c8result) {
			if strings.HasPrefix(res.class, "s:not-idempotent:") {
				// a recorded finding class is matched by its class alone, wherever it shows
				c.Violate("C08|"+res.class, fmt.Sprintf("%s (%s): %s\n--- input\n%s", res.class, stream, res.what, src), map[string]any{"src": string(src)})
				return
			}
			c.Violate("C08|"+stream+"|"+muts+"|"+res.class, fmt.Sprintf("%s (%s): %s\n--- input\n%s", res.class, muts, res.what, src), map[string]any{"src": string(src), "mutations": muts})
		}
		mutate := func(r *rand.Rand, src []byte) ([]byte, string) {
			var names []string
			cur := src
			for k := 0; k < 1+r.IntN(3); k++ {
				toks, ok := c8scan(cur)
				if !ok || len(toks) < 2 {
					return nil, ""
				}
				m := c8muts[r.IntN(len(c8muts))]
				next := m.f(r, cur, toks)
				if next == nil {
					continue
				}
				cur = next
				names = append(names, m.name)
			}
			if len(names) == 0 {
				return nil, ""
			}
			sort.Strings(names)
			return cur, strings.Join(names, "+")
		}
		nm := c.N(80000, 1500000)
		c.Par(64, func(b int) {
			r := c.RNG(fmt.Sprintf("mut-%d", b))
			for i := b; i < nm; i += 64 {
				var base []byte
				stream := "corpus-mutant"
				if i%4 == 3 {
					base = []byte(gen.Program(r))
					stream = "program-mutant"
					if _, err := parser.ParseFile("g.cue", base, parser.ParseComments); err != nil {
						continue
					}
				} else {
					base = []byte(seeds[r.IntN(len(seeds))].Src)
				}
				m, names := mutate(r, base)
				if m == nil {
					continue
				}
				if _, err := parser.ParseFile("m.cue", m, parser.ParseComments); err != nil {
					c.Count("mutant_does_not_parse", 1)
					continue
				}
				// the mutation itself must not have changed the token stream (comments aside)
				c.Eval(1)
				c.Count("mutations:"+names, 0)
				if nontrivial(m) {
					c.Nontrivial(string(m))
				}
				func() {
					defer mon.WAL(string(m))()
					if res := c8check(m); res != nil {
						report(stream, names, m, res)
					} else if res := c8checkTree(m); res != nil {
						report(stream, names, m, res)
					} else if _, res := c8checkSimplify(m); res != nil {
						report(stream, names, m, res)
					} else if res := c8checkProfile(m, i); res != nil {
						report(stream, names, m, res)
					} else {
						c.Count("option_profile_runs", 1)
					}
				}()
			}
		})
		// (c) generated literals
		nl := c.N(40000, 600000)
		c.Par(64, func(b int) {
			r := c.RNG(fmt.Sprintf("lit-%d", b))
			for i := b; i < nl; i += 64 {
				src := c8literalFile(r)
				if _, err := parser.ParseFile("l.cue", src, parser.ParseComments); err != nil {
					c.Count("literal_file_does_not_parse", 1)
					continue
				}
				c.Eval(1)
				c.Nontrivial(string(src))
				func() {
					defer mon.WAL(string(src))()
					if res := c8check(src); res != nil {
						report("literal", "generated", src, res)
					} else if res := c8checkTree(src); res != nil {
						report("literal", "generated", src, res)
					} else if _, res := c8checkSimplify(src); res != nil {
						report("literal", "generated", src, res)
					} else if res := c8checkProfile(src, i); res != nil {
						report("literal", "generated", src, res)
					} else {
						c.Count("option_profile_runs", 1)
					}
				}()
			}
		})
		// pinned witness of the recorded -s layout finding
		if _, res := c8checkSimplify([]byte("f1: {e: {\"a\": string, ...}, ...}\n")); res != nil {
			report("pinned", "witness", []byte("f1: {e: {\"a\": string, ...}, ...}\n"), res)
		} else {
			c.Count("pinned_s_layout_witness_now_clean", 1)
		}
		// (e) -s on programs in which quoted labels, identifiers and references of the same names meet:
		//     tree oracle on all of them, evaluation of input and output (worker processes) on a sample
		nlab := c.N(30000, 400000)
		nsem := c.N(1200, 16000)
		type c8pair struct{ src, out string }
		pairs := make([]c8pair, nsem)
		c.Par(64, func(b int) {
			r := c.RNG(fmt.Sprintf("label-%d", b))
			for i := b; i < nlab; i += 64 {
				var src []byte
				if i%5 == 4 {
					src = []byte(gen.Program(r))
				} else {
					src = []byte(c8labelProgram(r))
				}
				if _, err := parser.ParseFile("l.cue", src, parser.ParseComments); err != nil {
					c.Count("label_program_does_not_parse", 1)
					continue
				}
				c.Eval(1)
				c.Count("simplify_label_programs", 1)
				func() {
					defer mon.WAL(string(src))()
					if res := c8check(src); res != nil {
						report("label-program", "generated", src, res)
						return
					}
					out, res := c8checkSimplify(src)
					if res != nil {
						report("label-program", "generated", src, res)
						return
					}
					if !bytes.Equal(out, src) {
						c.Count("simplify_changed_the_text", 1)
						c.Nontrivial(string(src))
					}
					if i < nsem {
						pairs[i] = c8pair{string(src), string(out)}
					}
				}()
			}
		})
		var cases []bcase
		for i, p := range pairs {
			if p.src == "" || p.src == p.out {
				continue
			}
			cases = append(cases, bcase{ID: fmt.Sprintf("s%d-in", i), Op: "c01obs", Src: p.src}, bcase{ID: fmt.Sprintf("s%d-out", i), Op: "c01obs", Src: p.out})
		}
		resm := c.RunBatch(cases, 30*time.Second)
		for i, p := range pairs {
			if p.src == "" || p.src == p.out {
				continue
			}
			a, fa := c01fromRes(resm[fmt.Sprintf("s%d-in", i)])
			b, fb := c01fromRes(resm[fmt.Sprintf("s%d-out", i)])
			if fa != "ok" || fb != "ok" {
				c.Count("simplify_semantic_skipped:"+fa+"/"+fb, 1)
				continue
			}
			// only programs that evaluate without an error have a meaning that does not depend on how the
			// evaluator reports errors below a struct; an output that has errors where the input has none is a change
			hasErr := false
			for _, m := range []map[string]string{a.raw, a.final} {
				for _, v := range m {
					if c01hasErr(v) {
						hasErr = true
					}
				}
			}
			if hasErr || a.err != "" {
				c.Count("simplify_semantic_skipped:input-has-errors", 1)
				continue
			}
			c.Count("simplify_semantic_comparisons", 1)
			var deps map[string]map[string]bool
			if f, err := parser.ParseFile("l.cue", p.src); err == nil {
				deps = c01deps(f)
			}
			// -s moves `...` and removes braces: which of several errors an erroneous field reports (cycle,
			// incomplete, eval) may follow the declaration order (C01's subject); here an error is an error
			c8errClass(a.raw)
			c8errClass(a.final)
			c8errClass(b.raw)
			c8errClass(b.final)
			if diffs, _ := c01compare(a, b, deps); len(diffs) > 0 {
				c.Violate("C08|simplify-changes-the-value", fmt.Sprintf("cue fmt -s changes what the file evaluates to: %s\n--- input\n%s\n--- output of -s\n%s", strings.Join(diffs, "; "), p.src, p.out), map[string]any{"src": p.src, "out": p.out})
			}
		}
		c.Sample(map[string]any{"literal_file": string(c8literalFile(c.RNG("sample")))})
		c.Sample(map[string]any{"label_program": c8labelProgram(c.RNG("sample2"))})
	})
}

var c8errRe = regexp.MustCompile(`_\|_\([a-z]+\)`)

func c8errClass(m map[string]string) {
	for k, v := range m {
		m[k] = c8errRe.ReplaceAllString(v, "_|_(err)")
	}
}
