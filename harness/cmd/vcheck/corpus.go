package main

// Frozen corpus of CUE sources extracted from the repository at the pinned
// commit (every .cue file and every .cue member of a .txtar archive).

import (
	"bufio"
	"compress/gzip"
	"encoding/json"
	"fmt"
	"io/fs"
	"os"
	"path/filepath"
	"sort"
	"strings"
	"sync"

	"cuelang.org/go/verifh/mon"
	"golang.org/x/tools/txtar"
)

type corpusFile struct {
	Name string `json:"name"`
	Src  string `json:"src"`
}

var (
	corpusOnce sync.Once
	corpusAll  []corpusFile
)

func corpusPath() string { return filepath.Join(mon.Root(), "corpus", "cue_sources.jsonl.gz") }

// loadCorpus returns the frozen corpus (sorted by name).
func loadCorpus() []corpusFile {
	corpusOnce.Do(func() {
		f, err := os.Open(corpusPath())
		if err != nil {
			return
		}
		defer f.Close()
		zr, err := gzip.NewReader(f)
		if err != nil {
			return
		}
		sc := bufio.NewScanner(zr)
		sc.Buffer(make([]byte, 1<<20), 1<<26)
		for sc.Scan() {
			var cf corpusFile
			if json.Unmarshal(sc.Bytes(), &cf) == nil {
				corpusAll = append(corpusAll, cf)
			}
		}
	})
	return corpusAll
}

func init() {
	// vcheck -worker mkcorpus <repo>  : (re)creates the frozen corpus file.
	workerModes["mkcorpus"] = func(args []string) int {
		repo := args[0]
		seen := map[string]bool{}
		var out []corpusFile
		add := func(name, src string) {
			if len(src) == 0 || len(src) > 64<<10 || seen[src] {
				return
			}
			seen[src] = true
			out = append(out, corpusFile{name, src})
		}
		filepath.WalkDir(repo, func(p string, d fs.DirEntry, err error) error {
			if err != nil {
				return nil
			}
			if d.IsDir() && (d.Name() == ".git" || d.Name() == "node_modules") {
				return filepath.SkipDir
			}
			rel, _ := filepath.Rel(repo, p)
			switch {
			case strings.HasSuffix(p, ".cue"):
				b, err := os.ReadFile(p)
				if err == nil {
					add(rel, string(b))
				}
			case strings.HasSuffix(p, ".txtar") || strings.HasSuffix(p, ".txt"):
				b, err := os.ReadFile(p)
				if err != nil {
					return nil
				}
				ar := txtar.Parse(b)
				for _, f := range ar.Files {
					if strings.HasSuffix(f.Name, ".cue") {
						add(rel+":"+f.Name, string(f.Data))
					}
				}
			}
			return nil
		})
		sort.Slice(out, func(i, j int) bool { return out[i].Name < out[j].Name })
		os.MkdirAll(filepath.Dir(corpusPath()), 0o777)
		f, err := os.Create(corpusPath())
		if err != nil {
			fmt.Println(err)
			return 1
		}
		zw := gzip.NewWriter(f)
		enc := json.NewEncoder(zw)
		for _, cf := range out {
			enc.Encode(cf)
		}
		zw.Close()
		f.Close()
		fmt.Println("corpus files:", len(out))
		return 0
	}
}
