package main

// C08 – second oracle and the -s stream.
//
// (1) Syntax-tree oracle: input and output of the formatter are parsed (comments attached, identifiers resolved)
//     and dumped with internal/astinternal.AppendDebug, positions left out, literals replaced by their class and
//     value, references named by the node they resolve to.  Equal dumps = "the same declarations, expressions,
//     literals, attributes, every comment attached in the same place, every reference bound to the same node".
// (2) Simplify: format.Source(src, format.Simplify()).  The dumps are compared after applying the documented
//     simplifications to BOTH trees (a quoted label that is a plain identifier = that identifier; `...`,
//     `[string]: _` and `[_]: _` of a struct = one `...` at its end; braces of a one-field struct are not part of
//     the tree anyway).  Whether unquoting a label captured a reference is seen in the dump (the reference then
//     points to another node) and, independently, by evaluating both texts and comparing the observations.

import (
	"bytes"
	"fmt"
	"math/rand/v2"
	"reflect"
	"regexp"
	"strings"

	"cuelang.org/go/cue/ast"
	"cuelang.org/go/cue/format"
	"cuelang.org/go/cue/literal"
	"cuelang.org/go/cue/parser"
	"cuelang.org/go/cue/token"
	"cuelang.org/go/internal/astinternal"
)

var c8posType = reflect.TypeOf(token.Pos{})
var c8braceEllipsisLine = regexp.MustCompile(`(?m)^\s*\}, \.\.\.$`)
var c8plainIdent = regexp.MustCompile(`^[\p{L}$][\p{L}\p{Nd}_$]*$`)

func c8normString(lit string) string {
	if u, err := literal.Unquote(lit); err == nil {
		q := strings.TrimLeft(lit, "#")
		class := fmt.Sprintf("%d", len(lit)-len(q))
		if strings.HasPrefix(q, `"""`) || strings.HasPrefix(q, `'''`) {
			class += q[:3]
		} else if q != "" {
			class += q[:1]
		}
		return "S" + class + ":" + u
	}
	// a fragment of an interpolation: modulo the indentation of continuation lines
	var lines []string
	for _, l := range strings.Split(lit, "\n") {
		lines = append(lines, strings.TrimLeft(l, " \t"))
	}
	return "i:" + strings.Join(lines, "\n")
}

func c8normNumber(lit string) string {
	var n literal.NumInfo
	if err := literal.ParseNum(lit, &n); err != nil {
		return "n?:" + lit
	}
	kind := "float"
	if n.IsInt() {
		kind = "int"
	}
	return "N" + kind + ":" + n.String()
}

// c8isBareEllipsis: what the formatter's isEllipsis treats as `...` under -s.
func c8isBareEllipsis(d ast.Decl) bool {
	switch x := d.(type) {
	case *ast.Ellipsis:
		return x.Type == nil
	case *ast.Field:
		v, ok := x.Value.(*ast.Ident)
		if !ok || v.Name != "_" || x.Constraint != token.ILLEGAL || len(x.Attrs) > 0 || x.Alias != nil {
			return false
		}
		l, ok := x.Label.(*ast.ListLit)
		if !ok || len(l.Elts) != 1 {
			return false
		}
		i, ok := l.Elts[0].(*ast.Ident)
		return ok && (i.Name == "string" || i.Name == "_")
	}
	return false
}

func c8simplifyDecls(decls []ast.Decl) []ast.Decl {
	var out []ast.Decl
	var cgs []*ast.CommentGroup
	found := false
	for _, d := range decls {
		if c8isBareEllipsis(d) {
			found = true
			cgs = append(cgs, ast.Comments(d)...)
			continue
		}
		out = append(out, d)
	}
	if found {
		n := &ast.Ellipsis{}
		ast.SetComments(n, cgs)
		out = append(out, n)
	}
	return out
}

// c8canon parses src and returns the canonical dump of its syntax tree.
func c8canon(src []byte, simp bool) (string, error) {
	f, err := parser.ParseFile("x.cue", src, parser.ParseComments)
	if err != nil {
		return "", err
	}
	ast.Walk(f, func(n ast.Node) bool {
		switch x := n.(type) {
		case *ast.BasicLit:
			switch x.Kind {
			case token.STRING:
				x.Value = c8normString(x.Value)
			case token.INT, token.FLOAT:
				x.Value = c8normNumber(x.Value)
			}
		case *ast.Comment:
			x.Text = strings.TrimRight(x.Text, " \t\r")
		case *ast.Field:
			// the keywords null, true and false used as labels are plain field names; the parser keeps them
			// as literals of their own kind
			if bl, ok := x.Label.(*ast.BasicLit); ok && (bl.Kind == token.NULL || bl.Kind == token.TRUE || bl.Kind == token.FALSE) {
				id := ast.NewIdent(bl.Value)
				ast.SetComments(id, ast.Comments(bl))
				x.Label = id
			}
			if simp {
				if bl, ok := x.Label.(*ast.BasicLit); ok && bl.Kind == token.STRING {
					if u, err := literal.Unquote(bl.Value); err == nil && c8plainIdent.MatchString(u) && strings.HasPrefix(bl.Value, `"`) && !strings.HasPrefix(bl.Value, `"""`) {
						id := ast.NewIdent(u)
						ast.SetComments(id, ast.Comments(bl))
						x.Label = id
					}
				}
			}
		case *ast.StructLit:
			if simp {
				x.Elts = c8simplifyDecls(x.Elts)
			}
		case *ast.File:
			if simp {
				x.Decls = c8simplifyDecls(x.Decls)
			}
		}
		return true
	}, nil)
	cfg := astinternal.DebugConfig{
		OmitEmpty:       true,
		IncludeNodeRefs: true,
		Filter:          func(v reflect.Value) bool { return v.Type() != c8posType },
	}
	dump := string(astinternal.AppendDebug(nil, f, cfg))
	// Doc and Line of a comment group are derived by the parser from the layout around the comment (is there a
	// token before it on its line, does a line break follow): they are not part of what the formatter has to
	// keep.  Position counts the tokens of the node before the comment: removing braces under -s changes it.
	var keep []string
	for _, l := range strings.Split(dump, "\n") {
		t := strings.TrimSpace(l)
		if t == "Doc: true" || t == "Line: true" || (simp && strings.HasPrefix(t, "Position: ")) {
			continue
		}
		keep = append(keep, l)
	}
	return strings.Join(keep, "\n"), nil
}

func c8firstDiffLine(a, b string) string {
	la, lb := strings.Split(a, "\n"), strings.Split(b, "\n")
	i := 0
	for i < len(la) && i < len(lb) && la[i] == lb[i] {
		i++
	}
	ctx := func(s []string) string {
		lo, hi := i-3, i+4
		if lo < 0 {
			lo = 0
		}
		if hi > len(s) {
			hi = len(s)
		}
		return strings.Join(s[lo:hi], "\n")
	}
	return fmt.Sprintf("tree line %d:\n--- input tree\n%s\n--- output tree\n%s", i, ctx(la), ctx(lb))
}

// c8treeClass names the kind of difference between two dumps.
func c8treeClass(a, b string) string {
	strip := func(s string, pred func(string) bool) string {
		var out []string
		for _, l := range strings.Split(s, "\n") {
			if !pred(strings.TrimSpace(l)) {
				out = append(out, strings.TrimSpace(l))
			}
		}
		return strings.Join(out, "\n")
	}
	isRef := func(l string) bool { return strings.HasPrefix(l, "Node: @") }
	reRef := regexp.MustCompile(`@ref\d+`)
	if reRef.ReplaceAllString(strip(a, isRef), "") == reRef.ReplaceAllString(strip(b, isRef), "") {
		return "tree:reference-bound-to-another-node"
	}
	isPos := func(l string) bool {
		return strings.HasPrefix(l, "Position: ") || strings.HasPrefix(l, "Doc: ") || strings.HasPrefix(l, "Line: ")
	}
	if strip(a, isPos) == strip(b, isPos) {
		return "tree:comment-position-attribute-changed"
	}
	return "tree:changed"
}

// c8checkTree: the syntax-tree oracle for plain formatting (src parses).
func c8checkTree(src []byte) (res *c8result) {
	defer func() {
		if rec := recover(); rec != nil {
			res = &c8result{"panic", fmt.Sprint(rec)}
		}
	}()
	out, err := format.Source(src)
	if err != nil {
		return &c8result{"format-error", err.Error()}
	}
	a, err := c8canon(src, false)
	if err != nil {
		return nil
	}
	b, err := c8canon(out, false)
	if err != nil {
		return &c8result{"output-does-not-parse", err.Error() + "\n--- output\n" + string(out)}
	}
	if a != b {
		return &c8result{c8treeClass(a, b), c8firstDiffLine(a, b) + "\n--- output\n" + string(out)}
	}
	return nil
}

// c8checkSimplify: -s. Returns the output for the semantic comparison.
func c8checkSimplify(src []byte) (out []byte, res *c8result) {
	defer func() {
		if rec := recover(); rec != nil {
			res = &c8result{"s:panic", fmt.Sprint(rec)}
		}
	}()
	out, err := format.Source(src, format.Simplify())
	if err != nil {
		return nil, &c8result{"s:format-error", err.Error()}
	}
	a, err := c8canon(src, true)
	if err != nil {
		return nil, nil
	}
	b, err := c8canon(out, true)
	if err != nil {
		return out, &c8result{"s:output-does-not-parse", err.Error() + "\n--- output\n" + string(out)}
	}
	if a != b {
		return out, &c8result{"s:" + c8treeClass(a, b), c8firstDiffLine(a, b) + "\n--- output\n" + string(out)}
	}
	out2, err := format.Source(out, format.Simplify())
	if err != nil {
		return out, &c8result{"s:second-pass-error", err.Error()}
	}
	if !bytes.Equal(out, out2) {
		class := "s:not-idempotent"
		// recorded finding: after a label was unquoted in a one-line struct that ends in `...`, the first pass
		// leaves "}, ..." on one line and the second pass moves the ellipsis to its own line (layout only)
		if c8diff(c8stream(out), c8stream(out2)) == "" && c8braceEllipsisLine.Match(out) && !c8braceEllipsisLine.Match(out2) {
			class = "s:not-idempotent:layout-of-ellipsis-after-closing-brace"
		}
		return out, &c8result{class, "second -s pass differs\n--- first\n" + string(out) + "\n--- second\n" + string(out2)}
	}
	out3, err := format.Source(out)
	if err != nil {
		return out, &c8result{"s:plain-pass-error", err.Error()}
	}
	if !bytes.Equal(out, out3) {
		return out, &c8result{"s:plain-format-changes-simplified-output", "--- -s\n" + string(out) + "\n--- plain fmt of it\n" + string(out3)}
	}
	return out, nil
}

// c8labelProgram: programs in which quoted labels, identifiers, references, lets and dynamic labels of the same
// few names meet in nested scopes: unquoting a label is only sound when no reference would then bind to it.
// The programs are acyclic by construction (a reference is only written where its binding - the nearest enclosing
// identifier label of that name - is a scalar field that has already been written), so their value does not
// depend on the evaluator's treatment of cycles; a label unquoted wrongly changes a binding and with it the value.
func c8labelProgram(r *rand.Rand) string {
	names := []string{"a", "b", "c"}
	special := []string{"_h", "#d", "_#e", "__x", "for", "if", "let", "in", "true", "null", "_", "a-b", "a b", "0a", "", "é", "a.b", "$x", "a_b", "A1", "string", "int", "len", "close", "self", "try", "fallback", "otherwise", "div", "and", "or"}
	const (
		pending = iota + 1
		intDone // a finished field whose value is a known integer
		other   // a struct, list, string, optional field ...: never referenced
	)
	type ent struct{ st, val int }
	type scope map[string]ent
	var scopes []scope
	var b strings.Builder
	top := scope{}
	perm := r.Perm(3)
	for i, n := range names {
		fmt.Fprintf(&b, "%s: %d\n", n, perm[i])
		top[n] = ent{intDone, perm[i]}
	}
	b.WriteString("xs: [{f: 10, g: [1, 2, 3], h: i: 1}, {f: 11, g: [4, 5, 6], h: i: 2}, {f: 12, g: [7, 8, 9], h: i: 3}, {f: 13, g: [0, 0, 0], h: i: 4}, {f: 14, g: [1, 1, 1], h: i: 5}]\n")
	scopes = append(scopes, top)
	// a name whose nearest binding is a finished integer field (and its value), or a literal
	atom := func() (string, int) {
		for try := 0; try < 6; try++ {
			n := names[r.IntN(len(names))]
			for i := len(scopes) - 1; i >= 0; i-- {
				if e, ok := scopes[i][n]; ok {
					if e.st == intDone {
						return n, e.val
					}
					break
				}
			}
		}
		v := r.IntN(3)
		return fmt.Sprint(v), v
	}
	// an expression with references in as many syntactic positions as there are: operands, index and slice
	// operands (also below a selector), call arguments, comprehension clauses, interpolations, defaults.
	// Returns the text, whether the value is an integer, and that integer.
	value := func() (string, bool, int) {
		n, v := atom()
		m, w := atom()
		idx := v >= 0 && v <= 4
		switch k := r.IntN(30); {
		case k == 0:
			x := r.IntN(5)
			return fmt.Sprint(x), true, x
		case k == 1:
			return n + " + 1", true, v + 1
		case k == 2:
			return fmt.Sprintf("[%s, %d]", n, r.IntN(3)), false, 0
		case k == 3:
			return fmt.Sprintf("\"v\\(%s)\"", n), false, 0
		case k == 4:
			return fmt.Sprintf("{x: %s}.x", n), true, v
		case k == 5:
			return fmt.Sprintf("[for v in [%s] {v}]", n), false, 0
		case k == 6 && idx:
			return fmt.Sprintf("xs[%s].f", n), true, 10 + v
		case k == 7 && idx:
			return fmt.Sprintf("xs[%s]", n), false, 0
		case k == 8 && idx && w >= 0 && w <= 2:
			return fmt.Sprintf("xs[%s].g[%s]", n, m), false, 0
		case k == 9 && idx:
			return fmt.Sprintf("(xs[%s]).f", n), true, 10 + v
		case k == 10 && idx:
			return fmt.Sprintf("xs[{i: %s}.i].f", n), true, 10 + v
		case k == 11:
			return fmt.Sprintf("len([%s, %s])", n, m), true, 2
		case k == 12:
			return fmt.Sprintf("div(%s, 1)", n), true, v
		case k == 13:
			return fmt.Sprintf("-%s", n), true, -v
		case k == 14:
			return fmt.Sprintf("(%s) * 2", n), true, 2 * v
		case k == 15:
			return fmt.Sprintf("%s == %s", n, m), false, 0
		case k == 16:
			return fmt.Sprintf("*%s | int", n), false, 0
		case k == 17:
			return fmt.Sprintf("[if %s >= 0 {%s}]", n, m), false, 0
		case k == 18:
			return fmt.Sprintf("[for v in [1, 2] if v > %s {v + %s}]", n, m), false, 0
		case k == 19:
			return fmt.Sprintf("[for v in [1] let w = %s {w}]", n), false, 0
		case k == 20:
			return fmt.Sprintf("{x: y: %s}.x.y", n), true, v
		case k == 21:
			return fmt.Sprintf("[%s, ...int]", n), false, 0
		case k == 22:
			return fmt.Sprintf("{%s}", n), true, v
		case k == 23 && idx && w >= 0 && w <= 3:
			return fmt.Sprintf("xs[%s].g[0:%s]", n, m), false, 0
		case k == 24:
			return fmt.Sprintf("{for k, v in {p: %s} {\"z\\(k)\": v}}", n), false, 0
		case k == 25:
			return fmt.Sprintf("{if %s < 5 {z: %s}}", n, m), false, 0
		case k == 26:
			return fmt.Sprintf("and([%s, int])", n), true, v
		case k == 27 && idx:
			return fmt.Sprintf("xs[%s].h.i", n), true, v + 1
		case k == 28:
			return fmt.Sprintf("%s & (int | string)", n), true, v
		default:
			return n, true, v
		}
	}
	val := func() string { t, _, _ := value(); return t }
	type lab struct {
		text, name string
		ident      bool
	}
	label := func() lab {
		// (raw-string labels #"a"# are re-quoted as "a" by the plain formatter: recorded corpus finding, not generated)
		switch k := r.IntN(10); {
		case k < 5:
			n := names[r.IntN(len(names))]
			return lab{fmt.Sprintf("%q", n), n, false}
		case k < 7:
			n := names[r.IntN(len(names))]
			return lab{n, n, true}
		default:
			n := special[r.IntN(len(special))]
			return lab{fmt.Sprintf("%q", n), n, false}
		}
	}
	cnt := 0
	var body func(depth int, ind string)
	body = func(depth int, ind string) {
		// the labels of a struct are chosen first: identifier labels bind references of the whole struct
		n := 1 + r.IntN(4)
		var labs []lab
		used := map[string]bool{}
		sc := scope{}
		for i := 0; i < n; i++ {
			l := label()
			if used[l.name] {
				continue
			}
			used[l.name] = true
			labs = append(labs, l)
			if l.ident {
				sc[l.name] = ent{pending, 0}
			}
		}
		scopes = append(scopes, sc)
		defer func() { scopes = scopes[:len(scopes)-1] }()
		// a plain field: its value becomes referenceable when it is an integer
		field := func(l lab) {
			t, isInt, v := value()
			fmt.Fprintf(&b, "%s%s: %s\n", ind, l.text, t)
			if l.ident {
				if isInt {
					sc[l.name] = ent{intDone, v}
				} else {
					sc[l.name] = ent{other, 0}
				}
			}
		}
		for _, l := range labs {
			switch k := r.IntN(12); {
			case k < 3 && depth < 3:
				if l.ident {
					sc[l.name] = ent{other, 0}
				}
				fmt.Fprintf(&b, "%s%s: {\n", ind, l.text)
				body(depth+1, ind+"\t")
				fmt.Fprintf(&b, "%s}\n", ind)
			case k == 3 && depth < 3:
				// one-field struct with braces: collapsed by -s
				if l.ident {
					sc[l.name] = ent{other, 0}
				}
				scopes = append(scopes, scope{})
				fmt.Fprintf(&b, "%s%s: {%s: %s}\n", ind, l.text, fmt.Sprintf("%q", names[r.IntN(len(names))]), val())
				scopes = scopes[:len(scopes)-1]
			case k == 4:
				cnt++
				fmt.Fprintf(&b, "%slet L%d = %s\n%sy%d: L%d\n", ind, cnt, val(), ind, cnt, cnt)
				field(l)
			case k == 5:
				if l.ident {
					sc[l.name] = ent{other, 0}
				}
				fmt.Fprintf(&b, "%s%s?: %s\n", ind, l.text, val())
			case k == 6 && depth > 0:
				fmt.Fprintf(&b, "%s...\n", ind)
				field(l)
			case k == 7 && depth > 0:
				fmt.Fprintf(&b, "%s[string]: _\n", ind)
				field(l)
			case k == 8:
				// a dynamic label and an interpolated label: their references bind like any other
				cnt++
				n1, _ := atom()
				fmt.Fprintf(&b, "%s(\"k%d\\(%s)\"): %d\n", ind, cnt, n1, r.IntN(5))
				n2, _ := atom()
				fmt.Fprintf(&b, "%s\"j%d\\(%s)\": %d\n", ind, cnt, n2, r.IntN(5))
				field(l)
			case k == 9 && depth > 0:
				n1, _ := atom()
				fmt.Fprintf(&b, "%s[=~\"^z\\(%s)\"]: int\n", ind, n1)
				field(l)
			default:
				field(l)
			}
		}
	}
	for i := 0; i < 2+r.IntN(3); i++ {
		fmt.Fprintf(&b, "s%d: {\n", i)
		body(1, "\t")
		b.WriteString("}\n")
	}
	return b.String()
}

// c8profiles: option sets other than the default; the same oracle applies (same tree, fixpoint under the same options).
var c8profiles = []struct {
	name string
	opts []format.Option
}{
	{"spaces", []format.Option{format.TabIndent(false)}},
	{"spaces2", []format.Option{format.TabIndent(false), format.UseSpaces(2)}},
	{"usespaces8", []format.Option{format.UseSpaces(8)}},
	{"spaces3-simplify", []format.Option{format.TabIndent(false), format.UseSpaces(3), format.Simplify()}},
}

func c8checkProfile(src []byte, k int) (res *c8result) {
	pr := c8profiles[k%len(c8profiles)]
	simp := strings.Contains(pr.name, "simplify")
	defer func() {
		if rec := recover(); rec != nil {
			res = &c8result{"opt:" + pr.name + ":panic", fmt.Sprint(rec)}
		}
	}()
	out, err := format.Source(src, pr.opts...)
	if err != nil {
		return &c8result{"opt:" + pr.name + ":format-error", err.Error()}
	}
	a, err := c8canon(src, simp)
	if err != nil {
		return nil
	}
	b, err := c8canon(out, simp)
	if err != nil {
		return &c8result{"opt:" + pr.name + ":output-does-not-parse", err.Error() + "\n--- output\n" + string(out)}
	}
	if a != b {
		return &c8result{"opt:" + pr.name + ":" + c8treeClass(a, b), c8firstDiffLine(a, b) + "\n--- output\n" + string(out)}
	}
	out2, err := format.Source(out, pr.opts...)
	if err != nil {
		return &c8result{"opt:" + pr.name + ":second-pass-error", err.Error()}
	}
	if !bytes.Equal(out, out2) {
		if simp && c8diff(c8stream(out), c8stream(out2)) == "" && c8braceEllipsisLine.Match(out) && !c8braceEllipsisLine.Match(out2) {
			return &c8result{"s:not-idempotent:layout-of-ellipsis-after-closing-brace", "second pass differs\n--- first\n" + string(out) + "\n--- second\n" + string(out2)}
		}
		return &c8result{"opt:" + pr.name + ":not-idempotent", "second pass differs\n--- first\n" + string(out) + "\n--- second\n" + string(out2)}
	}
	return nil
}
