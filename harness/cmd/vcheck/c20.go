package main

// C20 – cue trim removes only what is implied: the evaluated configuration is unchanged.

import (
	"encoding/json"
	"fmt"
	"math/rand/v2"
	"os"
	"os/exec"
	"path/filepath"
	"reflect"
	"sort"
	"strconv"
	"strings"
	"time"

	"cuelang.org/go/cue"
	"cuelang.org/go/cue/ast"
	"cuelang.org/go/cue/build"
	"cuelang.org/go/cue/cuecontext"
	"cuelang.org/go/cue/format"
	"cuelang.org/go/cue/parser"
	"cuelang.org/go/tools/trim"
	"cuelang.org/go/verifh/gen"
	"cuelang.org/go/verifh/mon"
	"cuelang.org/go/verifh/obs"
)

// c20schema generates a package in which schemas imply part of the data.
func c20schema(r *rand.Rand) string {
	var sb strings.Builder
	pick := func(xs ...string) string { return xs[r.IntN(len(xs))] }
	nd := 1 + r.IntN(2)
	type field struct{ name, typ, def string }
	defs := make([][]field, nd)
	open := make([]bool, nd)
	for d := 0; d < nd; d++ {
		fmt.Fprintf(&sb, "#S%d: {\n", d)
		nf := 2 + r.IntN(4)
		used := map[string]bool{}
		for i := 0; i < nf; i++ {
			name := pick("name", "port", "env", "tag", "level", "on")
			if used[name] {
				continue
			}
			used[name] = true
			var f field
			f.name = name
			switch name {
			case "port", "level":
				v := strconv.Itoa(1 + r.IntN(5))
				switch r.IntN(4) {
				case 0:
					f.typ, f.def = "*"+v+" | int", v
				case 1:
					f.typ, f.def = v, v
				case 2:
					f.typ, f.def = "int", ""
				default:
					f.typ, f.def = ">=0 & <=9 | *"+v, v
					f.typ = "*" + v + " | (>=0 & <=9)"
				}
				if r.IntN(6) == 0 {
					f.typ, f.def = "*1 | *2 | int", pick("1", "2")
				}
			case "on":
				f.typ, f.def = pick("*true | bool", "bool", "true"), "true"
				if f.typ == "bool" {
					f.def = ""
				}
			default:
				v := pick(`"a"`, `"b"`, `"prod"`)
				switch r.IntN(4) {
				case 0:
					f.typ, f.def = "*"+v+" | string", v
				case 1:
					f.typ, f.def = v, v
				case 2:
					f.typ, f.def = "string", ""
				default:
					f.typ, f.def = `*`+v+` | "x" | "y"`, v
				}
				if r.IntN(5) == 0 { // several defaults: data has to pick one of them
					f.typ, f.def = `*"small" | *"large" | string`, pick(`"small"`, `"large"`)
				}
			}
			opt := ""
			if r.IntN(6) == 0 {
				opt = "?"
			}
			fmt.Fprintf(&sb, "\t%s%s: %s\n", f.name, opt, f.typ)
			if opt == "" {
				defs[d] = append(defs[d], f)
			}
		}
		if r.IntN(3) == 0 {
			fmt.Fprintf(&sb, "\tsub: {x: *1 | int, y: %s}\n", pick("string", `*"s" | string`))
			defs[d] = append(defs[d], field{"sub", "struct", ""})
		}
		if r.IntN(4) == 0 {
			sb.WriteString("\t...\n")
			open[d] = true
		}
		sb.WriteString("}\n")
	}
	// pattern-constrained collection
	d0 := r.IntN(nd)
	extraID := ""
	if open[d0] && r.IntN(2) == 0 {
		extraID = "id: Name"
	}
	fmt.Fprintf(&sb, "svc: [Name=string]: #S%d & {%s}\n", d0, extraID)
	keys := []string{"a", "b", "c"}[:1+r.IntN(3)]
	data := func(fs []field, indent string) string {
		var out strings.Builder
		for _, f := range fs {
			if r.IntN(3) == 0 {
				continue
			}
			if f.name == "sub" {
				fmt.Fprintf(&out, "%ssub: {x: %s}\n", indent, pick("1", "1", "2"))
				continue
			}
			val := f.def
			switch x := r.IntN(10); {
			case val == "" || (x < 2 && strings.Contains(f.typ, "|")) || (x < 1 && r.IntN(10) == 0): // a value of its own
				switch f.name {
				case "port", "level":
					val = strconv.Itoa(r.IntN(8))
				case "on":
					val = pick("true", "false")
				default:
					val = pick(`"a"`, `"x"`, `"q"`)
				}
			case x < 3 && r.IntN(12) == 0: // conflicting kind (rare: trim refuses packages with errors)
				val = pick(`"oops"`, "77", "null")
			}
			fmt.Fprintf(&out, "%s%s: %s\n", indent, f.name, val)
		}
		return out.String()
	}
	for _, k := range keys {
		fmt.Fprintf(&sb, "svc: %s: {\n%s}\n", k, data(defs[d0], "\t"))
	}
	// a direct use of a definition with data, possibly in an embedded disjunction
	d1 := r.IntN(nd)
	switch r.IntN(3) {
	case 0:
		fmt.Fprintf(&sb, "one: #S%d & {\n%s}\n", d1, data(defs[d1], "\t"))
	case 1:
		fmt.Fprintf(&sb, "one: {#S%d}\none: {\n%s}\n", d1, data(defs[d1], "\t"))
	default:
		fmt.Fprintf(&sb, "one: {#S%d | {kind: \"other\", v: int}}\none: {\n%s}\n", d1, data(defs[d1], "\t"))
	}
	// comprehension that implies fields repeated below
	if r.IntN(2) == 0 && len(defs[d0]) > 0 && defs[d0][0].name != "sub" {
		fn := defs[d0][0].name // a field the schema really has
		fmt.Fprintf(&sb, "for k, v in svc {\n\tports: (k): v.%s\n}\n", fn)
		if r.IntN(2) == 0 {
			for _, k := range keys {
				if r.IntN(2) == 0 {
					fmt.Fprintf(&sb, "ports: %s: svc.%s.%s\n", k, k, fn)
				}
			}
		}
	}
	if r.IntN(3) == 0 {
		sb.WriteString("cfg: {level: *1 | int}\ncfg: level: 1\nuse: cfg.level\n")
	}
	// a comprehension whose guard reads the very field its body sets: the plain field is what makes the guard
	// true, so it is not implied by the comprehension; before or after the plain field, top level or nested
	if r.IntN(3) == 0 {
		comp := "if gate.web.tls {\n\tgate: web: tls: true\n}\n"
		plain := "gate: web: tls: true\n"
		other := "gate: web: name: \"w\"\n"
		parts := []string{comp, plain, other}
		r.Shuffle(len(parts), func(i, j int) { parts[i], parts[j] = parts[j], parts[i] })
		sb.WriteString(strings.Join(parts, ""))
	}
	if r.IntN(3) == 0 {
		comp := "\tif on {\n\t\ton:    true\n\t\tlevel: 2\n\t}\n"
		plain := "\ton: true\n"
		other := "\tname: \"n\"\n\tlevel: 2\n"
		parts := []string{comp, plain, other}
		r.Shuffle(len(parts), func(i, j int) { parts[i], parts[j] = parts[j], parts[i] })
		sb.WriteString("flags: {\n" + strings.Join(parts, "") + "}\n")
	}
	return sb.String()
}

// c20augment adds declarations that repeat part of the evaluated value of src (what trim should be able to remove).
func c20augment(r *rand.Rand, src string) string {
	ctx := cuecontext.New()
	v := ctx.CompileString(src)
	if v.Err() != nil {
		return src
	}
	var extra []string
	var walk func(v cue.Value, path []string, depth int)
	walk = func(v cue.Value, path []string, depth int) {
		if depth > 3 {
			return
		}
		it, err := v.Fields()
		if err != nil {
			return
		}
		for it.Next() {
			sel := it.Selector()
			if sel.LabelType() != cue.StringLabel {
				continue
			}
			p := append(append([]string{}, path...), sel.String())
			fv := it.Value()
			if d, ok := fv.Default(); ok {
				fv = d
			}
			switch fv.Kind() {
			case cue.IntKind, cue.StringKind, cue.BoolKind:
				if r.IntN(3) == 0 {
					b, err := format.Node(fv.Syntax(cue.Final()))
					if err == nil {
						val := string(b)
						if r.IntN(8) == 0 {
							val = `"changed"` // a value that conflicts or overrides: must be kept
						}
						extra = append(extra, strings.Join(p, ": ")+": "+val)
					}
				}
			case cue.StructKind:
				walk(fv, p, depth+1)
			}
		}
	}
	walk(v, nil, 0)
	if len(extra) > 6 {
		r.Shuffle(len(extra), func(i, j int) { extra[i], extra[j] = extra[j], extra[i] })
		extra = extra[:6]
	}
	return src + strings.Join(extra, "\n") + "\n"
}

func c20split(r *rand.Rand, src string) []bfile {
	f, err := parser.ParseFile("p.cue", src, parser.ParseComments)
	if err != nil {
		return []bfile{{Name: "a.cue", Src: src}}
	}
	k := 1 + r.IntN(3)
	files := make([]*ast.File, k)
	for i := range files {
		files[i] = &ast.File{Filename: fmt.Sprintf("f%d.cue", i), Decls: []ast.Decl{&ast.Package{Name: ast.NewIdent("p")}}}
	}
	for _, d := range f.Decls {
		i := r.IntN(k)
		files[i].Decls = append(files[i].Decls, d)
	}
	var out []bfile
	for _, pf := range files {
		b, err := format.Node(pf)
		if err != nil {
			return []bfile{{Name: "a.cue", Src: "package p\n" + src}}
		}
		out = append(out, bfile{Name: pf.Filename, Src: string(b)})
	}
	return out
}

func c20build(ctx *cue.Context, files []bfile) (cue.Value, []*ast.File, error) {
	inst := build.NewContext().NewInstance("/x", nil)
	var afs []*ast.File
	for _, bf := range files {
		f, err := parser.ParseFile("/x/"+bf.Name, bf.Src, parser.ParseComments)
		if err != nil {
			return cue.Value{}, nil, err
		}
		afs = append(afs, f)
		if err := inst.AddSyntax(f); err != nil {
			return cue.Value{}, nil, err
		}
	}
	return ctx.BuildInstance(inst), afs, nil
}

func c20observe(ctx *cue.Context, v cue.Value) map[string]string {
	return obs.New(ctx, "final", obs.DefaultProbes, obs.DefaultLabels).TopLevel(v)
}

func c20countDecls(files []*ast.File) int {
	n := 0
	for _, f := range files {
		ast.Walk(f, func(x ast.Node) bool {
			if _, ok := x.(*ast.Field); ok {
				n++
			}
			return true
		}, nil)
	}
	return n
}

func init() {
	batchOps["c20trim"] = func(cs bcase) map[string]any {
		out := map[string]any{}
		ctx := cuecontext.New()
		v, afs, err := c20build(ctx, cs.Files)
		if err != nil {
			out["skip"] = "does not parse"
			return out
		}
		if v.Err() != nil && !v.Exists() {
			out["skip"] = "does not compile"
			return out
		}
		before := c20observe(ctx, v)
		nBefore := c20countDecls(afs)
		if err := trim.Files(afs, v, &trim.Config{}); err != nil {
			out["trim_error"] = err.Error()
			return out
		}
		var trimmed []bfile
		for i, f := range afs {
			b, err := format.Node(f)
			if err != nil {
				out["fail"] = "trimmed file does not format: " + err.Error()
				return out
			}
			trimmed = append(trimmed, bfile{Name: cs.Files[i].Name, Src: string(b)})
		}
		out["trimmed"] = trimmed
		ctx2 := cuecontext.New()
		v2, afs2, err := c20build(ctx2, trimmed)
		if err != nil {
			out["fail"] = "trimmed files do not parse: " + err.Error()
			return out
		}
		if v2.Err() != nil && !v2.Exists() {
			out["fail"] = "trimmed package does not compile: " + v2.Err().Error()
			return out
		}
		after := c20observe(ctx2, v2)
		out["removed"] = nBefore - c20countDecls(afs2)
		var diffs []string
		keys := map[string]bool{}
		for k := range before {
			keys[k] = true
		}
		for k := range after {
			keys[k] = true
		}
		var ks []string
		for k := range keys {
			ks = append(ks, k)
		}
		sort.Strings(ks)
		for _, k := range ks {
			if before[k] != after[k] {
				diffs = append(diffs, fmt.Sprintf("%s: %s  →  %s", k, trunc9(before[k], 400), trunc9(after[k], 400)))
			}
		}
		if len(diffs) > 0 {
			out["fail"] = "evaluated configuration changed"
			out["diffs"] = diffs
			return out
		}
		// second trim: a fixpoint
		if err := trim.Files(afs2, v2, &trim.Config{}); err != nil {
			out["fail"] = "second trim fails: " + err.Error()
			return out
		}
		for i, f := range afs2 {
			b, _ := format.Node(f)
			if string(b) != trimmed[i].Src {
				out["fail"] = "trimming the trimmed files again changes " + trimmed[i].Name
				out["second"] = string(b)
				return out
			}
		}
		return out
	}
}

func init() {
	register("C20", "exploration", func(c *Ctx) {
		c.Rule = "packages: (a) PRNG schema packages: definitions with defaults / fixed values / plain types / optional fields, a pattern-constrained collection `svc: [Name=string]: #S & {...}`, direct and embedded (also in an embedded disjunction) uses of a definition, a comprehension implying a second struct, and data that copies the implied value, sets its own value, or conflicts (errors must be preserved); (b) programs of the C01 generator; both augmented with declarations copied from their own evaluated value (redundant by construction) or overridden, split over 1-3 files; (c) the repository's trim testdata inputs. Monitor (isolated workers): final observation per top-level field before and after trim.Files (same data, same error class per path), trimmed files parse and compile, second trim.Files is a no-op; a sample goes through `cue trim` in place. Non-trivial = distinct package from which trim removed at least one declaration."
		c.Assume = []string{"equivalence = final-mode observation of DESIGN §3.2 (defaults taken, regular fields)", "trim.Files only edits files whose name lies under the instance directory: the harness builds instances with absolute names"}
		if c.Replay != nil {
			var files []bfile
			if l, ok := c.Replay["files"].([]any); ok {
				for _, x := range l {
					m, _ := x.(map[string]any)
					files = append(files, bfile{Name: fmt.Sprint(m["name"]), Src: fmt.Sprint(m["src"])})
				}
			}
			res := c.RunBatch([]bcase{{ID: "r", Op: "c20trim", Files: files}}, 60*time.Second)
			c.Eval(1)
			c20judge(c, "r", files, "replay", res["r"])
			return
		}
		n := c.N(4000, 60000)
		var cases []bcase
		meta := map[string][]bfile{}
		origin := map[string]string{}
		for k := 0; k < n; k++ {
			r := c.RNG(fmt.Sprintf("pkg-%d", k))
			var src, og string
			if k%3 == 2 {
				src, og = gen.Program(r), "cuegen"
			} else {
				src, og = c20schema(r), "schema"
			}
			func() {
				defer func() { recover() }()
				src = c20augment(r, src)
			}()
			files := c20split(r, src)
			id := fmt.Sprintf("p%d", k)
			cases = append(cases, bcase{ID: id, Op: "c20trim", Files: files})
			meta[id] = files
			origin[id] = og
			if k < 2 {
				c.Sample(map[string]any{"files": files})
			}
		}
		// frozen witnesses of the recorded finding
		for i, files := range [][]bfile{
			{{Name: "f0.cue", Src: "package p\n\nf2: q: 1\n"}, {Name: "f1.cue", Src: "package p\n\n#D0: {d: {b: 1, _h: 1}, ...}\nf0:  =~\"^a\"\nf1:  \"ax\"\nf2:  #D0 & {q: 1}\n"}, {Name: "f2.cue", Src: "package p\n\nf1: \"ax\"\n"}},
			{{Name: "f0.cue", Src: "package p\n\nf1: >=4 & <=6\n"}, {Name: "f1.cue", Src: "package p\n\nf1: 5\n"}, {Name: "f2.cue", Src: "package p\n\nf0: \"ax\" | \"bx\"\nf1: 5\n"}},
		} {
			id := fmt.Sprintf("w%d", i)
			cases = append(cases, bcase{ID: id, Op: "c20trim", Files: files})
			meta[id] = files
			origin[id] = "witness"
		}
		// the trim testdata inputs of the frozen corpus
		byArchive := map[string][]bfile{}
		for _, cf := range loadCorpus() {
			if !strings.HasPrefix(cf.Name, "tools/trim/testdata/") || strings.Contains(cf.Src, "import ") {
				continue
			}
			ar, name, _ := strings.Cut(cf.Name, ":")
			if strings.HasPrefix(name, "out/") {
				continue
			}
			byArchive[ar] = append(byArchive[ar], bfile{Name: filepath.Base(name), Src: cf.Src})
		}
		for ar, files := range byArchive {
			id := "t:" + ar
			cases = append(cases, bcase{ID: id, Op: "c20trim", Files: files})
			meta[id] = files
			origin[id] = "testdata|" + ar
		}
		res := c.RunBatch(cases, 30*time.Second)
		for id, files := range meta {
			c20judge(c, id, files, origin[id], res[id])
		}
		c20cli(c, meta, res)
	})
}

func c20judge(c *Ctx, id string, files []bfile, origin string, r *bres) {
	if r == nil || r.Status != "ok" {
		c.Count("inconclusive_cases", 1)
		if r != nil {
			c.Count("worker_"+r.Status, 1)
			if r.Status == "panic" && strings.Contains(r.Site, "tools/trim") {
				c.Violate("C20|panic|"+r.Site, "trim panics: "+firstLine(r.Crash), map[string]any{"files": files, "crash": r.Crash})
			}
		}
		return
	}
	c.Eval(1)
	c.Count("origin:"+strings.SplitN(origin, "|", 2)[0], 1)
	if s, ok := r.Out["skip"].(string); ok {
		c.Count("skipped:"+s, 1)
		return
	}
	if e, ok := r.Out["trim_error"].(string); ok {
		c.Count("trim_errors", 1)
		c.Count("trim_error:"+trunc9(strings.SplitN(e, ":", 2)[0], 40), 1)
		return
	}
	removed, _ := r.Out["removed"].(float64)
	if removed > 0 {
		c.Count("packages_trimmed", 1)
		c.Count("declarations_removed", int64(removed))
		var all []string
		for _, f := range files {
			all = append(all, f.Src)
		}
		c.Nontrivial(strings.Join(all, "\x00"))
	}
	if len(files) > 1 {
		c.Count("multi_file_packages", 1)
	}
	fail, _ := r.Out["fail"].(string)
	if fail == "" {
		return
	}
	var texts []string
	for _, f := range files {
		texts = append(texts, "// "+f.Name+"\n"+f.Src)
	}
	what := fail
	if d, ok := r.Out["diffs"].([]any); ok {
		for _, x := range d {
			what += "\n  " + fmt.Sprint(x)
		}
	}
	what += "\n--- package\n" + trunc9(strings.Join(texts, "\n"), 2000)
	if t, ok := r.Out["trimmed"].([]any); ok {
		what += "\n--- trimmed"
		for _, x := range t {
			m, _ := x.(map[string]any)
			what += "\n// " + fmt.Sprint(m["name"]) + "\n" + trunc9(fmt.Sprint(m["src"]), 1200)
		}
	}
	key := "C20|" + origin
	if !strings.HasPrefix(origin, "testdata") {
		key = "C20|gen|" + monHash(strings.Join(texts, "\n"))
	}
	if strings.HasPrefix(fail, "trimming the trimmed files again") {
		// recorded class: the package declares the same field with the same value text more than once
		// (e.g. in two files); the first trim resolves only part of the redundancy, a second trim more
		// ... counted by path: svc: a: {port: 1} in one file and svc: a: port: 1 in another declare one field twice
		count := map[string]int{}
		dup := false
		var walk func(prefix string, decls []ast.Decl)
		walk = func(prefix string, decls []ast.Decl) {
			for _, d := range decls {
				f, ok := d.(*ast.Field)
				if !ok {
					continue
				}
				name, _, err := ast.LabelName(f.Label)
				if err != nil {
					continue
				}
				path := prefix + "." + name
				if st, ok := f.Value.(*ast.StructLit); ok {
					walk(path, st.Elts)
					continue
				}
				count[path]++
				if count[path] > 1 {
					dup = true
				}
			}
		}
		for _, f := range files {
			if pf, err := parser.ParseFile(f.Name, f.Src); err == nil {
				walk("", pf.Decls)
			}
		}
		if dup {
			key = "C20|not-a-fixpoint-with-duplicate-declarations"
		}
	}
	c.Violate(key, what, map[string]any{"files": files})
}

// c20cli: `cue trim` in place on a sample must leave `cue export` unchanged.
func c20cli(c *Ctx, meta map[string][]bfile, res map[string]*bres) {
	if c.CueBin == "" {
		return
	}
	base := filepath.Join(os.Getenv("VERIF_RUNDIR"), "c20cli")
	var ids []string
	for id := range meta {
		if r := res[id]; r != nil && r.Status == "ok" && r.Out["fail"] == nil && r.Out["skip"] == nil {
			if rm, _ := r.Out["removed"].(float64); rm > 0 {
				ids = append(ids, id)
			}
		}
	}
	sort.Strings(ids)
	if len(ids) > c.N(40, 1000) {
		ids = ids[:c.N(40, 1000)]
	}
	c.Par(len(ids), func(i int) {
		dir := filepath.Join(base, fmt.Sprint(i))
		os.MkdirAll(filepath.Join(dir, "cue.mod"), 0o777)
		os.WriteFile(filepath.Join(dir, "cue.mod", "module.cue"), []byte("module: \"x.test/p\"\nlanguage: version: \"v0.9.0\"\n"), 0o666)
		files := meta[ids[i]]
		for _, f := range files {
			src := f.Src
			if !strings.Contains(src, "package ") {
				src = "package p\n" + src
			}
			os.WriteFile(filepath.Join(dir, f.Name), []byte(src), 0o666)
		}
		run := func(args ...string) (string, int) {
			cmd := exec.Command(c.CueBin, args...)
			cmd.Dir = dir
			cmd.Env = append(os.Environ(), "CUE_CACHE_DIR="+filepath.Join(base, "cache"), "HOME="+base)
			out, err := cmd.CombinedOutput()
			code := 0
			if ee, ok := err.(*exec.ExitError); ok {
				code = ee.ExitCode()
			} else if err != nil {
				code = -1
			}
			return string(out), code
		}
		before, c1 := run("export", "--out", "json", ".")
		_, ct := run("trim", ".")
		after, c2 := run("export", "--out", "json", ".")
		c.Count("cli_runs", 1)
		c.Eval(1)
		if ct != 0 {
			c.Count("cli_trim_failed", 1)
			return
		}
		var bj, aj any
		json.Unmarshal([]byte(before), &bj)
		json.Unmarshal([]byte(after), &aj)
		if c1 != c2 || (c1 == 0 && !reflect.DeepEqual(bj, aj)) { // field order may change when declarations are removed
			c.Violate("C20|cli|"+monHash(fmt.Sprint(files)), fmt.Sprintf("cue trim changes the exported data (exit %d → %d)\n--- before\n%s\n--- after\n%s", c1, c2, trunc9(before, 800), trunc9(after, 800)), map[string]any{"files": files})
		}
		os.RemoveAll(dir)
	})
	_ = mon.Hash
}
