package main

// C03 – unifying scalars, types and bounds is exact set intersection.
// Model: every constraint is a predicate over (kind, exact value); written
// from the property statement and spec §Bounds, not from simplify.go.

import (
	"fmt"
	"math/big"
	"math/rand/v2"
	"regexp"
	"strings"

	"cuelang.org/go/cue"
	"cuelang.org/go/cue/cuecontext"
)

type c3atom struct {
	src  string
	kind string // null bool int float string bytes
	num  *big.Rat
	s    string
	b    bool
}

func c3num(src string, kind string) c3atom {
	r, ok := new(big.Rat).SetString(src)
	if !ok {
		panic("bad number " + src)
	}
	return c3atom{src: src, kind: kind, num: r}
}

var c3atoms = []c3atom{
	{src: "null", kind: "null"}, {src: "true", kind: "bool", b: true}, {src: "false", kind: "bool"},
	c3num("-2", "int"), c3num("-1", "int"), c3num("0", "int"), c3num("1", "int"), c3num("2", "int"), c3num("3", "int"),
	c3num("-1.5", "float"), c3num("-0.5", "float"), c3num("0.5", "float"), c3num("1.5", "float"), c3num("2.5", "float"),
	c3num("0.0", "float"), c3num("1.0", "float"), c3num("2.0", "float"),
	{src: `""`, kind: "string", s: ""}, {src: `"a"`, kind: "string", s: "a"}, {src: `"ab"`, kind: "string", s: "ab"}, {src: `"b"`, kind: "string", s: "b"},
	{src: `''`, kind: "bytes", s: ""}, {src: `'a'`, kind: "bytes", s: "a"}, {src: `'b'`, kind: "bytes", s: "b"},
}

type c3cons struct {
	src   string
	class string
	sat   func(a c3atom) bool
}

func (a c3atom) isNum() bool { return a.kind == "int" || a.kind == "float" }

func c3cmpOK(op string, c int) bool {
	switch op {
	case "<":
		return c < 0
	case "<=":
		return c <= 0
	case ">":
		return c > 0
	case ">=":
		return c >= 0
	case "!=":
		return c != 0
	case "==":
		return c == 0
	}
	panic(op)
}

func c3eq(a, x c3atom) bool {
	if x.kind != a.kind {
		return false
	}
	if a.isNum() {
		return x.num.Cmp(a.num) == 0
	}
	return x.s == a.s && x.b == a.b
}

// c3bound builds the model of `op operand`.
func c3bound(op string, o c3atom) (c3cons, bool) {
	src := op + "(" + o.src + ")"
	switch {
	case o.isNum():
		return c3cons{src, "bound-num" + op, func(a c3atom) bool { return a.isNum() && c3cmpOK(op, a.num.Cmp(o.num)) }}, true
	case o.kind == "string" || o.kind == "bytes":
		return c3cons{op + o.src, "bound-" + o.kind + op, func(a c3atom) bool { return a.kind == o.kind && c3cmpOK(op, strings.Compare(a.s, o.s)) }}, true
	case o.kind == "null" && op == "!=":
		return c3cons{"!=null", "neq-null", func(a c3atom) bool { return a.kind != "null" }}, true
	case o.kind == "bool" && op == "!=":
		return c3cons{op + o.src, "neq-bool", func(a c3atom) bool { return a.kind == "bool" && a.b != o.b }}, true
	}
	return c3cons{}, false
}

var c3ranges = map[string][2]string{
	"int8": {"-128", "127"}, "int16": {"-32768", "32767"}, "int32": {"-2147483648", "2147483647"},
	"int64":  {"-9223372036854775808", "9223372036854775807"},
	"int128": {"-170141183460469231731687303715884105728", "170141183460469231731687303715884105727"},
	"uint8":  {"0", "255"}, "uint16": {"0", "65535"}, "uint32": {"0", "4294967295"},
	"uint64": {"0", "18446744073709551615"}, "uint128": {"0", "340282366920938463463374607431768211455"},
	"rune": {"0", "1114111"},
}

func c3rangeCons(name string) c3cons {
	if name == "uint" {
		return c3cons{"uint", "range", func(a c3atom) bool { return a.kind == "int" && a.num.Sign() >= 0 }}
	}
	r := c3ranges[name]
	lo, _ := new(big.Rat).SetString(r[0])
	hi, _ := new(big.Rat).SetString(r[1])
	return c3cons{name, "range", func(a c3atom) bool { return a.kind == "int" && a.num.Cmp(lo) >= 0 && a.num.Cmp(hi) <= 0 }}
}

func c3build() []c3cons {
	var cs []c3cons
	typ := func(name string, f func(a c3atom) bool) { cs = append(cs, c3cons{name, "type", f}) }
	typ("_", func(a c3atom) bool { return true })
	typ("null", func(a c3atom) bool { return a.kind == "null" })
	typ("bool", func(a c3atom) bool { return a.kind == "bool" })
	typ("int", func(a c3atom) bool { return a.kind == "int" })
	typ("float", func(a c3atom) bool { return a.kind == "float" })
	typ("number", c3atom.isNum)
	typ("string", func(a c3atom) bool { return a.kind == "string" })
	typ("bytes", func(a c3atom) bool { return a.kind == "bytes" })
	cs = append(cs, c3rangeCons("uint"), c3rangeCons("int8"), c3rangeCons("uint8"))
	for _, op := range []string{"<", "<=", ">", ">=", "!="} {
		for _, o := range c3atoms {
			if c, ok := c3bound(op, o); ok {
				cs = append(cs, c)
			}
		}
	}
	for _, re := range []string{"^a", "b$", "^$"} {
		rx := regexp.MustCompile(re)
		cs = append(cs, c3cons{`=~"` + re + `"`, "regexp", func(a c3atom) bool { return a.kind == "string" && rx.MatchString(a.s) }})
		cs = append(cs, c3cons{`!~"` + re + `"`, "regexp", func(a c3atom) bool { return a.kind == "string" && !rx.MatchString(a.s) }})
	}
	for _, a := range c3atoms {
		a := a
		cs = append(cs, c3cons{a.src, "atom", func(x c3atom) bool { return c3eq(a, x) }})
	}
	return cs
}

// c3parseResult turns the printed form of a concrete scalar back into an atom.
func c3parseResult(v cue.Value) (c3atom, bool) {
	switch v.Kind() {
	case cue.NullKind:
		return c3atom{src: "null", kind: "null"}, true
	case cue.BoolKind:
		b, _ := v.Bool()
		return c3atom{kind: "bool", b: b}, true
	case cue.IntKind, cue.FloatKind:
		var d = new(big.Rat)
		s := fmt.Sprint(v)
		if _, ok := d.SetString(s); !ok {
			return c3atom{}, false
		}
		k := "int"
		if v.Kind() == cue.FloatKind {
			k = "float"
		}
		return c3atom{src: s, kind: k, num: d}, true
	case cue.StringKind:
		s, _ := v.String()
		return c3atom{kind: "string", s: s}, true
	case cue.BytesKind:
		b, _ := v.Bytes()
		return c3atom{kind: "bytes", s: string(b)}, true
	}
	return c3atom{}, false
}

type c3stats struct {
	evals, nontrivial int
	cells             map[string]int
	enumerated        bool // cases are distinct by construction
}

// c3check evaluates E alone and E & a for every atom in one compile.
// extra are additional atoms (outside the alphabet) to test.
func c3check(c *Ctx, ctx *cue.Context, E []c3cons, atoms []c3atom, st *c3stats) {
	parts := make([]string, len(E))
	classes := make([]string, len(E))
	for i, e := range E {
		parts[i] = e.src
		classes[i] = e.class
	}
	esrc := strings.Join(parts, " & ")
	var sb strings.Builder
	fmt.Fprintf(&sb, "e: %s\n", esrc)
	for i, a := range atoms {
		fmt.Fprintf(&sb, "a%d: %s & %s\n", i, esrc, a.src)
	}
	root := ctx.CompileString(sb.String())
	replay := func(extra string) map[string]any {
		return map[string]any{"expr": esrc, "atoms": atomSrcs(atoms), "note": extra}
	}
	if root.Err() != nil && !root.Exists() {
		c.Violate("C03|compile|"+esrc, fmt.Sprintf("does not compile: %s: %v", esrc, root.Err()), replay(""))
		return
	}
	ev := root.LookupPath(cue.ParsePath("e"))
	eBottom := ev.Err() != nil
	var sat []c3atom
	nAcc, nRej := 0, 0
	for i, a := range atoms {
		want := true
		for _, e := range E {
			if !e.sat(a) {
				want = false
				break
			}
		}
		if want {
			sat = append(sat, a)
			nAcc++
		} else {
			nRej++
		}
		st.evals++
		v := root.LookupPath(cue.MakePath(cue.Str(fmt.Sprintf("a%d", i))))
		got := v.Err() == nil
		if got != want {
			c.Violate(fmt.Sprintf("C03|accept|%s|%s", esrc, a.src),
				fmt.Sprintf("(%s) & %s: model accepts=%v, evaluator accepts=%v (%v)", esrc, a.src, want, got, v.Err()),
				replay(a.src))
			continue
		}
		if got {
			res, ok := c3parseResult(v)
			if !ok || !v.IsConcrete() || !c3eq(a, res) {
				c.Violate(fmt.Sprintf("C03|result|%s|%s", esrc, a.src),
					fmt.Sprintf("(%s) & %s evaluates to %v, not to the atom", esrc, a.src, v), replay(a.src))
			}
		}
	}
	if eBottom && len(sat) > 0 {
		c.Violate("C03|bottom|"+esrc, fmt.Sprintf("%s evaluates to bottom (%v) although %s satisfies every conjunct", esrc, ev.Err(), sat[0].src), replay(""))
	}
	if !eBottom && ev.IsConcrete() {
		// A pinned atom must itself satisfy every conjunct, and no other atom may.
		res, ok := c3parseResult(ev)
		if !ok {
			c.Violate("C03|pinned-unparsed|"+esrc, fmt.Sprintf("%s reports non-scalar concrete %v", esrc, ev), replay(""))
		} else {
			for _, e := range E {
				if !e.sat(res) {
					c.Violate("C03|pinned|"+esrc, fmt.Sprintf("%s reports %v which does not satisfy %s", esrc, ev, e.src), replay(""))
					break
				}
			}
			for _, sa := range sat {
				if !c3eq(sa, res) {
					c.Violate("C03|pinned|"+esrc, fmt.Sprintf("%s reports %v but %s also satisfies every conjunct", esrc, ev, sa.src), replay(""))
					break
				}
			}
		}
	}
	if len(E) >= 2 && nAcc > 0 && nRej > 0 {
		if st.enumerated {
			st.nontrivial++
		} else {
			c.Nontrivial(esrc)
		}
	}
	if len(E) >= 2 {
		k := classes[0] + "×" + classes[1]
		if classes[1] < classes[0] {
			k = classes[1] + "×" + classes[0]
		}
		st.cells[k]++
	}
}

func atomSrcs(as []c3atom) []string {
	out := make([]string, len(as))
	for i, a := range as {
		out[i] = a.src
	}
	return out
}

func c3merge(c *Ctx, st *c3stats) {
	c.Eval(st.evals)
	c.NontrivialN(int64(st.nontrivial))
	for k, v := range st.cells {
		c.Count("cell:"+k, int64(v))
	}
}

// c3bigCase builds a random large-magnitude / high-precision conjunction with atoms at ±1 ulp.
func c3bigCase(r *rand.Rand) ([]c3cons, []c3atom) {
	digits := func(n int) string {
		var sb strings.Builder
		sb.WriteByte(byte('1' + r.IntN(9)))
		for i := 1; i < n; i++ {
			sb.WriteByte(byte('0' + r.IntN(10)))
		}
		return sb.String()
	}
	var base *big.Int
	scale := 0 // value = base / 10^scale
	n := 20 + r.IntN(180)
	base, _ = new(big.Int).SetString(digits(n), 10)
	if r.IntN(2) == 0 {
		base.Neg(base)
	}
	if r.IntN(2) == 0 {
		scale = 1 + r.IntN(30)
	}
	mk := func(b *big.Int) c3atom {
		s := b.String()
		if scale == 0 {
			return c3num(s, "int")
		}
		neg := strings.HasPrefix(s, "-")
		s = strings.TrimPrefix(s, "-")
		for len(s) <= scale {
			s = "0" + s
		}
		s = s[:len(s)-scale] + "." + s[len(s)-scale:]
		if neg {
			s = "-" + s
		}
		return c3num(s, "float")
	}
	one := big.NewInt(1)
	lo := mk(new(big.Int).Sub(base, one))
	mid := mk(base)
	hi := mk(new(big.Int).Add(base, one))
	hi2 := mk(new(big.Int).Add(base, big.NewInt(2)))
	atoms := []c3atom{lo, mid, hi, hi2}
	if scale == 0 {
		// the same values spelled as floats, and a half-way value
		for _, a := range []c3atom{lo, mid, hi} {
			atoms = append(atoms, c3num(a.src+".0", "float"))
		}
		atoms = append(atoms, c3num(mid.src+".5", "float"))
	}
	ops := []string{"<", "<=", ">", ">=", "!="}
	var E []c3cons
	k := 1 + r.IntN(3)
	for i := 0; i < k; i++ {
		o := atoms[r.IntN(len(atoms))]
		b, _ := c3bound(ops[r.IntN(len(ops))], o)
		E = append(E, b)
	}
	switch r.IntN(4) {
	case 0:
		E = append(E, c3cons{"int", "type", func(a c3atom) bool { return a.kind == "int" }})
	case 1:
		E = append(E, c3cons{"float", "type", func(a c3atom) bool { return a.kind == "float" }})
	case 2:
		E = append(E, c3cons{"number", "type", c3atom.isNum})
	}
	r.Shuffle(len(E), func(i, j int) { E[i], E[j] = E[j], E[i] })
	return E, atoms
}

// c3rangeCase: predeclared range with bounds/atoms around its limits.
func c3rangeCase(r *rand.Rand) ([]c3cons, []c3atom) {
	names := []string{"int8", "int16", "int32", "int64", "int128", "uint8", "uint16", "uint32", "uint64", "uint128", "rune", "uint"}
	name := names[r.IntN(len(names))]
	rc := c3rangeCons(name)
	var pivots []*big.Int
	if name == "uint" {
		pivots = []*big.Int{big.NewInt(0)}
	} else {
		lo, _ := new(big.Int).SetString(c3ranges[name][0], 10)
		hi, _ := new(big.Int).SetString(c3ranges[name][1], 10)
		pivots = []*big.Int{lo, hi}
	}
	var atoms []c3atom
	for _, p := range pivots {
		for d := int64(-2); d <= 2; d++ {
			v := new(big.Int).Add(p, big.NewInt(d))
			atoms = append(atoms, c3num(v.String(), "int"))
		}
		atoms = append(atoms, c3num(p.String()+".0", "float"), c3num(p.String()+".5", "float"))
	}
	atoms = append(atoms, c3atoms[0], c3atoms[17])
	E := []c3cons{rc}
	ops := []string{"<", "<=", ">", ">=", "!="}
	k := r.IntN(3)
	for i := 0; i < k; i++ {
		b, _ := c3bound(ops[r.IntN(len(ops))], atoms[r.IntN(len(atoms)-2)])
		E = append(E, b)
	}
	r.Shuffle(len(E), func(i, j int) { E[i], E[j] = E[j], E[i] })
	return E, atoms
}

func init() {
	register("C03", "exploration", func(c *Ctx) {
		cs := c3build()
		c.Rule = "conjunctions E of constraints (8 basic types, uint/int8/uint8, 5 comparison operators × 24-atom alphabet of ints/half-integers/strings/bytes/bools/null, =~/!~ over 3 regexps, atoms) checked against a set model: E alone and E&a for every alphabet atom; exhaustive for |E|<=2 (|E|<=3 over the numeric sub-alphabet in thorough), PRNG-sampled for |E|=3,4; plus random 20-200 digit / high-precision bounds with atoms at ±1 ulp and predeclared ranges probed around their limits. Non-trivial = |E|>=2 and E accepts some but not all atoms; distinct by construction (enumeration) or by source text (samples)."
		c.Assume = []string{"model written from the property statement and spec §Bounds: a bound restricts to the kind class of its operand, !=null admits every non-null value, =~/!~ restrict to string, int and float literal kinds are distinct", "regexps use Go RE2 (documented dialect)"}
		if c.Replay != nil {
			c3replay(c, cs)
			return
		}
		n := len(cs)
		c.Set("constraints", n)
		c.Set("atoms", len(c3atoms))
		// exhaustive |E| = 1, 2
		c.Par(n, func(i int) {
			ctx := cuecontext.New()
			st := &c3stats{cells: map[string]int{}, enumerated: true}
			c3check(c, ctx, []c3cons{cs[i]}, c3atoms, st)
			for j := 0; j < n; j++ {
				c3check(c, ctx, []c3cons{cs[i], cs[j]}, c3atoms, st)
			}
			c3merge(c, st)
		})
		c.Count("exhaustive_pairs", int64(n*n))
		c.Set("exhaustive", false)
		c.Set("exhaustive_subspace", "all |E|<=2 over the full constraint alphabet × all atoms")
		// thorough: exhaustive triples over the numeric constraints
		if c.Thorough {
			var numc []c3cons
			for _, k := range cs {
				if strings.HasPrefix(k.class, "bound-num") || k.src == "int" || k.src == "float" || k.src == "number" || k.class == "range" {
					numc = append(numc, k)
				}
			}
			m := len(numc)
			c.Par(m*m, func(ij int) {
				ctx := cuecontext.New()
				st := &c3stats{cells: map[string]int{}, enumerated: true}
				i, j := ij/m, ij%m
				for k := 0; k < m; k++ {
					c3check(c, ctx, []c3cons{numc[i], numc[j], numc[k]}, c3atoms[3:17], st)
				}
				c3merge(c, st)
			})
			c.Count("exhaustive_numeric_triples", int64(m*m*m))
			c.Set("exhaustive_subspace", "all |E|<=2 over the full alphabet; all |E|=3 over numeric bounds/types × numeric atoms")
		}
		// sampled |E| = 3, 4
		ns := c.N(20000, 300000)
		batches := 64
		c.Par(batches, func(b int) {
			r := c.RNG(fmt.Sprintf("sample-%d", b))
			ctx := cuecontext.New()
			st := &c3stats{cells: map[string]int{}}
			for k := 0; k < ns/batches; k++ {
				sz := 3 + r.IntN(2)
				E := make([]c3cons, sz)
				// bias: pick constraints of one kind family so that conjunctions are satisfiable often
				fam := r.IntN(3)
				for i := range E {
					for {
						e := cs[r.IntN(n)]
						if fam == 0 && !(strings.Contains(e.class, "num") || e.class == "type" || e.class == "range" || e.class == "atom") {
							continue
						}
						if fam == 1 && !(strings.Contains(e.class, "string") || e.class == "regexp" || e.class == "type" || e.class == "atom" || e.class == "neq-null") {
							continue
						}
						E[i] = e
						break
					}
				}
				c3check(c, ctx, E, c3atoms, st)
				if k == 0 && b < 3 {
					c.Sample(map[string]any{"E": consSrcs(E), "atoms": "alphabet(24)"})
				}
			}
			c3merge(c, st)
		})
		// big numbers and predeclared ranges
		nb := c.N(4000, 100000)
		c.Par(batches, func(b int) {
			r := c.RNG(fmt.Sprintf("big-%d", b))
			ctx := cuecontext.New()
			st := &c3stats{cells: map[string]int{}}
			for k := 0; k < nb/batches; k++ {
				var E []c3cons
				var atoms []c3atom
				if k%2 == 0 {
					E, atoms = c3bigCase(r)
					c.Count("big_cases", 1)
				} else {
					E, atoms = c3rangeCase(r)
					c.Count("range_cases", 1)
				}
				c3check(c, ctx, E, atoms, st)
				if k < 2 && b == 0 {
					c.Sample(map[string]any{"E": consSrcs(E), "atoms": atomSrcs(atoms)})
				}
			}
			c3merge(c, st)
		})
	})
}

func consSrcs(E []c3cons) []string {
	out := make([]string, len(E))
	for i, e := range E {
		out[i] = e.src
	}
	return out
}

func c3replay(c *Ctx, cs []c3cons) {
	// A replay re-evaluates the recorded expression against the alphabet by
	// re-deriving the model from constraint source texts.
	expr, _ := c.Replay["expr"].(string)
	bysrc := map[string]c3cons{}
	for _, k := range cs {
		bysrc[k.src] = k
	}
	var E []c3cons
	for _, p := range strings.Split(expr, " & ") {
		k, ok := bysrc[p]
		if !ok {
			c.Inconclusive("replay of out-of-alphabet constraint " + p + " not supported; rerun the seed")
			return
		}
		E = append(E, k)
	}
	st := &c3stats{cells: map[string]int{}}
	c3check(c, cuecontext.New(), E, c3atoms, st)
	c3merge(c, st)
}
