package main

// C09 – the parser is total; positions are consistent; literals round-trip
// through quoting; parser, scanner and literal package agree.

import (
	"fmt"
	"math/rand/v2"
	"os"
	"path/filepath"
	"regexp"
	"strings"
	"time"
	"unicode/utf8"

	"cuelang.org/go/cue"
	"cuelang.org/go/cue/ast"
	"cuelang.org/go/cue/cuecontext"
	"cuelang.org/go/cue/errors"
	"cuelang.org/go/cue/literal"
	"cuelang.org/go/cue/parser"
	"cuelang.org/go/cue/token"
	"golang.org/x/text/unicode/norm"
)

var c9alpha = []string{`"`, `'`, `#`, `\`, "\n", "\r", "\t", "\x00", "a", " ", "(", ")", "\u0085", "\u2028", "\u2029", "\ufeff",
	"😀", "\x7f", "é", "\\(", `"""`, `'''`, "\xff", "\xc3", "\xed\xa0\x80", "\ufffd", "\u00a0", "$", "0", "u", "n", "\\#", "##", "\v", "\x1b", "\U0010ffff", "\u0300", "x", "/", "*"}

type c9form struct {
	name  string
	f     literal.Form
	bytes bool
	label bool
	multi bool
}

func c9forms() []c9form {
	var out []c9form
	add := func(name string, f literal.Form, bytes, label, multi bool) {
		out = append(out, c9form{name, f, bytes, label, multi})
	}
	add("String", literal.String, false, false, false)
	add("Bytes", literal.Bytes, true, false, false)
	add("Label", literal.Label, false, true, false)
	for n := 0; n <= 3; n++ {
		add(fmt.Sprintf("String.Tab%d", n), literal.String.WithTabIndent(n), false, false, true)
		add(fmt.Sprintf("Bytes.Tab%d", n), literal.Bytes.WithTabIndent(n), true, false, true)
	}
	add("String.OptTab1", literal.String.WithOptionalTabIndent(1), false, false, true)
	add("Bytes.OptTab2", literal.Bytes.WithOptionalTabIndent(2), true, false, true)
	add("String.ASCII", literal.String.WithASCIIOnly(), false, false, false)
	add("Bytes.ASCII", literal.Bytes.WithASCIIOnly(), true, false, false)
	add("String.Graphic", literal.String.WithGraphicOnly(), false, false, false)
	add("String.OptHashes", literal.String.WithOptionalHashes(), false, false, false)
	add("Bytes.OptHashes", literal.Bytes.WithOptionalHashes(), true, false, false)
	add("String.Tab1.OptHashes", literal.String.WithTabIndent(1).WithOptionalHashes(), false, false, true)
	add("String.OptTab1.OptHashes.ASCII", literal.String.WithOptionalTabIndent(1).WithOptionalHashes().WithASCIIOnly(), false, false, true)
	add("Label.ASCII", literal.Label.WithASCIIOnly(), false, true, false)
	return out
}

var c9xpath = cue.ParsePath("x")

// c9quoteCase checks one (form, s).
func c9quoteCase(c *Ctx, ctx *cue.Context, fm c9form, s string) {
	c.Eval(1)
	rp := map[string]any{"form": fm.name, "string_hex": fmt.Sprintf("%x", s), "string": fmt.Sprintf("%q", s)}
	var q string
	func() {
		defer func() {
			if rec := recover(); rec != nil {
				c.Violate(fmt.Sprintf("C09|quote-panic|%s|%x", fm.name, s), fmt.Sprintf("literal.%s.Quote(%q) panics: %v", fm.name, s, rec), rp)
				q = ""
			}
		}()
		q = fm.f.Quote(s)
	}()
	if q == "" {
		return
	}
	u, err := literal.Unquote(q)
	if err != nil || u != s {
		c.Violate(fmt.Sprintf("C09|unquote|%s|%x", fm.name, s), fmt.Sprintf("literal.%s.Quote(%q) = %s which unquotes to %q (err=%v)", fm.name, s, q, u, err), rp)
		return
	}
	// the quoted text is one BasicLit for the parser and evaluates to s
	if fm.label {
		v := ctx.CompileString(q + ": 1")
		it, _ := v.Fields()
		ok := false
		if it != nil {
			for it.Next() {
				if it.Selector().Unquoted() == norm.NFC.String(s) { // labels are NFC-normalised by the compiler
					ok = true
				}
			}
		}
		if !ok {
			c.Violate(fmt.Sprintf("C09|label-eval|%s|%x", fm.name, s), fmt.Sprintf("label %s does not denote field %q (err=%v)", q, s, v.Err()), rp)
		}
		return
	}
	src := "x: " + q
	if strings.Contains(q, "\n") {
		src = "x:\n" + q
	}
	expr, perr := parser.ParseExpr("q.cue", q)
	if perr != nil {
		c.Violate(fmt.Sprintf("C09|parse|%s|%x", fm.name, s), fmt.Sprintf("quoted form %s does not parse: %v", q, perr), rp)
		return
	}
	if _, ok := expr.(*ast.BasicLit); !ok {
		c.Violate(fmt.Sprintf("C09|parse-kind|%s|%x", fm.name, s), fmt.Sprintf("quoted form %s parses as %T, not a basic literal", q, expr), rp)
		return
	}
	v := ctx.CompileString(src).LookupPath(c9xpath)
	var got string
	var gerr error
	if fm.bytes {
		var b []byte
		b, gerr = v.Bytes()
		got = string(b)
	} else {
		got, gerr = v.String()
	}
	if gerr != nil || got != s {
		c.Violate(fmt.Sprintf("C09|eval|%s|%x", fm.name, s), fmt.Sprintf("quoted form %s evaluates to %q (err=%v), want %q", q, got, gerr, s), rp)
	}
	// embedding the same text in a #-padded form must keep working: re-quote through AppendEscaped-free path
}

// ---------------------------------------------------------------- parser

type c9posErr struct{ msg string }

// c9checkPositions walks the tree and checks containment and ordering.
func c9checkPositions(f ast.Node, size int, full bool) (bad string) {
	inRange := func(p token.Pos) bool {
		if !p.HasAbsPos() { // NoPos or relative-only
			return true
		}
		o := p.Offset()
		return o >= 0 && o <= size
	}
	type frame struct {
		n        ast.Node
		lo, hi   int
		lastEnd  int
		haveLast bool
	}
	var stack []*frame
	ast.Walk(f, func(n ast.Node) bool {
		if bad != "" {
			return false
		}
		if n == nil {
			return false
		}
		pos, end := n.Pos(), n.End()
		if !inRange(pos) || !inRange(end) {
			bad = fmt.Sprintf("%T position [%d,%d] outside input of length %d", n, pos.Offset(), end.Offset(), size)
			return false
		}
		for _, cg := range ast.Comments(n) {
			if !inRange(cg.Pos()) || !inRange(cg.End()) {
				bad = fmt.Sprintf("comment group of %T at [%d,%d] outside input of length %d", n, cg.Pos().Offset(), cg.End().Offset(), size)
				return false
			}
			if cg.Pos().HasAbsPos() && cg.End().HasAbsPos() && cg.Pos().Offset() > cg.End().Offset() {
				bad = fmt.Sprintf("comment group ends before it starts [%d,%d]", cg.Pos().Offset(), cg.End().Offset())
				return false
			}
		}
		switch n.(type) {
		case *ast.CommentGroup, *ast.Comment:
			return false
		}
		if pos.HasAbsPos() && end.HasAbsPos() {
			lo, hi := pos.Offset(), end.Offset()
			if lo > hi {
				bad = fmt.Sprintf("%T ends (%d) before it starts (%d)", n, hi, lo)
				return false
			}
			if len(stack) > 0 {
				p := stack[len(stack)-1]
				if full && p.lo >= 0 && (lo < p.lo || hi > p.hi) {
					bad = fmt.Sprintf("%T [%d,%d] not inside its parent %T [%d,%d]", n, lo, hi, p.n, p.lo, p.hi)
					return false
				}
				if full && p.haveLast && lo < p.lastEnd {
					bad = fmt.Sprintf("%T [%d,%d] starts before the end (%d) of its preceding sibling under %T", n, lo, hi, p.lastEnd, p.n)
					return false
				}
				p.lastEnd, p.haveLast = hi, true
			}
			stack = append(stack, &frame{n: n, lo: lo, hi: hi})
		} else {
			stack = append(stack, &frame{n: n, lo: -1, hi: -1})
		}
		return true
	}, func(n ast.Node) {
		switch n.(type) {
		case *ast.CommentGroup, *ast.Comment:
			return
		}
		if len(stack) > 0 && stack[len(stack)-1].n == n {
			stack = stack[:len(stack)-1]
		}
	})
	return bad
}

// c9parseOne runs the parser entry points on one input with all monitors.
func c9parseOne(c *Ctx, src string, class string) {
	c.Eval(1)
	rp := map[string]any{"input_hex": fmt.Sprintf("%x", src), "input": fmt.Sprintf("%q", src), "class": class}
	key := func(kind string) string { return "C09|" + kind + "|" + monHash(src) }
	type res struct {
		f       *ast.File
		err     error
		exprErr error
		panicV  any
		where   string
	}
	done := make(chan res, 1)
	go func() {
		var r res
		defer func() {
			if rec := recover(); rec != nil {
				r.panicV = rec
			}
			done <- r
		}()
		r.where = "ParseFile"
		r.f, r.err = parser.ParseFile("in.cue", src, parser.ParseComments)
		r.where = "ParseExpr"
		_, r.exprErr = parser.ParseExpr("in.cue", src, parser.ParseComments)
		r.where = "ParseFile(no comments)"
		f2, err2 := parser.ParseFile("in.cue", src)
		if (err2 == nil) != (r.err == nil) {
			r.where = "comment-mode"
			r.panicV = fmt.Sprintf("ParseFile accepts=%v with ParseComments but accepts=%v without", r.err == nil, err2 == nil)
		}
		_ = f2
	}()
	var r res
	select {
	case r = <-done:
	case <-time.After(20 * time.Second):
		c.Violate(key("hang"), fmt.Sprintf("parser does not return within 20s on a %d byte input", len(src)), rp)
		return
	}
	if r.panicV != nil {
		if r.where == "comment-mode" && c09attrComment.MatchString(src) {
			// recorded finding: a comment between an attribute's name and its parenthesis
			c.Violate("C09|comment-between-attribute-name-and-arguments", fmt.Sprintf("%s: %v", r.where, r.panicV), rp)
			return
		}
		c.Violate(key("panic"), fmt.Sprintf("%s: %v", r.where, r.panicV), rp)
		return
	}
	// error positions within the input
	for _, e := range errors.Errors(r.err) {
		for _, p := range errors.Positions(e) {
			if p.HasAbsPos() && (p.Offset() < 0 || p.Offset() > len(src)) {
				c.Violate(key("errpos"), fmt.Sprintf("error %q reported at offset %d outside input of length %d", e.Error(), p.Offset(), len(src)), rp)
			}
		}
	}
	if r.f != nil {
		// containment and sibling order are required of syntax trees of accepted inputs;
		// the partial tree returned next to errors is only checked for bounds and start<=end.
		if bad := c9checkPositions(r.f, len(src), r.err == nil); bad != "" {
			c.Violate(key("nodepos"), bad, rp)
		}
	}
	if r.err != nil {
		c.Count("parse_rejected", 1)
		// agreement (as in the repository's fuzz target)
		// "package" and "import" are identifiers for ParseExpr but open the preamble of a file
		// (the repository's fuzz target makes the same exception for the bare words).
		// Likewise "if", "for" and "let" open a clause at declaration level but are plain
		// identifiers inside an expression: a file is not an expression.
		ts := src
		for {
			ts = strings.TrimLeft(ts, " \t\r\n,\ufeff")
			if strings.HasPrefix(ts, "//") {
				if i := strings.IndexByte(ts, '\n'); i >= 0 {
					ts = ts[i+1:]
					continue
				}
				ts = ""
			}
			break
		}
		preamble := false
		for _, kw := range []string{"package", "import", "if", "for", "let"} {
			if strings.HasPrefix(ts, kw) {
				preamble = true
			}
		}
		if !preamble {
			if r.exprErr == nil {
				c.Violate(key("file-vs-expr"), "ParseFile rejects this input but ParseExpr accepts it", rp)
			}
			if ast.IsValidIdent(src) {
				c.Violate(key("ident"), "parser rejects this identifier but ast.IsValidIdent accepts it", rp)
			}
		}
		var info literal.NumInfo
		if err := literal.ParseNum(src, &info); err == nil {
			c.Violate(key("num"), "parser rejects this number but literal.ParseNum accepts it", rp)
		}
		if _, err := literal.Unquote(src); err == nil {
			k := key("string")
			if strings.Contains(src, "\ufeff") && strings.Contains(r.err.Error(), "illegal byte order mark") {
				k = "C09|raw-bom-in-string" // recorded finding
			}
			if c9hasEscapedNewline(src) && strings.Contains(r.err.Error(), "unknown escape sequence") {
				k = "C09|escaped-newline-rejected" // recorded finding
			}
			c.Violate(k, "parser rejects this string but literal.Unquote accepts it: "+r.err.Error(), rp)
		}
		return
	}
	c.Count("parse_accepted", 1)
	c.Nontrivial(src)
	ast.Walk(r.f, func(n ast.Node) bool {
		switch n := n.(type) {
		case *ast.Ident:
			if !ast.IsValidIdent(n.Name) {
				c.Violate(key("ident2"), fmt.Sprintf("parser accepts identifier %q but ast.IsValidIdent does not", n.Name), rp)
			}
		case *ast.Interpolation:
			return false // parts are incomplete literals
		case *ast.BasicLit:
			switch n.Kind {
			case token.INT, token.FLOAT:
				var info literal.NumInfo
				if err := literal.ParseNum(n.Value, &info); err != nil {
					k := key("num2")
					if strings.Contains(err.Error(), "number cannot be represented as int") && strings.ContainsAny(n.Value, "KMGTP") && strings.Contains(n.Value, ".") {
						k = "C09|si-fraction-rejected" // recorded finding (same root cause as C06)
					}
					c.Violate(k, fmt.Sprintf("parser accepts number %q but literal.ParseNum does not: %v", n.Value, err), rp)
				} else if info.IsInt() != (n.Kind == token.INT) {
					c.Violate(key("numkind"), fmt.Sprintf("parser says %v for %q but literal says int=%v", n.Kind, n.Value, info.IsInt()), rp)
				}
			case token.STRING:
				if _, err := literal.Unquote(n.Value); err != nil {
					c.Violate(key("string2"), fmt.Sprintf("parser accepts string %q but literal.Unquote does not: %v", n.Value, err), rp)
				}
			}
		}
		return true
	}, nil)
}

// c9hasEscapedNewline: a backslash (plus optional #s) directly before a line terminator.
func c9hasEscapedNewline(src string) bool {
	for i := 0; i < len(src); i++ {
		if src[i] != '\\' {
			continue
		}
		j := i + 1
		for j < len(src) && src[j] == '#' {
			j++
		}
		if j < len(src) && (src[j] == '\n' || src[j] == '\r') {
			return true
		}
	}
	return false
}

var c9tokens = []string{"a", "b", "_x", "#D", "_#h", "x1", "package", "import", "if", "for", "in", "let", "true", "false", "null", "_|_", "_",
	"0", "1", "12", "0x1F", "0o7", "0b1", "1.5", ".5", "1e3", "1K", "1.5Mi", "0_1", "1_000",
	`"s"`, `'b'`, `"\(a)"`, `#"x"#`, "\"\"\"\n\tm\n\t\"\"\"", `"\u00e9"`, `"a\(b)c\(d)"`,
	"{", "}", "[", "]", "(", ")", ":", ",", ".", "...", "?", "!", "=", "==", "!=", "<", "<=", ">", ">=", "=~", "!~", "&", "|", "*", "+", "-", "/", "&&", "||",
	"\n", "\n", " ", "\t", "// c\n", "@attr(x)", "@a(b=c,\"d\")", "div", "mod", "len", "close", "<-", "~", "$", "`", ";", "\\", "\"", "'", "#", "\"\"\"", "\\(", "\r\n", "\x00", "\ufeff", "é", "😀", "\xff"}

func c9soup(r *rand.Rand) string {
	n := 1 + r.IntN(25)
	var sb strings.Builder
	for i := 0; i < n; i++ {
		sb.WriteString(c9tokens[r.IntN(len(c9tokens))])
		if r.IntN(3) > 0 {
			sb.WriteByte(' ')
		}
	}
	return sb.String()
}

func c9single(r *rand.Rand) string {
	// a single candidate literal / identifier
	switch r.IntN(5) {
	case 0: // number-like
		alphabet := "0123456789_.eE+-xXobKMGTPi"
		n := 1 + r.IntN(8)
		var sb strings.Builder
		for i := 0; i < n; i++ {
			sb.WriteByte(alphabet[r.IntN(len(alphabet))])
		}
		return sb.String()
	case 1: // string-like
		n := r.IntN(6)
		var sb strings.Builder
		q := []string{`"`, `'`, `#"`, `"""` + "\n", `'''` + "\n", `##"`}[r.IntN(6)]
		sb.WriteString(q)
		for i := 0; i < n; i++ {
			sb.WriteString(c9alpha[r.IntN(len(c9alpha))])
		}
		if r.IntN(4) > 0 {
			cl := map[string]string{`"`: `"`, `'`: `'`, `#"`: `"#`, `"""` + "\n": "\n" + `"""`, `'''` + "\n": "\n" + `'''`, `##"`: `"##`}[q]
			sb.WriteString(cl)
		}
		return sb.String()
	case 2: // identifier-like
		alphabet := []string{"a", "Z", "_", "#", "0", "$", "é", "-", "__", "ǅ", "٣", "\u200d"}
		n := 1 + r.IntN(5)
		var sb strings.Builder
		for i := 0; i < n; i++ {
			sb.WriteString(alphabet[r.IntN(len(alphabet))])
		}
		return sb.String()
	case 3:
		return c9tokens[r.IntN(len(c9tokens))]
	default:
		return c9tokens[r.IntN(len(c9tokens))] + c9tokens[r.IntN(len(c9tokens))]
	}
}

func c9mutate(r *rand.Rand, src string) string {
	b := []byte(src)
	if len(b) > 4096 {
		start := r.IntN(len(b) - 4096)
		b = b[start : start+4096]
	}
	n := 1 + r.IntN(4)
	for i := 0; i < n && len(b) > 0; i++ {
		p := r.IntN(len(b))
		switch r.IntN(7) {
		case 0: // delete a span
			e := p + 1 + r.IntN(8)
			if e > len(b) {
				e = len(b)
			}
			b = append(b[:p:p], b[e:]...)
		case 1: // insert a token
			t := c9tokens[r.IntN(len(c9tokens))]
			b = append(b[:p:p], append([]byte(t), b[p:]...)...)
		case 2: // flip a byte
			b[p] ^= byte(1 << r.IntN(8))
		case 3: // duplicate a span
			e := p + 1 + r.IntN(12)
			if e > len(b) {
				e = len(b)
			}
			b = append(b[:e:e], append(append([]byte{}, b[p:e]...), b[e:]...)...)
		case 4: // truncate
			b = b[:p]
		case 5: // insert hostile rune
			t := c9alpha[r.IntN(len(c9alpha))]
			b = append(b[:p:p], append([]byte(t), b[p:]...)...)
		case 6: // swap two spans
			q := r.IntN(len(b))
			b[p], b[q] = b[q], b[p]
		}
	}
	return string(b)
}

func c9deep(r *rand.Rand) string {
	n := 200 + r.IntN(1800)
	open := []string{"[", "{a:", "(", "{", "[{", "-", "!", "a.", "a[", "a&", "1+"}[r.IntN(11)]
	return strings.Repeat(open, n)
}

var c09attrComment = regexp.MustCompile(`@[A-Za-z_$#][A-Za-z0-9_$#]*[ \t]*//[^\n]*\n[ \t\n]*\(`)

func init() {
	register("C09", "exploration", func(c *Ctx) {
		c.Rule = "quote: every literal.Form the library offers (String/Bytes/Label × tab indent 0-3, optional indent, ASCII-only, graphic-only, optional hashes, combinations) × every 1- and 2-element string over a 40-element hostile alphabet (quotes, #, backslash, CR, LF, NUL, U+0085, U+2028/9, BOM, surrogate-range bytes, invalid UTF-8 for bytes, non-BMP) exhaustively + PRNG strings up to 40 elements; oracle Unquote(Quote(s))==s, quoted text parses as one BasicLit and evaluates to s. parser: byte/token mutations of the frozen corpus, token soups, single candidate literals/identifiers, deep nesting; monitors: no panic/hang (recover + 20s watchdog, crash dump classifier), positions of errors and nodes inside the input, children inside parents, siblings ordered, parser/scanner/literal/ast agreement on numbers, strings, identifiers. Non-trivial = distinct accepted parser input or distinct (form,string) with a special character."
		c.Assume = []string{"literal.String forms are documented as lossy for invalid UTF-8: string forms are only fed valid UTF-8", "comment groups are attached to nodes, not children: checked for file bounds only"}
		if c.Replay != nil {
			c9replay(c)
			return
		}
		forms := c9forms()
		// 1. exhaustive 1- and 2-element strings
		var inputs []string
		inputs = append(inputs, "")
		for _, a := range c9alpha {
			inputs = append(inputs, a)
			for _, b := range c9alpha {
				inputs = append(inputs, a+b)
			}
		}
		nrand := c.N(3000, 120000)
		{
			r := c.RNG("quote-strings")
			for i := 0; i < nrand; i++ {
				n := 1 + r.IntN(10)
				if r.IntN(10) == 0 {
					n = 10 + r.IntN(30)
				}
				var sb strings.Builder
				for j := 0; j < n; j++ {
					sb.WriteString(c9alpha[r.IntN(len(c9alpha))])
				}
				inputs = append(inputs, sb.String())
			}
		}
		c.Set("quote_strings", len(inputs))
		c.Set("quote_forms", len(forms))
		c.Set("exhaustive_subspace", fmt.Sprintf("all strings of <=2 elements over the %d-element alphabet × %d forms", len(c9alpha), len(forms)))
		c.Par(len(forms)*16, func(k int) {
			fm := forms[k/16]
			ctx := cuecontext.New()
			for i := k % 16; i < len(inputs); i += 16 {
				s := inputs[i]
				if !fm.bytes && !utf8.ValidString(s) {
					continue
				}
				c9quoteCase(c, ctx, fm, s)
				if len(s) > 1 {
					c.Nontrivial("q|" + fm.name + "|" + s)
				}
			}
		})
		c.Sample(map[string]any{"form": "String.OptHashes", "string": `a"#b`, "quoted": literal.String.WithOptionalHashes().Quote(`a"#b`)})

		// 2. parser inputs
		corpus := loadCorpus()
		if len(corpus) == 0 {
			c.Inconclusive("frozen corpus missing")
			return
		}
		// frozen adversarial inputs (witnesses of recorded findings and fixed defects, replayed every run)
		for _, src := range []string{"\"\ufeff*\"", "8+.6Ti", "'''\n\ta\\\n\tb\n\t'''", "x: \"\"\"\n\ta\\\n\tb\n\t\"\"\"", "'''\n\t'''x\n'''", "_1.5Mi", "._0", "0_7.5",
			"package", "import", " package", "// c\nimport", "if - !=1", "let !~ a \n", "import (\n\t\"a\"\n\t\"\"b\"\n)\n"} {
			c9parseOne(c, src, "frozen")
		}
		nparse := c.N(30000, 1000000)
		batches := 64
		rundir := os.Getenv("VERIF_RUNDIR")
		c.Par(batches, func(b int) {
			r := c.RNG(fmt.Sprintf("parse-%d", b))
			var wal string
			if rundir != "" {
				wal = filepath.Join(rundir, fmt.Sprintf("c09.cur.%d", b))
			}
			for k := 0; k < nparse/batches; k++ {
				var src, class string
				switch x := r.IntN(20); {
				case x < 9:
					src, class = c9mutate(r, corpus[r.IntN(len(corpus))].Src), "corpus-mutation"
				case x < 13:
					src, class = c9soup(r), "token-soup"
				case x < 18:
					src, class = c9single(r), "single-literal"
				case x < 19:
					src, class = c9deep(r), "deep-nesting"
				default:
					src, class = corpus[r.IntN(len(corpus))].Src, "corpus"
				}
				if wal != "" {
					os.WriteFile(wal, []byte(src), 0o666) // write-ahead: a fatal crash identifies its input
				}
				c.Count("input:"+class, 1)
				c9parseOne(c, src, class)
				if b == 0 && k < 3 {
					c.Sample(map[string]any{"class": class, "input": trunc9(src, 200)})
				}
			}
		})
	})
}

func trunc9(s string, n int) string {
	if len(s) > n {
		return s[:n] + "…"
	}
	return s
}

func c9replay(c *Ctx) {
	if h, ok := c.Replay["input_hex"].(string); ok {
		var b []byte
		fmt.Sscanf(h, "%x", &b)
		c9parseOne(c, string(b), "replay")
		return
	}
	if h, ok := c.Replay["string_hex"].(string); ok {
		var b []byte
		fmt.Sscanf(h, "%x", &b)
		name, _ := c.Replay["form"].(string)
		for _, fm := range c9forms() {
			if fm.name == name {
				c9quoteCase(c, cuecontext.New(), fm, string(b))
			}
		}
	}
}
