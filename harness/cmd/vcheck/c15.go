package main

// C15 – module archives round-trip and can never write outside their directory.
// File-system snapshot monitor around modzip.Unzip + agreement of the three checkers.

import (
	"archive/zip"
	"bytes"
	"compress/flate"
	"crypto/sha256"
	"fmt"
	"hash/crc32"
	"io"
	"io/fs"
	"math/rand/v2"
	"os"
	"path/filepath"
	"sort"
	"strings"
	"time"
	"unicode"

	"cuelang.org/go/mod/module"
	"cuelang.org/go/mod/modzip"
)

type c15file struct {
	path string
	data []byte
	mode fs.FileMode
}
type c15io struct{}

func (c15io) Path(f c15file) string                { return f.path }
func (c15io) Lstat(f c15file) (os.FileInfo, error) { return c15fi{f}, nil }
func (c15io) Open(f c15file) (io.ReadCloser, error) {
	return io.NopCloser(bytes.NewReader(f.data)), nil
}

type c15fi struct{ f c15file }

func (i c15fi) Name() string       { return filepath.Base(i.f.path) }
func (i c15fi) Size() int64        { return int64(len(i.f.data)) }
func (i c15fi) Mode() fs.FileMode  { return i.f.mode }
func (i c15fi) ModTime() time.Time { return time.Time{} }
func (i c15fi) IsDir() bool        { return i.f.mode.IsDir() }
func (i c15fi) Sys() any           { return nil }

var c15mv = module.MustNewVersion("example.com/m@v0", "v0.0.1")
var c15modcue = []byte("module: \"example.com/m@v0\"\nlanguage: version: \"v0.8.0\"\n")

// name elements: benign and hostile
var c15good = []string{"a", "b", "B2", "x.cue", "y.cue", "pkg", "sub", "data.json", "README.md", "é", "日本", "a b", "-x", "_h", "a.b.c", "LICENSE", "lic", "deep", "v2", "k8s", "ǆ",
	// letters whose case-folded form is shorter in UTF-8 (Kelvin sign, long s, Angstrom sign, Ohm sign), alone and
	// repeated, so that they occur as directory components above short file names and next to their ASCII twins
	"\u212a", "\u212a\u212a", "\u017f\u017f\u017f", "\u212b\u2126", "\u212a8s", "k", "kk", "sss"}
var c15bad = []string{"..", ".", "", "a\\b", "c:", "*", "a?", "a<b", "con", "CON", "aux.txt", "nul", "com1", "lpt9.x", "a.", "a ", " a", "~1", "a\x00b", "a\nb", "a\tb", "\u202e", "a|b", "\"q\"", "a:b", ".git", "vendor", "cue.mod", "CUE.MOD", "Cue.Mod", "module.cue", "MODULE.CUE", "local-module.cue", ".hg_archival.txt", "ß", "SS", "ss", "K", "K", "k", "A", strings.Repeat("l", 260), "\xff", "a/../b", "İ", "i̇"}

func c15name(r *rand.Rand, hostile bool) string {
	n := 1 + r.IntN(3)
	var parts []string
	for i := 0; i < n; i++ {
		if hostile && r.IntN(3) == 0 {
			parts = append(parts, c15bad[r.IntN(len(c15bad))])
		} else {
			parts = append(parts, c15good[r.IntN(len(c15good))])
		}
	}
	s := strings.Join(parts, "/")
	if hostile {
		switch r.IntN(16) {
		case 0:
			s = "/" + s
		case 1:
			s = "../" + s
		case 2:
			s = s + "/"
		case 3:
			s = "./" + s
		case 4:
			s = s + "/../../escape"
		case 5:
			s = "cue.mod/" + s
		case 6:
			s = s + "/cue.mod/module.cue"
		case 7:
			s = "cue.mod/vendor/" + s
		case 8:
			s = "C:/" + s
		case 9:
			s = "//" + s
		}
	}
	return s
}

type c15snap map[string]string

// c15snapshot walks root with Lstat and records type, size, mode and content hash.
func c15snapshot(root string) c15snap {
	m := c15snap{}
	filepath.Walk(root, func(p string, info os.FileInfo, err error) error {
		if err != nil {
			m[p] = "ERR " + err.Error()
			return nil
		}
		rel, _ := filepath.Rel(root, p)
		desc := fmt.Sprintf("%s size=%d", info.Mode().Type(), info.Size())
		if info.Mode().IsRegular() {
			b, _ := os.ReadFile(p)
			desc += fmt.Sprintf(" sha=%x", sha256.Sum256(b))
		}
		if info.Mode()&os.ModeSymlink != 0 {
			t, _ := os.Readlink(p)
			desc += " -> " + t
		}
		m[rel] = desc
		return nil
	})
	return m
}

type c15ent struct {
	name     string
	data     []byte
	mode     fs.FileMode
	declared uint64 // declared uncompressed size
	forged   bool
}

// c15writeZip writes entries; forged entries get a raw header with a wrong declared size.
func c15writeZip(ents []c15ent, method uint16) []byte {
	var buf bytes.Buffer
	zw := zip.NewWriter(&buf)
	for _, e := range ents {
		h := &zip.FileHeader{Name: e.name, Method: method}
		h.SetMode(e.mode)
		if !e.forged {
			w, err := zw.CreateHeader(h)
			if err != nil {
				continue
			}
			w.Write(e.data)
			continue
		}
		// raw entry: real payload e.data, declared size e.declared
		var comp bytes.Buffer
		if method == zip.Deflate {
			fw, _ := flate.NewWriter(&comp, flate.DefaultCompression)
			fw.Write(e.data)
			fw.Close()
		} else {
			comp.Write(e.data)
		}
		h.CRC32 = crc32.ChecksumIEEE(e.data)
		h.CompressedSize64 = uint64(comp.Len())
		h.UncompressedSize64 = e.declared
		w, err := zw.CreateRaw(h)
		if err != nil {
			continue
		}
		w.Write(comp.Bytes())
	}
	zw.Close()
	return buf.Bytes()
}

// c15hostile runs Unzip on one archive inside a fresh sandbox root with sentinels and checks the invariants.
func c15hostile(c *Ctx, root string, ents []c15ent, method uint16, label string) (unzipOK bool) {
	c.Eval(1)
	os.MkdirAll(filepath.Join(root, "outside"), 0o755)
	os.WriteFile(filepath.Join(root, "outside", "sentinel"), []byte("s"), 0o644)
	os.WriteFile(filepath.Join(root, "target-sibling"), []byte("sibling"), 0o644) // name has the target as prefix
	os.WriteFile(filepath.Join(root, "targe"), []byte("t"), 0o644)
	os.MkdirAll(filepath.Join(root, "target2"), 0o755)
	os.WriteFile(filepath.Join(root, "escape"), []byte("e"), 0o644)
	zdata := c15writeZip(ents, method)
	zipPath := filepath.Join(root, "m.zip")
	os.WriteFile(zipPath, zdata, 0o644)
	before := c15snapshot(root)
	target := filepath.Join(root, "target")
	var names []string
	for _, e := range ents {
		names = append(names, fmt.Sprintf("%q mode=%v len=%d declared=%d", e.name, e.mode, len(e.data), e.declared))
	}
	rp := map[string]any{"entries": names, "method": method, "zip_hex": fmt.Sprintf("%x", trimBytes(zdata, 4096)), "label": label}
	key := func(kind string) string { return "C15|" + kind + "|" + monHash(strings.Join(names, ";")) }
	var err error
	func() {
		defer func() {
			if rec := recover(); rec != nil {
				err = fmt.Errorf("panic: %v", rec)
				c.Violate(key("panic"), fmt.Sprintf("Unzip panics: %v", rec), rp)
			}
		}()
		err = modzip.Unzip(target, c15mv, zipPath)
	}()
	after := c15snapshot(root)
	for k, v := range before {
		if after[k] != v && k != "." {
			c.Violate(key("outside-changed"), fmt.Sprintf("Unzip changed %q outside the target: %s → %s", k, v, after[k]), rp)
		}
	}
	declared := map[string]uint64{}
	data := map[string][]byte{}
	for _, e := range ents {
		declared[e.name] = e.declared
		data[e.name] = e.data
	}
	var extracted []string
	for k, v := range after {
		if _, ok := before[k]; ok {
			continue
		}
		if k != "target" && !strings.HasPrefix(k, "target"+string(filepath.Separator)) {
			c.Violate(key("escape"), fmt.Sprintf("Unzip created %q (%s) outside the target directory", k, v), rp)
			continue
		}
		if !strings.HasPrefix(v, "d") && !strings.HasPrefix(v, "-") {
			c.Violate(key("nonregular"), fmt.Sprintf("Unzip created non-regular entry %q: %s", k, v), rp)
		}
		if strings.HasPrefix(v, "-") {
			rel := filepath.ToSlash(strings.TrimPrefix(k, "target"+string(filepath.Separator)))
			extracted = append(extracted, rel)
			info, _ := os.Lstat(filepath.Join(root, k))
			if d, ok := declared[rel]; ok && info != nil {
				limit := d
				if err != nil {
					limit = d + 1 // the guard reads one byte beyond the declared size to detect overflow, then fails
				}
				if uint64(info.Size()) > limit {
					c.Violate(key("oversize"), fmt.Sprintf("file %q has %d bytes, declared %d (unzip err=%v)", rel, info.Size(), d, err), rp)
				}
			}
		}
	}
	sort.Strings(extracted)
	// what do the checkers say about this archive?
	_, _, cf, cerr := modzip.CheckZip(c15mv, bytes.NewReader(zdata), int64(len(zdata)))
	if err == nil {
		c.Count("unzip_ok", 1)
		if cerr != nil {
			c.Violate(key("unzip-vs-check"), fmt.Sprintf("Unzip succeeded on an archive CheckZip rejects: %v", cerr), rp)
		}
		valid := append([]string(nil), cf.Valid...)
		sort.Strings(valid)
		if strings.Join(valid, "\x00") != strings.Join(extracted, "\x00") {
			c.Violate(key("extracted-vs-valid"), fmt.Sprintf("extracted files %q differ from CheckZip's valid files %q", extracted, valid), rp)
		}
		for _, rel := range extracted {
			b, _ := os.ReadFile(filepath.Join(target, filepath.FromSlash(rel)))
			if want, ok := data[rel]; !ok || !bytes.Equal(b, want) {
				c.Violate(key("content"), fmt.Sprintf("extracted %q differs from the archive entry", rel), rp)
			}
		}
		// the directory form must accept the same files
		dcf, derr := modzip.CheckDir(target)
		var dvalid []string
		for _, p := range dcf.Valid {
			rel, _ := filepath.Rel(target, p)
			dvalid = append(dvalid, filepath.ToSlash(rel))
		}
		sort.Strings(dvalid)
		if derr != nil {
			c.Violate(key("dir-vs-zip"), fmt.Sprintf("CheckDir of the extracted tree fails: valid=%q err=%v, CheckZip valid=%q", dvalid, derr, valid), rp)
		}
		c15diff(c, "agree", dvalid, extracted, "CheckDir", "CheckZip", extracted, rp)
		return true
	}
	c.Count("unzip_rejected", 1)
	if cerr == nil && cf.Err() == nil {
		// CheckZip accepts but Unzip fails: allowed only for I/O-level reasons (size mismatch, bad data)
		c.Count("unzip_failed_after_check_ok", 1)
	}
	return false
}

func trimBytes(b []byte, n int) []byte {
	if len(b) > n {
		return b[:n]
	}
	return b
}

// c15roundTrip: acceptable file set → Create → CheckZip → Unzip → same files; CreateFromDir agrees.
func c15roundTrip(c *Ctx, r *rand.Rand, root string, big bool) {
	c.Eval(1)
	files := []c15file{{"cue.mod/module.cue", c15modcue, 0o644}}
	seen := map[string]bool{"cue.mod/module.cue": true}
	dirSpell := map[string]string{"cue.mod": "cue.mod"}
	n := 1 + r.IntN(8)
	for k := 0; k < n; k++ {
		p := c15name(r, false)
		if seen[c15fold(p)] {
			continue
		}
		// avoid file/dir collisions in the generator itself
		coll := false
		for q := range seen {
			if strings.HasPrefix(q, c15fold(p)+"/") || strings.HasPrefix(c15fold(p), q+"/") {
				coll = true
			}
		}
		// two directories that are equal under case folding but spelled differently collide as well
		for i := 0; i < len(p); i++ {
			if p[i] == '/' {
				if sp, ok := dirSpell[c15fold(p[:i])]; ok && sp != p[:i] {
					coll = true
				}
			}
		}
		if coll {
			continue
		}
		for i := 0; i < len(p); i++ {
			if p[i] == '/' {
				dirSpell[c15fold(p[:i])] = p[:i]
			}
		}
		seen[c15fold(p)] = true
		sz := r.IntN(200)
		if r.IntN(10) == 0 {
			sz = 0
		}
		d := make([]byte, sz)
		for i := range d {
			d[i] = byte(r.IntN(256))
		}
		files = append(files, c15file{p, d, 0o644})
	}
	if big {
		// sizes around the per-file limits with real bytes
		which := r.IntN(4)
		sz := modzip.MaxLICENSE - 1 + r.IntN(3)
		d := bytes.Repeat([]byte{'x'}, sz)
		switch which {
		case 0, 1:
			clash := seen["license"]
			for q := range seen {
				if strings.HasPrefix(q, "license/") {
					clash = true
				}
			}
			if !clash {
				files = append(files, c15file{"LICENSE", d, 0o644})
			}
		default:
			d2 := append(append([]byte{}, c15modcue...), bytes.Repeat([]byte{'\n'}, sz-len(c15modcue))...)
			files[0].data = d2
		}
	}
	var want []string
	for _, f := range files {
		want = append(want, f.path)
	}
	sort.Strings(want)
	rp := map[string]any{"files": want, "big": big}
	key := func(kind string) string { return "C15|rt-" + kind + "|" + monHash(strings.Join(want, ";")) }
	cf, cfErr := modzip.CheckFiles(files, c15io{})
	var buf bytes.Buffer
	err := modzip.Create(&buf, c15mv, files, c15io{})
	if big {
		tooBig := false
		for _, f := range files {
			if (f.path == "LICENSE" && len(f.data) > modzip.MaxLICENSE) || (f.path == "cue.mod/module.cue" && len(f.data) > modzip.MaxCUEMod) {
				tooBig = true
			}
		}
		if tooBig {
			if err == nil || cfErr == nil {
				c.Violate(key("limit"), fmt.Sprintf("oversized LICENSE/module.cue accepted (Create err=%v CheckFiles err=%v)", err, cfErr), rp)
			}
			c.Count("roundtrip_oversize_rejected", 1)
			return
		}
	}
	if err != nil || cfErr != nil {
		c.Violate(key("create"), fmt.Sprintf("acceptable file set rejected: Create err=%v CheckFiles err=%v", err, cfErr), rp)
		return
	}
	v := append([]string(nil), cf.Valid...)
	sort.Strings(v)
	if strings.Join(v, "\x00") != strings.Join(want, "\x00") {
		c.Violate(key("checkfiles"), fmt.Sprintf("CheckFiles valid=%q want %q", v, want), rp)
	}
	zdata := buf.Bytes()
	_, _, zcf, zerr := modzip.CheckZip(c15mv, bytes.NewReader(zdata), int64(len(zdata)))
	zv := append([]string(nil), zcf.Valid...)
	sort.Strings(zv)
	if zerr != nil || strings.Join(zv, "\x00") != strings.Join(want, "\x00") {
		c.Violate(key("checkzip"), fmt.Sprintf("archive emitted by Create fails CheckZip: err=%v valid=%q want %q", zerr, zv, want), rp)
		return
	}
	os.MkdirAll(root, 0o755)
	zipPath := filepath.Join(root, "m.zip")
	os.WriteFile(zipPath, zdata, 0o644)
	target := filepath.Join(root, "target")
	if err := modzip.Unzip(target, c15mv, zipPath); err != nil {
		c.Violate(key("unzip"), "Unzip of a created archive fails: "+err.Error(), rp)
		return
	}
	snap := c15snapshot(target)
	got := []string{}
	for k, vv := range snap {
		if strings.HasPrefix(vv, "-") {
			got = append(got, filepath.ToSlash(k))
		} else if !strings.HasPrefix(vv, "d") {
			c.Violate(key("nonregular"), fmt.Sprintf("non-regular %q: %s", k, vv), rp)
		}
	}
	sort.Strings(got)
	if strings.Join(got, "\x00") != strings.Join(want, "\x00") {
		c.Violate(key("files"), fmt.Sprintf("extracted %q want %q", got, want), rp)
		return
	}
	for _, f := range files {
		b, _ := os.ReadFile(filepath.Join(target, filepath.FromSlash(f.path)))
		if !bytes.Equal(b, f.data) {
			c.Violate(key("bytes"), fmt.Sprintf("content of %q differs after round trip", f.path), rp)
		}
	}
	// CreateFromDir on the extracted tree gives an archive with the same files and bytes
	var buf2 bytes.Buffer
	if err := modzip.CreateFromDir(&buf2, c15mv, target); err != nil {
		c.Violate(key("createfromdir"), "CreateFromDir fails on an extracted tree: "+err.Error(), rp)
		return
	}
	zr, err := zip.NewReader(bytes.NewReader(buf2.Bytes()), int64(buf2.Len()))
	if err != nil {
		c.Violate(key("createfromdir-zip"), err.Error(), rp)
		return
	}
	var names2 []string
	for _, zf := range zr.File {
		names2 = append(names2, zf.Name)
	}
	sort.Strings(names2)
	if strings.Join(names2, "\x00") != strings.Join(want, "\x00") {
		c.Violate(key("createfromdir-files"), fmt.Sprintf("CreateFromDir archive has %q want %q", names2, want), rp)
	}
	dcf, derr := modzip.CheckDir(target)
	if derr != nil || len(dcf.Valid) != len(want) {
		c.Violate(key("checkdir"), fmt.Sprintf("CheckDir err=%v valid=%d want %d", derr, len(dcf.Valid), len(want)), rp)
	}
	c.Nontrivial("rt|" + strings.Join(want, ";"))
	c.Count("roundtrip_ok", 1)
}

// c15agreement: the file-list check and the zip check classify each regular-file name alike.
func c15agreement(c *Ctx, r *rand.Rand) {
	c.Eval(1)
	files := []c15file{{"cue.mod/module.cue", c15modcue, 0o644}}
	seen := map[string]bool{"cue.mod/module.cue": true}
	for k := 0; k < 1+r.IntN(5); k++ {
		p := c15name(r, true)
		if seen[p] || strings.HasSuffix(p, "/") {
			continue
		}
		seen[p] = true
		files = append(files, c15file{p, []byte("x"), 0o644})
	}
	var ents []c15ent
	var names []string
	for _, f := range files {
		ents = append(ents, c15ent{name: f.path, data: f.data, mode: 0o644, declared: uint64(len(f.data))})
		names = append(names, f.path)
	}
	rp := map[string]any{"files": names}
	cf, _ := modzip.CheckFiles(files, c15io{})
	zdata := c15writeZip(ents, zip.Deflate)
	_, _, zcf, _ := modzip.CheckZip(c15mv, bytes.NewReader(zdata), int64(len(zdata)))
	inList := map[string]bool{}
	for _, p := range cf.Valid {
		inList[p] = true
	}
	inZip := map[string]bool{}
	for _, p := range zcf.Valid {
		inZip[p] = true
	}
	c15diff(c, "agree", cf.Valid, zcf.Valid, "CheckFiles", "CheckZip", names, rp)
	_, _ = inList, inZip
	c.Nontrivial("agree|" + strings.Join(names, ";"))
}

// c15class abstracts a name on which two checkers disagree into the rule that causes it, so that
// one documented rule = one recorded finding, and any other name is reported with its own key.
func c15class(p string, set []string) string {
	for _, q := range set {
		// a second cue.mod component below the root cue.mod makes the file-list check see a submodule
		lq := c15fold(q)
		if rest, ok := strings.CutPrefix(lq, "cue.mod/"); ok && (strings.Contains("/"+rest+"/", "/cue.mod/")) {
			return "nested-cuemod-in-set"
		}
		// a cue.mod below another directory makes that directory a submodule for the file-list check
		if i := strings.Index("/"+lq+"/", "/cue.mod/"); i > 0 {
			return "nested-cuemod-in-set"
		}
	}
	// a name that is also a directory of another entry (compared case-insensitively, as the checkers do)
	lp := c15fold(p)
	for _, q := range set {
		lq := c15fold(q)
		if q != p && (strings.HasPrefix(lq, lp+"/") || strings.HasPrefix(lp, lq+"/")) {
			return "file-is-also-directory"
		}
	}
	parts := strings.Split(p, "/")
	for _, e := range parts[:len(parts)-1] {
		switch e {
		case ".bzr", ".git", ".hg", ".svn":
			return "vcs-dir"
		}
	}
	switch {
	case strings.HasPrefix(p, "cue.mod/vendor/"):
		return "vendor"
	case p == ".hg_archival.txt":
		return "hg_archival"
	}
	return "name:" + p
}

// c15diff reports every name on which the two valid sets differ, keyed by class.
func c15diff(c *Ctx, kind string, a, b []string, an, bn string, set []string, rp map[string]any) {
	in := func(l []string, x string) bool {
		for _, y := range l {
			if x == y {
				return true
			}
		}
		return false
	}
	all := append(append([]string{}, a...), b...)
	for _, p := range all {
		if in(a, p) != in(b, p) {
			c.Violate("C15|"+kind+"|"+c15class(p, set), fmt.Sprintf("file %q: %s valid=%v, %s valid=%v (all entries %q)", p, an, in(a, p), bn, in(b, p), set), rp)
		}
	}
}

func init() {
	register("C15", "exploration", func(c *Ctx) {
		c.Rule = "round trip: PRNG file trees of acceptable names (unicode, case variants, dots, spaces) and sizes (0-200 bytes; LICENSE and cue.mod/module.cue at 16MiB-1/+0/+1 with real bytes) through Create→CheckZip→Unzip→compare→CreateFromDir→CheckDir; hostile archives: valid archives with mutated names (absolute, .., backslash, drive, reserved, control chars, case-colliding, duplicates, nested cue.mod, vendored local-module), mode bits (symlink, dir, device, pipe) and forged declared sizes (smaller/larger, Store and Deflate) extracted inside a sandbox root with sentinel files and prefix-named siblings; monitor = Lstat snapshot before/after (type,size,mode,sha256). Invariants: nothing outside target changes or appears, only dirs and regular files inside, size <= declared (declared+1 when Unzip fails), success ⇒ extracted set = CheckZip.Valid = archive entries with equal bytes and CheckDir agrees; three-way valid-bit agreement per name. Non-trivial = distinct archive/file set."
		c.Assume = []string{"process runs as root on a Linux file system: permission-based protections are not what contains the extraction", "documented difference omitted(file list/dir) vs invalid(zip) is not a disagreement; only the valid bit is compared"}
		if c.Replay != nil {
			c.Inconclusive("replay by seed: rerun ./check C15 with the recorded seed")
			return
		}
		base := filepath.Join(os.Getenv("VERIF_RUNDIR"), "c15")
		if os.Getenv("VERIF_RUNDIR") == "" {
			base, _ = os.MkdirTemp("", "c15")
		}
		os.MkdirAll(base, 0o755)
		defer os.RemoveAll(base)
		nRT := c.N(1500, 40000)
		nHost := c.N(6000, 200000)
		nBig := c.N(6, 40)
		batches := 32
		c.Par(batches, func(b int) {
			r := c.RNG(fmt.Sprintf("rt-%d", b))
			for k := 0; k < nRT/batches; k++ {
				root := filepath.Join(base, fmt.Sprintf("rt-%d-%d", b, k))
				c15roundTrip(c, r, root, false)
				os.RemoveAll(root)
			}
			for k := 0; k < nRT/batches; k++ {
				c15agreement(c, r)
			}
		})
		c.Par(nBig, func(i int) {
			r := c.RNG(fmt.Sprintf("big-%d", i))
			root := filepath.Join(base, fmt.Sprintf("big-%d", i))
			c15roundTrip(c, r, root, true)
			os.RemoveAll(root)
		})
		c.Par(batches, func(b int) {
			r := c.RNG(fmt.Sprintf("hostile-%d", b))
			for k := 0; k < nHost/batches; k++ {
				var ents []c15ent
				if r.IntN(12) != 0 {
					ents = append(ents, c15ent{name: "cue.mod/module.cue", data: c15modcue, mode: 0o644, declared: uint64(len(c15modcue))})
				}
				hostile := r.IntN(3) > 0
				nEnt := 1 + r.IntN(5)
				for j := 0; j < nEnt; j++ {
					mode := fs.FileMode(0o644)
					switch r.IntN(12) {
					case 0:
						mode |= fs.ModeSymlink
					case 1:
						mode |= fs.ModeDir
					case 2:
						mode |= fs.ModeDevice
					case 3:
						mode |= fs.ModeNamedPipe
					case 4:
						mode = 0o4755 | fs.ModeSetuid
					}
					name := c15name(r, hostile)
					d := []byte(fmt.Sprintf("data-%d-%d-%d", b, k, j))
					if mode&fs.ModeSymlink != 0 {
						d = []byte("../outside/sentinel")
					}
					e := c15ent{name: name, data: d, mode: mode, declared: uint64(len(d))}
					switch r.IntN(14) {
					case 0:
						e.forged, e.declared = true, uint64(len(d)/2)
					case 1:
						e.forged, e.declared = true, uint64(len(d)+5)
					case 2:
						e.forged, e.declared = true, 0
					case 3:
						e.forged, e.declared = true, uint64(len(d)-1)
					case 4:
						e.forged, e.declared = true, 600<<20 // beyond MaxZipFile, header only
					}
					ents = append(ents, e)
					if r.IntN(10) == 0 { // duplicate or case-colliding twin
						t := e
						if r.IntN(2) == 0 {
							t.name = strings.ToUpper(e.name)
						}
						ents = append(ents, t)
					}
				}
				method := zip.Deflate
				if r.IntN(3) == 0 {
					method = zip.Store
				}
				root := filepath.Join(base, fmt.Sprintf("h-%d-%d", b, k))
				ok := c15hostile(c, root, ents, uint16(method), "hostile")
				var names []string
				for _, e := range ents {
					names = append(names, e.name)
				}
				c.Nontrivial("h|" + strings.Join(names, ";") + fmt.Sprint(method))
				if b == 0 && k < 3 {
					c.Sample(map[string]any{"entries": names, "unzip_ok": ok})
				}
				os.RemoveAll(root)
			}
		})
	})
}

// c15fold maps every rune to the smallest member of its orbit under Unicode simple case folding: two names
// collide exactly when their folded forms are equal (strings.ToLower does not see U+017F vs s).
func c15fold(s string) string {
	var b strings.Builder
	for _, r := range s {
		m := r
		for x := unicode.SimpleFold(r); x != r; x = unicode.SimpleFold(x) {
			if x < m {
				m = x
			}
		}
		b.WriteRune(unicode.ToLower(m)) // one representative per orbit; lower case for ASCII, like strings.ToLower
	}
	return b.String()
}
