package main

// C04 – struct disjuncts whose terms differ only in constraints that are still pending when the disjunction is
// distributed (a reference to a field decided by another disjunction, a bound, a validator on a field that already
// holds a concrete scalar).  Oracle = distribution: the value of {base, D1, D2[, D3]} is compared with the union of
// the combinations {base, t1, t2[, t3]} (one term per disjunction), each of which is evaluated by the evaluator
// without any disjunction in it.  Compared: bottom-ness, acceptance of every data struct {b: i, c: j}, and the
// resolved default (unique surviving marked combination, else unique combination, else ambiguity must not export).

import (
	"encoding/json"
	"fmt"
	"math/rand/v2"
	"os"
	"sort"
	"strings"

	"cuelang.org/go/cue"
)

var c4relTerms = []string{
	"{c: _, b: c}", "{c: _, b: c + 1}", "{c: _, b: c - 1}", "{b: <3}", "{b: >1}", "{b: <4}", "{b: >0}", "{b: 1}", "{b: 2}", "{b: 3}", "{c: _, b: c}", "{c: _, b: c + 1}",
	"{c: 1}", "{c: 2}", "{c: 3}", "{c: <3}", "{c: >1}", "{b: c, c: 1}", "{b: 2, c: <3}", "{c: _, b: <(c + 2)}", "{c: _, b: >=c}",
	`{s: =~"^b"}`, `{s: =~"b$"}`, `{s: "bb"}`, `{s: "ab"}`, `{s: !="ab"}`, "{b: int}", "{c: int}", "{}",
}
var c4relBase = []string{"b: 2", "b: int", "c: int", "c: int", "b: int", "c: 1", "c: 2", "b: 3", `s: "bb"`, "s: string", "s: string", "b: >0", "c: <5"}

type c4relCase struct {
	base  []string
	disjs [][]string // terms
	marks [][]bool
	form  int
}

func (k c4relCase) disj(i int) string {
	var parts []string
	for j, t := range k.disjs[i] {
		if k.marks[i][j] {
			parts = append(parts, "*"+t)
		} else {
			parts = append(parts, t)
		}
	}
	return strings.Join(parts, " | ")
}

func (k c4relCase) expr() string {
	base := strings.Join(k.base, ", ")
	switch k.form {
	case 0: // embedded disjunctions in one struct
		parts := append([]string{}, k.base...)
		for i := range k.disjs {
			parts = append(parts, k.disj(i))
		}
		return "{" + strings.Join(parts, ", ") + "}"
	case 1: // conjunction of parenthesised disjunctions
		var parts []string
		for i := range k.disjs {
			parts = append(parts, "("+k.disj(i)+")")
		}
		return strings.Join(parts, " & ") + " & {" + base + "}"
	default: // base first
		var parts []string
		for i := range k.disjs {
			parts = append(parts, "("+k.disj(i)+")")
		}
		return "{" + base + "} & " + strings.Join(parts, " & ")
	}
}

func c4relGen(r *rand.Rand) c4relCase {
	var k c4relCase
	k.form = r.IntN(3)
	used := map[string]bool{}
	for i := 0; i < r.IntN(3); i++ {
		b := c4relBase[r.IntN(len(c4relBase))]
		f := b[:1]
		if !used[f] {
			used[f] = true
			k.base = append(k.base, b)
		}
	}
	// most cases pin b by the base and c by a disjunction of atoms, so that the surviving combinations are
	// concrete and the default is decided
	pinned := r.IntN(10) < 6
	if pinned {
		k.base = []string{fmt.Sprintf("b: %d", 1+r.IntN(3)), "c: int"}
		if r.IntN(3) == 0 {
			k.base = append(k.base, `s: "bb"`)
		}
	}
	nd := 2
	if r.IntN(4) == 0 {
		nd = 3
	}
	for i := 0; i < nd; i++ {
		n := 2 + r.IntN(2)
		var ts []string
		var ms []bool
		anyMark := r.IntN(2) == 0
		for j := 0; j < n; j++ {
			if pinned && i == nd-1 {
				ts = append(ts, fmt.Sprintf("{c: %d}", 1+r.IntN(3)))
				ms = append(ms, anyMark && r.IntN(2) == 0)
				continue
			}
			ts = append(ts, c4relTerms[r.IntN(len(c4relTerms))])
			ms = append(ms, anyMark && r.IntN(2) == 0)
		}
		k.disjs = append(k.disjs, ts)
		k.marks = append(k.marks, ms)
	}
	return k
}

// c4relCheck evaluates the case and its combinations in one compilation.
func c4relCheck(ctx *cue.Context, k c4relCase) (out []c4result, stats map[string]bool) {
	stats = map[string]bool{}
	// combinations
	type combo struct {
		pick []int
		def  bool
	}
	var combos []combo
	var rec func(i int, pick []int)
	rec = func(i int, pick []int) {
		if i == len(k.disjs) {
			def := true
			for d, p := range pick {
				any := false
				for _, m := range k.marks[d] {
					any = any || m
				}
				if any && !k.marks[d][p] {
					def = false
				}
			}
			combos = append(combos, combo{append([]int{}, pick...), def})
			return
		}
		for j := range k.disjs[i] {
			rec(i+1, append(pick, j))
		}
	}
	rec(0, nil)
	type atom struct{ src string }
	var atoms []string
	for i := 1; i <= 3; i++ {
		for j := 1; j <= 3; j++ {
			atoms = append(atoms, fmt.Sprintf("{b: %d, c: %d}", i, j))
		}
	}
	atoms = append(atoms, `{s: "ab"}`, `{s: "bb"}`, `{s: "ba"}`)
	var sb strings.Builder
	e := k.expr()
	fmt.Fprintf(&sb, "x: %s\n", e)
	for ai, a := range atoms {
		fmt.Fprintf(&sb, "xp%d: x & %s\n", ai, a)
	}
	for ci, cb := range combos {
		parts := append([]string{}, k.base...)
		for d, p := range cb.pick {
			parts = append(parts, k.disjs[d][p])
		}
		fmt.Fprintf(&sb, "k%d: {%s}\n", ci, strings.Join(parts, ", "))
		for ai, a := range atoms {
			fmt.Fprintf(&sb, "k%dp%d: k%d & %s\n", ci, ai, ci, a)
		}
	}
	root := ctx.CompileString(sb.String())
	look := func(name string) cue.Value { return root.LookupPath(cue.MakePath(cue.Str(name))) }
	// three states: bottom (an error that is not an incomplete one), concrete, or neither (open fields, bounds on
	// non-concrete operands, incomplete expressions): only the first two decide anything
	const (
		sBottom = iota
		sConcrete
		sOpen
	)
	state := func(v cue.Value) int {
		if v.Validate(cue.Concrete(true)) == nil {
			return sConcrete
		}
		if err := v.Validate(); err != nil {
			return sBottom
		}
		return sOpen
	}
	x := look("x")
	var alive, aliveDef []int
	anyConcrete := false
	termAlive := map[[2]int]bool{}
	for ci, cb := range combos {
		st := state(look(fmt.Sprintf("k%d", ci)))
		if st != sBottom {
			alive = append(alive, ci)
			for d, p := range cb.pick {
				termAlive[[2]int{d, p}] = true
			}
			if cb.def {
				aliveDef = append(aliveDef, ci)
			}
		}
		anyConcrete = anyConcrete || st == sConcrete
	}
	// recorded finding (eliminated-mark): a marked term that survives in no combination changes which of the
	// remaining terms the evaluator treats as defaults
	for d := range k.disjs {
		for p, m := range k.marks[d] {
			if m && !termAlive[[2]int{d, p}] {
				stats["eliminated-mark"] = true
			}
		}
	}
	xs := state(x)
	if len(alive) == 0 {
		if os.Getenv("VERIF_C04_DEBUG") != "" {
			fmt.Fprintf(os.Stderr, "BOTTOM %s | k0: %v\n", e, look("k0").Validate())
		}
		stats["bottom"] = true
		if xs != sBottom {
			out = append(out, c4result{"distribution-bottom-impl-ok", fmt.Sprint(x)})
		}
		return out, stats
	}
	if xs == sBottom {
		if anyConcrete {
			out = append(out, c4result{"impl-bottom-distribution-ok", fmt.Sprintf("%v; surviving combinations: %v", x.Validate(), alive)})
		} else {
			stats["not-judged:only-open-combinations-survive"] = true
		}
		return out, stats
	}
	if len(alive) > 1 {
		stats["crossproduct"] = true
	}
	// acceptance of every data struct
	for ai, a := range atoms {
		anyC, allB := false, true
		for _, ci := range alive {
			switch state(look(fmt.Sprintf("k%dp%d", ci, ai))) {
			case sConcrete:
				anyC, allB = true, false
			case sOpen:
				allB = false
			}
		}
		got := state(look(fmt.Sprintf("xp%d", ai)))
		switch {
		case anyC && got == sBottom:
			out = append(out, c4result{fmt.Sprintf("accepts %s: a combination accepts it with a concrete result, the evaluator rejects it", a), ""})
		case allB && got != sBottom:
			out = append(out, c4result{fmt.Sprintf("accepts %s: every combination rejects it, the evaluator accepts it", a), ""})
		case !anyC && !allB:
			stats["acceptance-not-judged:open-combination"] = true
		}
	}
	// default
	D := aliveDef
	if len(D) == 0 {
		D = alive
		stats["nodefault"] = true
	} else {
		stats["hasdefault"] = true
	}
	distinct := map[string]bool{}
	concreteAll := true
	canon := func(b []byte) string {
		var m any
		if json.Unmarshal(b, &m) != nil {
			return string(b)
		}
		out, _ := json.Marshal(m) // map keys sorted
		return string(out)
	}
	for _, ci := range D {
		v := look(fmt.Sprintf("k%d", ci))
		if v.Validate(cue.Concrete(true)) != nil {
			concreteAll = false
		}
		b, err := v.MarshalJSON()
		if err != nil {
			concreteAll = false
			distinct["non-concrete:"+fmt.Sprint(v)] = true
		} else {
			distinct[canon(b)] = true
		}
	}
	var keys []string
	for s := range distinct {
		keys = append(keys, s)
	}
	sort.Strings(keys)
	gotJSON, gotErr := x.MarshalJSON()
	if gotErr == nil {
		gotJSON = []byte(canon(gotJSON))
	}
	switch {
	case !concreteAll:
		// a surviving combination that is not concrete (an open field, a bound on a non-concrete operand): whether
		// the evaluator may drop it when a concrete value is asked for is not settled by the rules; not judged
		stats["default-not-judged:non-concrete-combination"] = true
	case len(distinct) == 1 && concreteAll:
		stats["unique"] = true
		if gotErr != nil {
			out = append(out, c4result{"default-value", fmt.Sprintf("the distribution resolves to the unique %s, the evaluator does not export: %v", keys[0], gotErr)})
		} else if string(gotJSON) != keys[0] {
			out = append(out, c4result{"default-value", fmt.Sprintf("the distribution resolves to %s, the evaluator to %s", keys[0], gotJSON)})
		}
	case len(distinct) > 1:
		stats["ambiguous"] = true
		if gotErr == nil {
			out = append(out, c4result{"ambiguous-but-exported", fmt.Sprintf("distribution: %v; the evaluator exports %s", keys, gotJSON)})
		}
	default:
		stats["nonconcrete"] = true
		if gotErr == nil {
			out = append(out, c4result{"non-concrete-but-exported", fmt.Sprintf("distribution: %v; the evaluator exports %s", keys, gotJSON)})
		}
	}
	return out, stats
}
