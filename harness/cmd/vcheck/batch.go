package main

// Process isolation for monitors whose code under test can die with a fatal
// error (stack overflow, runaway allocation) or hang: cases are executed by
// child processes ("vcheck -worker batch") that log BEGIN before and END
// after each case; the parent restarts a worker after a death or a timeout
// and knows exactly which case was in flight.

import (
	"bufio"
	"encoding/json"
	"fmt"
	"io"
	"os"
	"os/exec"
	"path/filepath"
	"regexp"
	"runtime/debug"
	"sort"
	"strings"
	"sync"
	"syscall"
	"time"
)

type bcase struct {
	ID    string            `json:"id"`
	Op    string            `json:"op"`
	Src   string            `json:"src,omitempty"`
	Files []bfile           `json:"files,omitempty"`
	Args  map[string]string `json:"args,omitempty"`
}

type bfile struct {
	Name string `json:"name"`
	Src  string `json:"src"`
}

type bres struct {
	ID     string         `json:"id"`
	Status string         `json:"status"` // ok | panic | crash | timeout
	Out    map[string]any `json:"out,omitempty"`
	Crash  string         `json:"crash,omitempty"` // message and frames of a panic / fatal error
	Site   string         `json:"site,omitempty"`  // innermost cuelang.org/go frames (call-site signature)
}

// batchOps are the operations a worker can run on a case.
var batchOps = map[string]func(cs bcase) map[string]any{}

// crashSite extracts the call-site signature: the innermost three distinct cuelang.org/go frames
// (outside the harness) of a crash dump, line numbers stripped.
func crashSite(dump string) string {
	if strings.Contains(dump, "stack overflow") || strings.Contains(dump, "goroutine stack exceeds") {
		return "recursion{" + recursionCycle(dump) + "}"
	}
	var fr []string
	for _, line := range strings.Split(dump, "\n") {
		line = strings.TrimSpace(line)
		if !strings.HasPrefix(line, "cuelang.org/go/") || strings.Contains(line, "cuelang.org/go/verifh/") {
			continue
		}
		// "pkg.(*T).Method(0x1, {...})": the argument list starts at the last "("
		i := strings.LastIndexByte(line, '(')
		if i <= 0 {
			continue
		}
		f := line[:i]
		// strip generic instantiation and closure suffixes
		f = regexp.MustCompile(`\[\.\.\.\]|\.func\d+(\.\d+)*|\.gowrap\d+`).ReplaceAllString(f, "")
		if len(fr) > 0 && fr[len(fr)-1] == f {
			continue
		}
		fr = append(fr, f)
		if len(fr) == 3 {
			break
		}
	}
	return strings.Join(fr, " < ")
}

func init() {
	workerModes["batch"] = func(args []string) int {
		in, err := os.Open(args[0])
		if err != nil {
			fmt.Fprintln(os.Stderr, err)
			return 3
		}
		defer in.Close()
		out := bufio.NewWriter(os.Stdout)
		emit := func(v any) {
			b, _ := json.Marshal(v)
			out.Write(b)
			out.WriteByte('\n')
			out.Flush()
		}
		sc := bufio.NewScanner(in)
		sc.Buffer(make([]byte, 1<<20), 1<<27)
		for sc.Scan() {
			var cs bcase
			if json.Unmarshal(sc.Bytes(), &cs) != nil {
				continue
			}
			emit(map[string]any{"begin": cs.ID})
			res := bres{ID: cs.ID, Status: "ok"}
			func() {
				defer func() {
					if r := recover(); r != nil {
						st := string(debug.Stack())
						res.Status = "panic"
						res.Crash = fmt.Sprintf("panic: %v\n%s", r, trunc9(st, 6000))
						res.Site = crashSite(st)
					}
				}()
				f, ok := batchOps[cs.Op]
				if !ok {
					res.Status = "panic"
					res.Crash = "unknown op " + cs.Op
					return
				}
				res.Out = f(cs)
			}()
			emit(res)
		}
		return 0
	}
}

// RunBatch executes cases in child processes (c.Workers in parallel) and returns the results by id.
// perCase is the watchdog for a single case.
func (c *Ctx) RunBatch(cases []bcase, perCase time.Duration) map[string]*bres {
	results := make(map[string]*bres, len(cases))
	var mu sync.Mutex
	w := c.Workers
	if w > len(cases) {
		w = len(cases)
	}
	if w == 0 {
		return results
	}
	dir := os.Getenv("VERIF_RUNDIR")
	if dir == "" {
		dir = os.TempDir()
	}
	chunks := make([][]bcase, w)
	for i, cs := range cases {
		chunks[i%w] = append(chunks[i%w], cs)
	}
	var wg sync.WaitGroup
	for k := 0; k < w; k++ {
		wg.Add(1)
		go func(k int, todo []bcase) {
			defer wg.Done()
			gen := 0
			for len(todo) > 0 {
				gen++
				done, crashedID, status, dump, site := c.runWorkerOnce(dir, fmt.Sprintf("%d-%d", k, gen), todo, perCase)
				mu.Lock()
				for id, r := range done {
					results[id] = r
				}
				mu.Unlock()
				// drop finished cases; the case in flight when the worker died is decided by its fate
				var rest []bcase
				skipping := true
				for _, cs := range todo {
					if _, ok := done[cs.ID]; ok {
						continue
					}
					if skipping && cs.ID == crashedID {
						mu.Lock()
						results[cs.ID] = &bres{ID: cs.ID, Status: status, Crash: dump, Site: site}
						mu.Unlock()
						skipping = false
						continue
					}
					rest = append(rest, cs)
				}
				if crashedID == "" && len(rest) == len(todo) {
					// the worker made no progress at all (could not start): give up on this chunk
					for _, cs := range rest {
						mu.Lock()
						results[cs.ID] = &bres{ID: cs.ID, Status: "crash", Crash: "worker did not start: " + dump}
						mu.Unlock()
					}
					return
				}
				todo = rest
			}
		}(k, chunks[k])
	}
	wg.Wait()
	return results
}

func (c *Ctx) runWorkerOnce(dir, tag string, todo []bcase, perCase time.Duration) (done map[string]*bres, inflight, status, dump, site string) {
	done = map[string]*bres{}
	inPath := filepath.Join(dir, "batch-in-"+tag+".jsonl")
	errPath := filepath.Join(dir, "batch-err-"+tag+".txt")
	f, err := os.Create(inPath)
	if err != nil {
		return done, "", "crash", err.Error(), ""
	}
	bw := bufio.NewWriter(f)
	for _, cs := range todo {
		b, _ := json.Marshal(cs)
		bw.Write(b)
		bw.WriteByte('\n')
	}
	bw.Flush()
	f.Close()
	defer os.Remove(inPath)
	defer os.Remove(errPath)
	errF, _ := os.Create(errPath)
	cmd := exec.Command(c.Self, "-worker", "batch", inPath)
	if c.ASLimitKB > 0 {
		// address-space envelope: a runaway allocation ends the worker with "out of memory"
		cmd = exec.Command("sh", "-c", fmt.Sprintf("ulimit -v %d; exec \"$0\" \"$@\"", c.ASLimitKB), c.Self, "-worker", "batch", inPath)
	}
	cmd.Stderr = errF
	cmd.Env = append(os.Environ(), "GOTRACEBACK=all", "GOMAXPROCS=2")
	cmd.Env = append(cmd.Env, c.BatchEnv...)
	cmd.SysProcAttr = &syscall.SysProcAttr{Setpgid: true}
	stdout, _ := cmd.StdoutPipe()
	if err := cmd.Start(); err != nil {
		errF.Close()
		return done, "", "crash", err.Error(), ""
	}
	lines := make(chan string, 16)
	go func() {
		rd := bufio.NewReaderSize(stdout, 1<<20)
		for {
			line, err := rd.ReadString('\n')
			if len(line) > 0 {
				lines <- line
			}
			if err != nil {
				close(lines)
				return
			}
		}
	}()
	timer := time.NewTimer(perCase + 20*time.Second) // start-up allowance
	defer timer.Stop()
	timedOut := false
loop:
	for {
		select {
		case line, ok := <-lines:
			if !ok {
				break loop
			}
			var m map[string]json.RawMessage
			if json.Unmarshal([]byte(line), &m) != nil {
				continue
			}
			if b, ok := m["begin"]; ok {
				json.Unmarshal(b, &inflight)
				timer.Reset(perCase)
				continue
			}
			var r bres
			if json.Unmarshal([]byte(line), &r) == nil && r.ID != "" {
				done[r.ID] = &r
				if r.ID == inflight {
					inflight = ""
				}
				timer.Reset(perCase)
			}
		case <-timer.C:
			timedOut = true
			syscall.Kill(-cmd.Process.Pid, syscall.SIGQUIT) // goroutine dump into the stderr file
			time.Sleep(1500 * time.Millisecond)
			syscall.Kill(-cmd.Process.Pid, syscall.SIGKILL)
			break loop
		}
	}
	go io.Copy(io.Discard, stdout)
	cmd.Wait()
	errF.Close()
	eb, _ := os.ReadFile(errPath)
	dump = string(eb)
	if i := strings.Index(dump, "fatal error:"); i >= 0 {
		site = crashSite(dump[i:])
	} else {
		site = crashSite(dump)
	}
	if timedOut {
		return done, inflight, "timeout", excerptCrash(dump), site
	}
	if inflight != "" {
		return done, inflight, "crash", excerptCrash(dump), site
	}
	return done, "", "", excerptCrash(dump), site
}

// excerptCrash keeps the message, the innermost frames of the crashing goroutine and, for deep
// recursions, the outermost frames after Go's "frames elided" marker.
func excerptCrash(t string) string {
	if i := strings.Index(t, "fatal error:"); i >= 0 {
		t = t[i:]
	} else if i := strings.Index(t, "panic:"); i >= 0 {
		t = t[i:]
	} else if i := strings.Index(t, "SIGQUIT"); i >= 0 {
		t = t[i:]
	}
	g := strings.Index(t, "\ngoroutine ")
	first := t
	if g >= 0 {
		if end := strings.Index(t[g+20:], "\n\ngoroutine "); end >= 0 {
			first = t[:g+20+end]
		}
	}
	if e := strings.Index(first, "frames elided"); e >= 0 {
		lo := e - 100
		if lo < 0 {
			lo = 0
		}
		tail := first
		if len(tail) > 4000 {
			tail = tail[len(tail)-4000:]
		}
		return trunc9(first, 2500) + "\n[...]\n" + first[lo:min(len(first), e+200)] + "\n[...]\n" + tail
	}
	return trunc9(first, 8000)
}

// recursionCycle is the signature of a runaway recursion: the sorted set of distinct cuelang.org/go
// functions among the innermost 40 frames (the innermost frame itself is an arbitrary point of the
// cycle, the set of functions on the cycle is stable).
func recursionCycle(dump string) string {
	set := map[string]bool{}
	n := 0
	for _, line := range strings.Split(dump, "\n") {
		line = strings.TrimSpace(line)
		if !strings.HasPrefix(line, "cuelang.org/go/") || strings.Contains(line, "cuelang.org/go/verifh/") {
			continue
		}
		i := strings.LastIndexByte(line, '(')
		if i <= 0 {
			continue
		}
		f := line[:i]
		f = regexp.MustCompile(`\[\.\.\.\]|\.func\d+(\.\d+)*|\.gowrap\d+`).ReplaceAllString(f, "")
		f = strings.TrimPrefix(f, "cuelang.org/go/internal/core/")
		set[f] = true
		n++
		if n >= 40 {
			break
		}
	}
	var names []string
	for f := range set {
		names = append(names, f)
	}
	sort.Strings(names)
	return strings.Join(names, ",")
}
