package main

// C13 – JSON Schema translation preserves validity.
//
// Oracle: python-jsonschema (Draft 2020-12) in a pool of line-protocol child processes
// (/verif/oracles/jsonschema_oracle.py, python3-vt).  The CUE side follows the repository's own
// external_test.go procedure: json.Extract -> jsonschema.Extract(StrictFeatures) -> format(Simplify) ->
// compile -> instance.Unify(schema).Validate(Concrete(true)); reverse: jsonschema.Generate of that value.

import (
	"bufio"
	"encoding/json"
	"fmt"
	"io"
	"math/rand/v2"
	"os"
	"os/exec"
	"path/filepath"
	"sort"
	"strings"
	"sync"

	"cuelang.org/go/cue"
	"cuelang.org/go/cue/cuecontext"
	"cuelang.org/go/cue/format"
	cuejson "cuelang.org/go/encoding/json"
	"cuelang.org/go/encoding/jsonschema"
	"cuelang.org/go/verifh/mon"
)

type c13M = map[string]any

// ---------- oracle pool ----------
type c13proc struct {
	cmd *exec.Cmd
	in  io.WriteCloser
	out *bufio.Reader
}

type c13pool struct {
	ch       chan *c13proc
	restarts int
	mu       sync.Mutex
}

func c13start() (*c13proc, error) {
	cmd := exec.Command("python3-vt", filepath.Join(mon.Root(), "oracles", "jsonschema_oracle.py"))
	in, _ := cmd.StdinPipe()
	out, _ := cmd.StdoutPipe()
	cmd.Stderr = io.Discard
	if err := cmd.Start(); err != nil {
		return nil, err
	}
	return &c13proc{cmd, in, bufio.NewReaderSize(out, 1<<20)}, nil
}

func c13newPool(n int) (*c13pool, error) {
	p := &c13pool{ch: make(chan *c13proc, n)}
	for i := 0; i < n; i++ {
		pr, err := c13start()
		if err != nil {
			return nil, err
		}
		p.ch <- pr
	}
	return p, nil
}

func (p *c13pool) close() {
	for {
		select {
		case pr := <-p.ch:
			pr.in.Close()
			pr.cmd.Wait()
		default:
			return
		}
	}
}

// ask returns the oracle's verdict per instance (nil = the oracle refuses the schema or raised).
func (p *c13pool) ask(schema any, insts []string) (out []*bool, err error) {
	pr := <-p.ch
	defer func() {
		if err != nil {
			// the oracle process died on this input (e.g. recursion limit): replace it, the caller skips the case
			pr.in.Close()
			pr.cmd.Process.Kill()
			pr.cmd.Wait()
			if np, serr := c13start(); serr == nil {
				pr = np
			}
			p.mu.Lock()
			p.restarts++
			p.mu.Unlock()
		}
		p.ch <- pr
	}()
	raw := make([]json.RawMessage, len(insts))
	for i, s := range insts {
		raw[i] = json.RawMessage(s)
	}
	line, err := json.Marshal(c13M{"schema": schema, "instances": raw})
	if err != nil {
		return nil, err
	}
	if _, err := pr.in.Write(append(line, '\n')); err != nil {
		return nil, err
	}
	resp, err := pr.out.ReadBytes('\n')
	if err != nil {
		return nil, err
	}
	if err := json.Unmarshal(resp, &out); err != nil {
		return nil, err
	}
	if len(out) != len(insts) {
		return nil, fmt.Errorf("oracle answered %d verdicts for %d instances", len(out), len(insts))
	}
	return out, nil
}

// ---------- generators ----------
var c13props = []string{"a", "b", "c"}
var c13patterns = []string{"^a", "b$", "^[a-c]+$"}
var c13strings = []string{"a", "b", "ab", "", "abc", "c", "ax", "zb"}

type c13gen struct {
	r     *rand.Rand
	atoms []string // raw JSON constants seen in the schema (instance bias)
	// restricted: the fragment in which no disagreement is recorded (no if/then/else, not, false, propertyNames,
	// prefixItems, $defs, composite enum/const values, required names outside properties)
	restricted bool
}

func (g *c13gen) scalar() any {
	switch g.r.IntN(6) {
	case 0:
		return nil
	case 1:
		return g.r.IntN(2) == 0
	case 2, 3:
		return g.r.IntN(6)
	case 4:
		return c13strings[g.r.IntN(len(c13strings))]
	default:
		return float64(g.r.IntN(6)) + 0.5
	}
}

func (g *c13gen) value(depth int) any {
	switch g.r.IntN(8) {
	case 0, 1:
		if depth == 0 {
			return 1
		}
		o := c13M{}
		for _, p := range append(append([]string{}, c13props...), "ax") {
			if g.r.IntN(3) == 0 {
				o[p] = g.value(depth - 1)
			}
		}
		return o
	case 2:
		if depth == 0 {
			return "a"
		}
		l := []any{}
		for i := 0; i < g.r.IntN(4); i++ {
			l = append(l, g.value(depth-1))
		}
		return l
	default:
		return g.scalar()
	}
}

func (g *c13gen) note(v any) any {
	b, _ := json.Marshal(v)
	g.atoms = append(g.atoms, string(b))
	return v
}

func (g *c13gen) leafSchema() any {
	r := g.r
	switch r.IntN(11) {
	case 0:
		return c13M{"type": []string{"string", "integer", "number", "boolean", "null", "object", "array"}[r.IntN(7)]}
	case 1:
		if g.restricted {
			return c13M{"const": g.note(g.scalar())}
		}
		return c13M{"const": g.note(g.value(1))}
	case 2:
		if g.restricted {
			return c13M{"enum": []any{g.note(g.scalar()), g.note(g.scalar())}}
		}
		return c13M{"enum": []any{g.note(g.value(1)), g.note(g.value(1))}}
	case 3:
		lo := r.IntN(4)
		g.note(lo)
		g.note(lo + 2)
		return c13M{"type": "integer", "minimum": lo, "maximum": lo + r.IntN(4)}
	case 4:
		return c13M{"type": "number", []string{"exclusiveMinimum", "exclusiveMaximum", "minimum", "maximum"}[r.IntN(4)]: g.note(float64(r.IntN(4)) + []float64{0, 0.5}[r.IntN(2)])}
	case 5:
		return c13M{"type": "number", "multipleOf": []any{2, 3, 0.5}[r.IntN(3)]}
	case 6:
		return c13M{"type": "string", "minLength": r.IntN(2), "maxLength": 1 + r.IntN(2)}
	case 7:
		return c13M{"type": "string", "pattern": c13patterns[r.IntN(3)]}
	case 8:
		if g.restricted {
			return true
		}
		return []any{true, true, false}[r.IntN(3)]
	case 9:
		return c13M{"type": []any{"string", "integer"}}
	default:
		return c13M{"type": []any{"object", "null"}}
	}
}

func (g *c13gen) schema(depth int) any {
	r := g.r
	if depth == 0 || r.IntN(4) == 0 {
		return g.leafSchema()
	}
	kind := r.IntN(12)
	if g.restricted && (kind == 8 || kind == 9 || kind == 10) {
		kind = r.IntN(8)
	}
	switch kind {
	case 0, 1, 2:
		s := c13M{}
		if r.IntN(4) != 0 {
			s["type"] = "object"
		}
		if r.IntN(4) != 0 {
			ps := c13M{}
			for _, p := range c13props {
				if r.IntN(2) == 0 {
					ps[p] = g.schema(depth - 1)
				}
			}
			s["properties"] = ps
		}
		if r.IntN(2) == 0 {
			req := []string{c13props[r.IntN(3)]}
			if r.IntN(3) == 0 {
				req = append(req, "ax")
			}
			if g.restricted {
				req = nil
				if ps, ok := s["properties"].(c13M); ok {
					for k := range ps {
						req = append(req, k)
					}
					sort.Strings(req)
					if len(req) > 1 {
						req = req[:1+r.IntN(len(req))]
					}
				}
			}
			if len(req) > 0 {
				s["required"] = req
			}
		}
		switch r.IntN(4) {
		case 0:
			s["additionalProperties"] = false
		case 1:
			s["additionalProperties"] = g.schema(depth - 1)
		}
		if r.IntN(4) == 0 {
			s["patternProperties"] = c13M{[]string{"^a", "x$"}[r.IntN(2)]: g.schema(depth - 1)}
		}
		if r.IntN(6) == 0 && !g.restricted {
			s["propertyNames"] = []any{c13M{"pattern": "^[ab]"}, c13M{"maxLength": 1}, c13M{"enum": []any{"a", "b"}}}[r.IntN(3)]
		}
		if r.IntN(5) == 0 {
			s["minProperties"] = 1 + r.IntN(2)
		}
		if r.IntN(5) == 0 {
			s["maxProperties"] = 1 + r.IntN(2)
		}
		return s
	case 3, 4:
		s := c13M{}
		if r.IntN(4) != 0 {
			s["type"] = "array"
		}
		if r.IntN(4) != 0 {
			s["items"] = g.schema(depth - 1)
		}
		if r.IntN(5) == 0 && !g.restricted {
			s["prefixItems"] = []any{g.schema(depth - 1)}
		}
		if r.IntN(2) == 0 {
			s["minItems"] = r.IntN(3)
		}
		if r.IntN(2) == 0 {
			s["maxItems"] = 1 + r.IntN(3)
		}
		if r.IntN(4) == 0 {
			s["uniqueItems"] = true
		}
		if r.IntN(4) == 0 {
			s["contains"] = g.schema(depth - 1)
		}
		return s
	case 5:
		return c13M{"allOf": []any{g.schema(depth - 1), g.schema(depth - 1)}}
	case 6:
		return c13M{"anyOf": []any{g.schema(depth - 1), g.schema(depth - 1)}}
	case 7:
		return c13M{"oneOf": []any{g.schema(depth - 1), g.schema(depth - 1)}}
	case 8:
		return c13M{"not": g.schema(depth - 1)}
	case 9:
		s := c13M{"if": g.schema(depth - 1)}
		if r.IntN(4) != 0 {
			s["then"] = g.schema(depth - 1)
		}
		if r.IntN(3) != 0 {
			s["else"] = g.schema(depth - 1)
		}
		return s
	case 10:
		return c13M{"$defs": c13M{"d": g.schema(depth - 1)}, "allOf": []any{c13M{"$ref": "#/$defs/d"}, g.schema(depth - 1)}}
	default:
		s, ok := g.schema(depth - 1).(c13M)
		if !ok {
			return g.leafSchema()
		}
		// a second keyword group next to the first (keyword interactions at one level)
		if t, ok := g.schema(depth - 1).(c13M); ok {
			for k, v := range t {
				if _, dup := s[k]; !dup && k != "$defs" {
					s[k] = v
				}
			}
		}
		return s
	}
}

// instance builds an instance that follows the schema (then perturbs it), so that both verdicts occur.
func (g *c13gen) instance(s any, root any, depth int) any {
	r := g.r
	m, ok := s.(c13M)
	if !ok || depth < 0 || r.IntN(6) == 0 {
		return g.value(2)
	}
	if ref, ok := m["$ref"].(string); ok && ref == "#/$defs/d" {
		if rm, ok := root.(c13M); ok {
			if defs, ok := rm["$defs"].(c13M); ok {
				return g.instance(defs["d"], root, depth-1)
			}
		}
	}
	if c, ok := m["const"]; ok {
		return c
	}
	if e, ok := m["enum"].([]any); ok {
		return e[r.IntN(len(e))]
	}
	for _, k := range []string{"allOf", "anyOf", "oneOf"} {
		if l, ok := m[k].([]any); ok && r.IntN(2) == 0 {
			return g.instance(l[r.IntN(len(l))], root, depth-1)
		}
	}
	if t, ok := m["then"]; ok && r.IntN(2) == 0 {
		return g.instance(t, root, depth-1)
	}
	if t, ok := m["if"]; ok && r.IntN(2) == 0 {
		return g.instance(t, root, depth-1)
	}
	typ, _ := m["type"].(string)
	if tl, ok := m["type"].([]any); ok {
		typ, _ = tl[r.IntN(len(tl))].(string)
	}
	_, hasProps := m["properties"]
	_, hasItems := m["items"]
	switch {
	case typ == "object" || typ == "" && (hasProps || m["required"] != nil || m["additionalProperties"] != nil || m["patternProperties"] != nil || m["propertyNames"] != nil || m["minProperties"] != nil):
		o := c13M{}
		if ps, ok := m["properties"].(c13M); ok {
			// sorted: the PRNG must be consumed in the same order in every run (the frozen stream is reproducible)
			pk := make([]string, 0, len(ps))
			for k := range ps {
				pk = append(pk, k)
			}
			sort.Strings(pk)
			for _, k := range pk {
				if r.IntN(3) != 0 {
					o[k] = g.instance(ps[k], root, depth-1)
				}
			}
		}
		if req, ok := m["required"].([]string); ok {
			for _, k := range req {
				if _, ok := o[k]; !ok && r.IntN(4) != 0 {
					o[k] = g.value(1)
				}
			}
		}
		for _, k := range []string{"ax", "c", "zz", "bx"} {
			if r.IntN(5) == 0 {
				if ap, ok := m["additionalProperties"]; ok && r.IntN(2) == 0 {
					o[k] = g.instance(ap, root, depth-1)
				} else {
					o[k] = g.value(1)
				}
			}
		}
		return o
	case typ == "array" || typ == "" && (hasItems || m["minItems"] != nil || m["contains"] != nil || m["uniqueItems"] != nil):
		l := []any{}
		n := r.IntN(4)
		for i := 0; i < n; i++ {
			switch {
			case m["items"] != nil && r.IntN(4) != 0:
				l = append(l, g.instance(m["items"], root, depth-1))
			case m["contains"] != nil && r.IntN(2) == 0:
				l = append(l, g.instance(m["contains"], root, depth-1))
			default:
				l = append(l, g.value(1))
			}
		}
		if len(l) > 0 && r.IntN(4) == 0 {
			l = append(l, l[0]) // duplicates for uniqueItems
		}
		return l
	case typ == "integer":
		if v, ok := m["minimum"].(int); ok {
			return v + r.IntN(4) - 1
		}
		return r.IntN(6)
	case typ == "number":
		for _, k := range []string{"minimum", "maximum", "exclusiveMinimum", "exclusiveMaximum"} {
			if v, ok := m[k].(float64); ok {
				return v + []float64{-0.5, 0, 0.5}[r.IntN(3)]
			}
		}
		return []any{1, 2, 3, 4, 6, 1.5, 2.5}[r.IntN(7)]
	case typ == "string":
		return c13strings[r.IntN(len(c13strings))]
	case typ == "boolean":
		return r.IntN(2) == 0
	case typ == "null":
		return nil
	}
	return g.value(2)
}

func c13raw(v any) string {
	b, _ := json.Marshal(v)
	return string(b)
}

// ---------- the CUE side ----------
type c13cue struct {
	v      cue.Value
	src    string
	status string // ok | unsupported | compile-error
	err    string
}

func c13extract(ctx *cue.Context, schema any) c13cue {
	sb, _ := json.Marshal(schema)
	jast, err := cuejson.Extract("schema.json", sb)
	if err != nil {
		return c13cue{status: "unsupported", err: "json: " + err.Error()}
	}
	jv := ctx.BuildExpr(jast)
	sast, err := jsonschema.Extract(jv, &jsonschema.Config{StrictFeatures: true})
	if err != nil {
		return c13cue{status: "unsupported", err: err.Error()}
	}
	b, err := format.Node(sast, format.Simplify())
	if err != nil {
		return c13cue{status: "compile-error", err: "format: " + err.Error()}
	}
	sv := ctx.CompileBytes(b, cue.Filename("generated.cue"))
	if sv.Err() != nil {
		// a schema whose CUE value is an error rejects every instance; it is compared as such
		return c13cue{v: sv, src: string(b), status: "ok", err: sv.Err().Error()}
	}
	return c13cue{v: sv, src: string(b), status: "ok"}
}

func c13accepts(ctx *cue.Context, sv cue.Value, inst string) bool {
	iast, err := cuejson.Extract("instance.json", []byte(inst))
	if err != nil {
		return false
	}
	iv := ctx.BuildExpr(iast)
	return iv.Unify(sv).Validate(cue.Concrete(true)) == nil
}

// c13generate returns the JSON Schema generated back from the CUE value.
func c13generate(ctx *cue.Context, sv cue.Value) (any, error) {
	syn := sv.Syntax()
	data, err := format.Node(syn)
	if err != nil {
		return nil, err
	}
	sv2 := ctx.CompileBytes(data)
	gexpr, err := jsonschema.Generate(sv2, &jsonschema.GenerateConfig{Version: jsonschema.VersionDraft2020_12})
	if err != nil {
		return nil, err
	}
	gv := ctx.BuildExpr(gexpr)
	gb, err := gv.MarshalJSON()
	if err != nil {
		return nil, err
	}
	var sch any
	if err := json.Unmarshal(gb, &sch); err != nil {
		return nil, err
	}
	return sch, nil
}

// ---------- shrinking ----------
func c13clone(v any) any {
	b, _ := json.Marshal(v)
	var out any
	json.Unmarshal(b, &out)
	return c13norm(out)
}

// c13norm turns map[string]interface{} produced by encoding/json into c13M (same type; kept for symmetry).
func c13norm(v any) any { return v }

var c13schemaKeys = map[string]string{
	"properties": "map", "patternProperties": "map", "$defs": "map",
	"additionalProperties": "one", "items": "one", "contains": "one", "not": "one", "if": "one", "then": "one", "else": "one", "propertyNames": "one",
	"allOf": "list", "anyOf": "list", "oneOf": "list", "prefixItems": "list",
}

// c13candidates lists smaller variants of a schema.
func c13candidates(s any) []any {
	var out []any
	m, ok := s.(map[string]any)
	if !ok {
		return nil
	}
	// hoist a subschema (not below $defs, which would break references)
	for k, kind := range c13schemaKeys {
		v, ok := m[k]
		if !ok || k == "$defs" {
			continue
		}
		switch kind {
		case "one":
			out = append(out, c13clone(v))
		case "list":
			if l, ok := v.([]any); ok {
				for _, e := range l {
					out = append(out, c13clone(e))
				}
			}
		case "map":
			if mm, ok := v.(map[string]any); ok {
				for _, e := range mm {
					out = append(out, c13clone(e))
				}
			}
		}
	}
	keys := make([]string, 0, len(m))
	for k := range m {
		keys = append(keys, k)
	}
	sort.Strings(keys)
	// remove one keyword
	for _, k := range keys {
		if len(m) == 1 {
			break
		}
		c := c13clone(m).(map[string]any)
		delete(c, k)
		out = append(out, c)
	}
	// shrink inside
	for _, k := range keys {
		kind := c13schemaKeys[k]
		switch kind {
		case "one":
			if _, isBool := m[k].(bool); !isBool {
				c := c13clone(m).(map[string]any)
				c[k] = true
				out = append(out, c)
			}
			for _, sub := range c13candidates(m[k]) {
				c := c13clone(m).(map[string]any)
				c[k] = sub
				out = append(out, c)
			}
		case "list":
			l, _ := m[k].([]any)
			for i := range l {
				if len(l) > 1 {
					c := c13clone(m).(map[string]any)
					cl := c[k].([]any)
					c[k] = append(append([]any{}, cl[:i]...), cl[i+1:]...)
					out = append(out, c)
				}
				for _, sub := range c13candidates(l[i]) {
					c := c13clone(m).(map[string]any)
					c[k].([]any)[i] = sub
					out = append(out, c)
				}
				if _, isBool := l[i].(bool); !isBool {
					c := c13clone(m).(map[string]any)
					c[k].([]any)[i] = true
					out = append(out, c)
				}
			}
		case "map":
			mm, _ := m[k].(map[string]any)
			for name := range mm {
				c := c13clone(m).(map[string]any)
				delete(c[k].(map[string]any), name)
				out = append(out, c)
				for _, sub := range c13candidates(mm[name]) {
					c := c13clone(m).(map[string]any)
					c[k].(map[string]any)[name] = sub
					out = append(out, c)
				}
				if _, isBool := mm[name].(bool); !isBool {
					c := c13clone(m).(map[string]any)
					c[k].(map[string]any)[name] = true
					out = append(out, c)
				}
			}
		}
	}
	return out
}

func c13size(s any) int { return len(c13raw(s)) }

func c13keywords(s any, into map[string]bool) {
	switch v := s.(type) {
	case map[string]any:
		for k, e := range v {
			if k == "$schema" {
				continue
			}
			into[k] = true
			switch c13schemaKeys[k] {
			case "one":
				c13keywords(e, into)
			case "list":
				if l, ok := e.([]any); ok {
					for _, x := range l {
						c13keywords(x, into)
					}
				}
			case "map":
				if mm, ok := e.(map[string]any); ok {
					for _, x := range mm {
						c13keywords(x, into)
					}
				}
			}
			if k == "type" {
				switch t := e.(type) {
				case string:
					into["type:"+t] = true
				case []any:
					into["type:list"] = true
				}
			}
		}
	case bool:
		into[fmt.Sprintf("bool:%v", v)] = true
	}
}

func c13kwKey(s any) string {
	set := map[string]bool{}
	c13keywords(s, set)
	delete(set, "type")
	var ks []string
	for k := range set {
		ks = append(ks, k)
	}
	sort.Strings(ks)
	return strings.Join(ks, "+")
}

// c13shrink minimises schema while pred keeps holding.
func c13shrink(schema any, pred func(s any) bool) any {
	cur := c13clone(schema)
	for steps := 0; steps < 60; steps++ {
		improved := false
		cands := c13candidates(cur)
		raws := make(map[int]string, len(cands))
		idx := make([]int, len(cands))
		for i := range cands {
			raws[i] = c13raw(cands[i])
			idx[i] = i
		}
		sort.Slice(idx, func(a, b int) bool {
			ra, rb := raws[idx[a]], raws[idx[b]]
			if len(ra) != len(rb) {
				return len(ra) < len(rb)
			}
			return ra < rb
		})
		sorted := make([]any, len(cands))
		for i, j := range idx {
			sorted[i] = cands[j]
		}
		cands = sorted
		for _, cand := range cands {
			if c13size(cand) >= c13size(cur) {
				continue
			}
			if pred(cand) {
				cur = cand
				improved = true
				break
			}
		}
		if !improved {
			break
		}
	}
	return cur
}

// c13class names the recorded root cause a minimal disagreeing schema falls under ("" if none).
func c13class(min any, inst string, reverse bool, cueSays bool) string {
	kw := map[string]bool{}
	c13keywords(min, kw)
	src := ""
	func() {
		defer func() { recover() }()
		src = c13extract(cuecontext.New(), min).src
	}()
	switch {
	case c13instKind(inst) == "integral-float":
		return "integral-float-is-not-an-integer"
	case strings.Contains(src, `error("disallowed")`):
		return "false-subschema-as-validator-argument"
	case c13hasUnsat(min, true):
		return "unsatisfiable-subschema"
	case kw["propertyNames"]:
		return "propertyNames"
	case kw["prefixItems"]:
		return "prefixItems"
	case c13requiredEscapes(min):
		return "required-name-escapes-additionalProperties-false"
	case c13compositeEnum(min):
		return "enum-or-const-of-composite-value"
	case c13apNextToApplicator(min):
		return "additionalProperties-next-to-applicator"
	case kw["contains"]:
		return "contains"
	case !reverse && kw["$ref"]:
		return "ref-to-definition-closes-object"
	case reverse && kw["$defs"]:
		return "generate-with-definitions"
	case reverse && !cueSays:
		return "generate-more-permissive"
	case reverse && cueSays && (kw["not"] || kw["oneOf"]):
		return "generate-more-permissive-under-negation"
	}
	return ""
}

// c13sub calls f on every subschema of s (not s itself).
func c13sub(s any, f func(any)) {
	m, ok := s.(map[string]any)
	if !ok {
		return
	}
	for k, e := range m {
		switch c13schemaKeys[k] {
		case "one":
			f(e)
			c13sub(e, f)
		case "list":
			if l, ok := e.([]any); ok {
				for _, x := range l {
					f(x)
					c13sub(x, f)
				}
			}
		case "map":
			if mm, ok := e.(map[string]any); ok {
				for _, x := range mm {
					f(x)
					c13sub(x, f)
				}
			}
		}
	}
}

// c13logic calls f on every subschema in a logical applicator position (allOf anyOf oneOf not if then else).
func c13logic(s any, f func(any)) {
	m, ok := s.(map[string]any)
	if !ok {
		return
	}
	for k, e := range m {
		logic := k == "allOf" || k == "anyOf" || k == "oneOf" || k == "not" || k == "if" || k == "then" || k == "else"
		switch c13schemaKeys[k] {
		case "one":
			if logic {
				f(e)
			}
			c13logic(e, f)
		case "list":
			if l, ok := e.([]any); ok {
				for _, x := range l {
					if logic {
						f(x)
					}
					c13logic(x, f)
				}
			}
		case "map":
			if mm, ok := e.(map[string]any); ok {
				for _, x := range mm {
					c13logic(x, f)
				}
			}
		}
	}
}

// c13hasUnsat: some subschema is false or translates, on its own, to a CUE error value.
func c13hasUnsat(s any, top bool) bool {
	found := false
	c13logic(s, func(x any) {
		if found {
			return
		}
		if b, ok := x.(bool); ok {
			found = !b
			return
		}
		func() {
			defer func() { recover() }()
			cu := c13extract(cuecontext.New(), x)
			if cu.status == "ok" && cu.err != "" {
				found = true
			}
		}()
	})
	return found
}

func c13requiredEscapes(s any) bool {
	found := false
	check := func(x any) {
		m, ok := x.(map[string]any)
		if !ok {
			return
		}
		if ap, ok := m["additionalProperties"].(bool); !ok || ap {
			return
		}
		req, _ := m["required"].([]any)
		props, _ := m["properties"].(map[string]any)
		for _, r := range req {
			if name, ok := r.(string); ok {
				if _, ok := props[name]; !ok {
					found = true
				}
			}
		}
	}
	check(s)
	c13sub(s, check)
	return found
}

// c13apNextToApplicator: an object schema has additionalProperties and a logical applicator as siblings.
func c13apNextToApplicator(s any) bool {
	found := false
	check := func(x any) {
		m, ok := x.(map[string]any)
		if !ok {
			return
		}
		if _, ok := m["additionalProperties"]; !ok {
			return
		}
		for _, k := range []string{"allOf", "anyOf", "oneOf", "not", "if"} {
			if _, ok := m[k]; ok {
				found = true
			}
		}
	}
	check(s)
	c13sub(s, check)
	return found
}

func c13compositeEnum(s any) bool {
	found := false
	check := func(x any) {
		m, ok := x.(map[string]any)
		if !ok {
			return
		}
		comp := func(v any) bool {
			switch v.(type) {
			case map[string]any, []any:
				return true
			}
			return false
		}
		if v, ok := m["const"]; ok && comp(v) {
			found = true
		}
		if l, ok := m["enum"].([]any); ok {
			for _, v := range l {
				if comp(v) {
					found = true
				}
			}
		}
	}
	check(s)
	c13sub(s, check)
	return found
}

func c13kwCoarse(s any) string {
	set := map[string]bool{}
	c13keywords(s, set)
	var ks []string
	for k := range set {
		if k == "type" || strings.HasPrefix(k, "type:") || strings.HasPrefix(k, "bool:") {
			continue
		}
		ks = append(ks, k)
	}
	sort.Strings(ks)
	return strings.Join(ks, "+")
}

func c13instKind(inst string) string {
	var v any
	json.Unmarshal([]byte(inst), &v)
	switch x := v.(type) {
	case nil:
		return "null"
	case bool:
		return "bool"
	case float64:
		if x == float64(int64(x)) {
			if strings.ContainsAny(inst, ".eE") {
				return "integral-float"
			}
			return "int"
		}
		return "float"
	case string:
		return "string"
	case []any:
		return "array"
	default:
		return "object"
	}
}

func init() {
	register("C13", "exploration", func(c *Ctx) {
		c.Rule = "JSON Schemas (draft 2020-12) composed to depth <= 3 from type, enum, const, numeric/string bounds, multipleOf, pattern, properties, required, additionalProperties, patternProperties, propertyNames, min/maxProperties, items, prefixItems, min/maxItems, uniqueItems, contains, allOf/anyOf/oneOf/not, if/then/else, $defs/$ref, several keyword groups at one level; 14 instances per schema built by following the schema and perturbing it, plus random JSON; verdict of instance.Unify(cue(schema)).Validate(Concrete(true)) compared with python-jsonschema; then the schema generated back by jsonschema.Generate is given to the oracle and compared with the CUE verdicts. Disagreements are shrunk to a minimal schema for the same instance and keyed by its keyword set and direction. Non-trivial = schema with both valid and invalid instances."
		c.Assume = []string{"python-jsonschema 4.x Draft202012Validator is the reference; format assertions off; regular expressions restricted to ^a, b$, x$, ^[a-c]+$, ^[ab] (same meaning in RE2, Python and ECMA 262); numbers are integers and multiples of 0.5", "a schema the importer refuses (error at import time) is 'unsupported', never a violation; a schema whose generated CUE is an error value is compared as rejecting every instance"}
		pool, err := c13newPool(16)
		if err != nil {
			c.Inconclusive("cannot start the oracle processes: " + err.Error())
			return
		}
		defer pool.close()
		if c.Replay != nil {
			c.Inconclusive("replay: the violation file holds schema, instance and both verdicts; re-run with cue def json+jsonschema: schema.json")
			return
		}
		var mu sync.Mutex
		pairCov := map[string]bool{}
		var sampled bool
		listFile := os.Getenv("VERIF_C13_LIST")
		violate := func(key, what string, replay c13M) {
			if listFile != "" {
				mu.Lock()
				f, _ := os.OpenFile(listFile, os.O_APPEND|os.O_CREATE|os.O_WRONLY, 0o666)
				b, _ := json.Marshal(c13M{"key": key, "what": what, "replay": replay})
				f.Write(append(b, '\n'))
				f.Close()
				mu.Unlock()
				return
			}
			c.Violate(key, what, replay)
		}
		stream := func(name string, n int, seed int64, restricted bool) {
			c.Par(n, func(i int) {
				r := mon.RNG(seed, "C13", fmt.Sprintf("%s-%d", name, i))
				g := &c13gen{r: r, restricted: restricted}
				depth := 1 + r.IntN(3)
				schema := g.schema(depth)
				sm, isMap := schema.(c13M)
				if !isMap {
					sm = c13M{"allOf": []any{schema}}
				}
				sm["$schema"] = "https://json-schema.org/draft/2020-12/schema"
				var insts []string
				for j := 0; j < 14; j++ {
					switch {
					case j < 9:
						insts = append(insts, c13raw(g.instance(sm, sm, 3)))
					case j < 11 && len(g.atoms) > 0:
						insts = append(insts, g.atoms[r.IntN(len(g.atoms))])
					case j == 11 && !restricted:
						insts = append(insts, []string{"2.0", "0.0", "3.0", "1e0"}[r.IntN(4)])
					default:
						insts = append(insts, c13raw(g.value(2)))
					}
				}
				// normalise through JSON so that shrinking and the oracle see the same tree
				schemaN := c13clone(sm)
				src := c13raw(schemaN)
				defer mon.WAL(src)()
				ctx := cuecontext.New()
				var cu c13cue
				func() {
					defer func() {
						if rec := recover(); rec != nil {
							cu = c13cue{status: "panic", err: fmt.Sprint(rec)}
						}
					}()
					cu = c13extract(ctx, schemaN)
				}()
				c.Eval(1)
				switch cu.status {
				case "unsupported":
					c.Count("import_refused:"+c13errClass(cu.err), 1)
					return
				case "panic":
					c.Violate("C13|panic|"+c13errClass(cu.err), "panic during import: "+cu.err+"\n"+src, c13M{"schema": schemaN})
					return
				case "compile-error":
					c.Violate("C13|format|"+c13errClass(cu.err), "generated CUE cannot be formatted: "+cu.err+"\n"+src, c13M{"schema": schemaN})
					return
				}
				if cu.err != "" {
					c.Count("generated_cue_is_error_value", 1)
				}
				want, err := pool.ask(schemaN, insts)
				if err != nil {
					c.Count("oracle_process_failed_on_case", 1)
					return
				}
				if want[0] == nil {
					c.Count("oracle_refuses_schema", 1)
					return
				}
				kws := map[string]bool{}
				c13keywords(schemaN, kws)
				var kl []string
				for k := range kws {
					if !strings.HasPrefix(k, "type:") && !strings.HasPrefix(k, "bool:") {
						kl = append(kl, k)
					}
				}
				sort.Strings(kl)
				mu.Lock()
				for a := 0; a < len(kl); a++ {
					for b := a + 1; b < len(kl); b++ {
						pairCov[kl[a]+"&"+kl[b]] = true
					}
				}
				mu.Unlock()
				got := make([]bool, len(insts))
				nv, ni := 0, 0
				for j, inst := range insts {
					func() {
						defer func() {
							if rec := recover(); rec != nil {
								c.Violate("C13|panic-validate|"+c13errClass(fmt.Sprint(rec)), fmt.Sprintf("panic validating %s: %v\n%s", inst, rec, src), c13M{"schema": schemaN, "instance": inst})
							}
						}()
						got[j] = c13accepts(ctx, cu.v, inst)
					}()
					c.Count("verdicts", 1)
					if want[j] == nil {
						continue
					}
					if *want[j] {
						nv++
					} else {
						ni++
					}
					if got[j] != *want[j] {
						c.Count("forward_disagreements", 1)
						inst := inst
						wantJ := *want[j]
						min := c13shrink(schemaN, func(s any) bool {
							w, err := pool.ask(s, []string{inst})
							if err != nil || w[0] == nil || *w[0] != wantJ {
								return false
							}
							ok := false
							func() {
								defer func() { recover() }()
								cc := c13extract(cuecontext.New(), s)
								ok = cc.status == "ok" && c13accepts(cc.v.Context(), cc.v, inst) != wantJ
							}()
							return ok
						})
						key := fmt.Sprintf("C13|forward|%s|oracle=%v", c13kwCoarse(min), wantJ)
						if cl := c13class(min, inst, false, !wantJ); cl != "" {
							key = "C13|" + cl
							c.Count("finding:"+cl, 1)
						}
						violate(key, fmt.Sprintf("schema %s\ninstance %s: JSON Schema says valid=%v, generated CUE says %v\nminimal schema with the same disagreement: %s\ngenerated CUE: %s", src, inst, wantJ, got[j], c13raw(min), strings.ReplaceAll(cu.src, "\n", " ")), c13M{"schema": schemaN, "instance": inst, "minimal": min})
					}
				}
				if nv > 0 && ni > 0 {
					c.Nontrivial(src)
				}
				// reverse direction
				var gen any
				var gerr error
				func() {
					defer func() {
						if rec := recover(); rec != nil {
							gerr = fmt.Errorf("panic: %v", rec)
						}
					}()
					if cu.err != "" {
						gerr = fmt.Errorf("schema value is an error")
						return
					}
					gen, gerr = c13generate(ctx, cu.v)
				}()
				if gerr != nil {
					if strings.HasPrefix(gerr.Error(), "panic") {
						c.Violate("C13|panic-generate|"+c13errClass(gerr.Error()), "panic in jsonschema.Generate: "+gerr.Error()+"\n"+cu.src, c13M{"schema": schemaN})
					}
					c.Count("generate_refused:"+c13errClass(gerr.Error()), 1)
					return
				}
				c.Count("generated_back", 1)
				rev, err := pool.ask(gen, insts)
				if err != nil {
					c.Count("oracle_process_failed_on_case", 1)
					return
				}
				for j, inst := range insts {
					if rev[j] == nil {
						c.Count("oracle_refuses_generated_schema", 1)
						break
					}
					c.Count("reverse_verdicts", 1)
					if *rev[j] != got[j] {
						c.Count("reverse_disagreements", 1)
						inst := inst
						gotJ := got[j]
						min := c13shrink(schemaN, func(s any) bool {
							ok := false
							func() {
								defer func() { recover() }()
								ctx2 := cuecontext.New()
								cc := c13extract(ctx2, s)
								if cc.status != "ok" || cc.err != "" || c13accepts(ctx2, cc.v, inst) != gotJ {
									return
								}
								g2, err := c13generate(ctx2, cc.v)
								if err != nil {
									return
								}
								w, err := pool.ask(g2, []string{inst})
								ok = err == nil && w[0] != nil && *w[0] != gotJ
							}()
							return ok
						})
						key := fmt.Sprintf("C13|reverse|%s|cue=%v", c13kwCoarse(min), gotJ)
						if cl := c13class(min, inst, true, gotJ); cl != "" {
							key = "C13|" + cl
							c.Count("finding:"+cl, 1)
						}
						violate(key, fmt.Sprintf("schema %s\ninstance %s: CUE says valid=%v, the JSON Schema generated back says %v\nminimal schema with the same disagreement: %s\ngenerated back: %s", src, inst, gotJ, *rev[j], c13raw(min), c13raw(gen)), c13M{"schema": schemaN, "instance": inst, "minimal": min, "generated": gen})
					}
				}
				mu.Lock()
				if !sampled && nv > 0 && ni > 0 {
					sampled = true
					c.Sample(c13M{"schema": src, "instances": insts, "oracle_valid": nv, "oracle_invalid": ni, "cue": cu.src})
				}
				mu.Unlock()
			})
		}
		// the frozen stream does not depend on VERIF_SEED: the disagreement classes it produces on the pinned tree are
		// all recorded, a class that is not recorded is a violation
		stream("frozen", c.N(2500, 40000), 0, false)
		// the seed-dependent stream stays inside the fragment without recorded disagreements
		stream("fresh", c.N(2500, 60000), c.Seed, true)
		c.Set("keyword_pairs_covered", len(pairCov))
		c.Set("oracle_restarts", pool.restarts)
		if pool.restarts > 50 {
			c.Inconclusive(fmt.Sprintf("the oracle process failed %d times", pool.restarts))
		}
	})
}

func c13errClass(s string) string {
	s = strings.TrimSpace(s)
	if i := strings.IndexByte(s, '\n'); i >= 0 {
		s = s[:i]
	}
	// drop positions and quoted specifics
	var b strings.Builder
	inQ := false
	for _, r := range s {
		switch {
		case r == '"':
			inQ = !inQ
			b.WriteByte('"')
		case inQ:
		case r >= '0' && r <= '9':
			b.WriteByte('N')
		default:
			b.WriteRune(r)
		}
	}
	out := b.String()
	if len(out) > 90 {
		out = out[:90]
	}
	return out
}
