package main

// C14 – the module graph cue builds from a list of root modules (internal/mod/modrequirements): the build list holds,
// for every module, the maximum of the versions named by the main module and by every listed root version – also by
// a root version that is itself superseded by a higher root of the same module – and nothing else.

import (
	"context"
	"fmt"
	"math/rand/v2"
	"sort"
	"strings"

	"cuelang.org/go/internal/mod/modrequirements"
	"cuelang.org/go/internal/mod/semver"
	"cuelang.org/go/mod/modfile"
	"cuelang.org/go/mod/module"
)

type c14reg map[string][]string // "path@version" -> deps ("path@version")

func (r c14reg) ModFile(ctx context.Context, mv module.Version) (*modfile.File, error) {
	deps, ok := r[mv.String()]
	if !ok {
		return nil, fmt.Errorf("module %v not found", mv)
	}
	var sb strings.Builder
	fmt.Fprintf(&sb, "module: %q\nlanguage: version: \"v0.8.0\"\n", mv.Path())
	if len(deps) > 0 {
		sb.WriteString("deps: {\n")
		for _, d := range deps {
			dv := module.MustParseVersion(d)
			fmt.Fprintf(&sb, "\t%q: v: %q\n", dv.Path(), dv.Version())
		}
		sb.WriteString("}\n")
	}
	return modfile.Parse([]byte(sb.String()), mv.String())
}

// c14reqCase builds a universe, a sorted root list (possibly with several versions of one module) and checks
// the build list against the closure over the listed roots.
func c14reqCase(c *Ctx, r *rand.Rand) {
	nm := 2 + r.IntN(4)
	vers := []string{"v0.1.0", "v0.2.0", "v0.2.1-pre", "v0.3.0", "v0.10.0"}
	reg := c14reg{}
	var all []string
	for m := 0; m < nm; m++ {
		for _, v := range vers {
			all = append(all, fmt.Sprintf("m%d.example@%s", m, v))
		}
	}
	for _, mv := range all {
		var deps []string
		seen := map[string]bool{mv[:strings.Index(mv, "@")]: true}
		for k := 0; k < r.IntN(3); k++ {
			d := all[r.IntN(len(all))]
			p := d[:strings.Index(d, "@")]
			if !seen[p] {
				seen[p] = true
				deps = append(deps, d)
			}
		}
		reg[mv] = deps
	}
	// roots: 1-5 module versions, often two versions of the same module
	rootSet := map[string]bool{}
	for k := 0; k < 1+r.IntN(5); k++ {
		rootSet[all[r.IntN(len(all))]] = true
	}
	if r.IntN(2) == 0 {
		for x := range rootSet {
			p := x[:strings.Index(x, "@")]
			rootSet[p+"@"+vers[r.IntN(len(vers))]] = true
			break
		}
	}
	var roots []module.Version
	for x := range rootSet {
		roots = append(roots, module.MustParseVersion(x))
	}
	module.Sort(roots)
	dup := false
	for i := 1; i < len(roots); i++ {
		dup = dup || roots[i].Path() == roots[i-1].Path()
	}
	var names []string
	for _, m := range roots {
		names = append(names, m.String())
	}
	key := "C14|modrequirements|" + strings.Join(names, ",")
	rs := modrequirements.NewRequirements("main.example@v0", reg, roots, nil)
	mg, err := rs.Graph(context.Background())
	c.Eval(1)
	c.Count("modrequirements_graphs", 1)
	if dup {
		c.Count("modrequirements_graphs_with_two_versions_of_a_root", 1)
	}
	rp := map[string]any{"roots": names, "registry": reg}
	if err != nil {
		c.Violate(key, "Requirements.Graph fails on a consistent universe: "+err.Error(), rp)
		return
	}
	want := map[string]string{}
	up := func(m module.Version) {
		if v, ok := want[m.Path()]; !ok || semver.Compare(v, m.Version()) < 0 {
			want[m.Path()] = m.Version()
		}
	}
	for _, m := range roots {
		up(m)
		for _, d := range reg[m.String()] {
			up(module.MustParseVersion(d))
		}
	}
	got := map[string]string{}
	for _, m := range mg.BuildList()[1:] {
		if _, twice := got[m.Path()]; twice {
			c.Violate(key, "module "+m.Path()+" occurs twice in the build list", rp)
			return
		}
		got[m.Path()] = m.Version()
	}
	var diffs []string
	for p, v := range want {
		if got[p] != v {
			diffs = append(diffs, fmt.Sprintf("%s: selected %q, the maximum required along a reachable path is %q", p, got[p], v))
		}
	}
	for p, v := range got {
		if _, ok := want[p]; !ok {
			diffs = append(diffs, fmt.Sprintf("%s@%s selected but not required by the main module or a listed module", p, v))
		}
	}
	for _, m := range roots {
		if _, ok := mg.RequiredBy(m); !ok {
			diffs = append(diffs, "the requirements of the listed module "+m.String()+" were not loaded")
		}
		if sel := mg.Selected(m.Path()); sel != want[m.Path()] {
			diffs = append(diffs, fmt.Sprintf("Selected(%s) = %q, want %q", m.Path(), sel, want[m.Path()]))
		}
	}
	if len(diffs) > 0 {
		sort.Strings(diffs)
		c.Violate(key, "build list of roots "+strings.Join(names, " ")+": "+strings.Join(diffs, "; "), rp)
		return
	}
	if len(want) > len(roots) || dup {
		c.Nontrivial(key)
	}
}
