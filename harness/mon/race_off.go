//go:build !race

package mon

// RaceEnabled reports whether the binary was built with the race detector.
const RaceEnabled = false
