// Package mon holds what every monitor shares: seeded PRNG streams,
// three-valued verdicts, the evidence writer, the known-findings matcher
// and the violation (witness) writer.
package mon

import (
	"crypto/sha256"
	"encoding/binary"
	"encoding/hex"
	"encoding/json"
	"fmt"
	"math/rand/v2"
	"os"
	"path/filepath"
	"sort"
	"strings"
	"sync"
	"time"
)

// Root is the /verif directory (overridable for tests through VERIF_ROOT).
func Root() string {
	if r := os.Getenv("VERIF_ROOT"); r != "" {
		return r
	}
	return "/verif"
}

// RNG returns a PRNG determined by (seed, property, stream).
func RNG(seed int64, prop, stream string) *rand.Rand {
	h := sha256.Sum256([]byte(fmt.Sprintf("%d|%s|%s", seed, prop, stream)))
	return rand.New(rand.NewPCG(binary.LittleEndian.Uint64(h[:8]), binary.LittleEndian.Uint64(h[8:16])))
}

// Hash returns a short hex digest of s.
func Hash(s string) string {
	h := sha256.Sum256([]byte(s))
	return hex.EncodeToString(h[:8])
}

// Finding is one line of known_findings.jsonl.
type Finding struct {
	Status   string `json:"status"` // "open" or "fixed"
	Property string `json:"property"`
	Key      string `json:"key"`  // what a violation key must equal to be matched
	What     string `json:"what"` // human description
	Commit   string `json:"commit,omitempty"`
	Witness  any    `json:"witness,omitempty"`
}

// Run collects the outcome of one check run.
type Run struct {
	Prop   string
	Tier   string
	Seed   int64
	Level  string
	start  time.Time
	mu     sync.Mutex
	evals  int64
	nontr  map[string]struct{}
	nontrN int64 // used when distinctness is counted by caller
	Rule   string
	Assume []string

	samples    []any
	maxSamples int
	counters   map[string]int64
	extra      map[string]any

	findings   []Finding
	seenKnown  map[string]bool
	violations []Violation
	inconcl    []string
	MinNontriv int64
}

type Violation struct {
	Key    string `json:"key"`
	What   string `json:"what"`
	Replay any    `json:"replay"`
	Path   string `json:"-"`
}

func NewRun(prop, tier string, seed int64, level string) *Run {
	r := &Run{Prop: prop, Tier: tier, Seed: seed, Level: level, start: time.Now(),
		nontr: map[string]struct{}{}, counters: map[string]int64{}, extra: map[string]any{},
		seenKnown: map[string]bool{}, maxSamples: 6, MinNontriv: 2}
	r.loadFindings()
	return r
}

func (r *Run) loadFindings() {
	data, err := os.ReadFile(filepath.Join(Root(), "known_findings.jsonl"))
	if err != nil {
		return
	}
	for _, line := range strings.Split(string(data), "\n") {
		line = strings.TrimSpace(line)
		if line == "" || strings.HasPrefix(line, "#") || strings.HasPrefix(line, "fixed:") {
			continue
		}
		var f Finding
		if err := json.Unmarshal([]byte(line), &f); err != nil {
			fmt.Fprintf(os.Stderr, "known_findings.jsonl: bad line: %v\n", err)
			continue
		}
		if f.Property == r.Prop {
			r.findings = append(r.findings, f)
		}
	}
}

// IsKnown reports whether key is the key of an open finding.
func (r *Run) IsKnown(key string) bool {
	for _, f := range r.findings {
		if f.Status == "open" && f.Key == key {
			return true
		}
	}
	return false
}

// OpenFindings returns the open (unfixed) findings of this property.
func (r *Run) OpenFindings() []Finding {
	var out []Finding
	for _, f := range r.findings {
		if f.Status == "open" {
			out = append(out, f)
		}
	}
	return out
}

// Eval counts n executed cases.
func (r *Run) Eval(n int) {
	r.mu.Lock()
	r.evals += int64(n)
	r.mu.Unlock()
}

// Nontrivial records a distinct non-trivial case by its identity key.
func (r *Run) Nontrivial(key string) {
	r.mu.Lock()
	if len(r.nontr) < 2_000_000 {
		r.nontr[Hash(key)] = struct{}{}
	} else if _, ok := r.nontr[Hash(key)]; !ok {
		r.nontrN++
	}
	r.mu.Unlock()
}

// NontrivialN counts n non-trivial cases that are distinct by construction
// (e.g. members of an enumeration).
func (r *Run) NontrivialN(n int64) {
	r.mu.Lock()
	r.nontrN += n
	r.mu.Unlock()
}

func (r *Run) Count(name string, n int64) {
	r.mu.Lock()
	r.counters[name] += n
	r.mu.Unlock()
}

func (r *Run) Max(name string, n int64) {
	r.mu.Lock()
	if n > r.counters[name] {
		r.counters[name] = n
	}
	r.mu.Unlock()
}

func (r *Run) Counter(name string) int64 {
	r.mu.Lock()
	defer r.mu.Unlock()
	return r.counters[name]
}

func (r *Run) Set(name string, v any) {
	r.mu.Lock()
	r.extra[name] = v
	r.mu.Unlock()
}

// Sample keeps a few actual cases verbatim for the evidence file.
func (r *Run) Sample(v any) {
	r.mu.Lock()
	if len(r.samples) < r.maxSamples {
		r.samples = append(r.samples, v)
	}
	r.mu.Unlock()
}

// Inconclusive records a reason why the run cannot decide.
func (r *Run) Inconclusive(reason string) {
	r.mu.Lock()
	r.inconcl = append(r.inconcl, reason)
	r.mu.Unlock()
}

// Violate reports a violation identified by key. If an open known finding
// has exactly this key it is reported as KNOWN-FINDING instead.
func (r *Run) Violate(key, what string, replay any) {
	r.mu.Lock()
	defer r.mu.Unlock()
	for _, f := range r.findings {
		if f.Status == "open" && f.Key == key {
			if !r.seenKnown[key] {
				r.seenKnown[key] = true
				fmt.Printf("KNOWN-FINDING: property=%s %s\n", r.Prop, f.What)
			}
			return
		}
	}
	for _, v := range r.violations {
		if v.Key == key {
			return
		}
	}
	if len(r.violations) >= maxViolations() {
		r.counters["violations_not_written"]++
		return
	}
	v := Violation{Key: key, What: what, Replay: replay}
	dir := filepath.Join(Root(), "violations", r.Prop)
	if d := os.Getenv("VERIF_VIOLATIONS"); d != "" {
		dir = filepath.Join(d, r.Prop)
	}
	os.MkdirAll(dir, 0o777)
	v.Path = filepath.Join(dir, Hash(key)+".json")
	data, _ := json.MarshalIndent(map[string]any{
		"property": r.Prop, "key": key, "what": what, "seed": r.Seed, "tier": r.Tier, "replay": replay,
	}, "", " ")
	os.WriteFile(v.Path, data, 0o666)
	r.violations = append(r.violations, v)
	fmt.Printf("VIOLATION property=%s replay=%s\n", r.Prop, v.Path)
	fmt.Printf("  what: %s\n", trunc(what, 600))
}

func maxViolations() int {
	if os.Getenv("VERIF_MAXVIOL") != "" {
		var n int
		fmt.Sscan(os.Getenv("VERIF_MAXVIOL"), &n)
		return n
	}
	return 25
}

func trunc(s string, n int) string {
	if len(s) > n {
		return s[:n] + "…"
	}
	return s
}

// Violations returns the number of (new) violations so far.
func (r *Run) Violations() int {
	r.mu.Lock()
	defer r.mu.Unlock()
	return len(r.violations)
}

// Finish writes the evidence file and returns the process exit code:
// 0 held, 1 violated, 5 inconclusive (2 is what a crashing Go runtime exits with).
func (r *Run) Finish() int {
	r.mu.Lock()
	defer r.mu.Unlock()
	distinct := int64(len(r.nontr)) + r.nontrN
	if distinct < r.MinNontriv {
		r.inconcl = append(r.inconcl, fmt.Sprintf("observed only %d distinct non-trivial cases (floor %d)", distinct, r.MinNontriv))
	}
	cov := map[string]any{
		"evaluations":         r.evals,
		"distinct_nontrivial": distinct,
		"rule":                r.Rule,
		"samples":             r.samples,
	}
	names := make([]string, 0, len(r.counters))
	for k := range r.counters {
		names = append(names, k)
	}
	sort.Strings(names)
	cnt := map[string]int64{}
	for _, k := range names {
		cnt[k] = r.counters[k]
	}
	cov["counters"] = cnt
	for k, v := range r.extra {
		cov[k] = v
	}
	known := []string{}
	for k := range r.seenKnown {
		known = append(known, k)
	}
	sort.Strings(known)
	cov["known_findings_reproduced"] = known
	verdict := "held"
	code := 0
	if len(r.violations) > 0 {
		verdict, code = "violated", 1
	} else if len(r.inconcl) > 0 {
		verdict, code = "inconclusive", 5
	}
	cov["verdict"] = verdict
	if len(r.inconcl) > 0 {
		cov["inconclusive_reasons"] = r.inconcl
	}
	if len(r.samples) == 0 {
		cov["samples"] = []any{"(none recorded)"}
	}
	ev := map[string]any{
		"property_id": r.Prop,
		"tier":        r.Tier,
		"seed":        r.Seed,
		"level":       r.Level,
		"coverage":    cov,
		"assumptions": r.Assume,
		"wall_s":      time.Since(r.start).Seconds(),
		"violations":  len(r.violations),
	}
	data, _ := json.MarshalIndent(ev, "", " ")
	path := os.Getenv("VERIF_EVIDENCE")
	if path == "" {
		path = filepath.Join(Root(), "evidence", r.Prop+".json")
	}
	os.MkdirAll(filepath.Dir(path), 0o777)
	if err := os.WriteFile(path, data, 0o666); err != nil {
		fmt.Fprintf(os.Stderr, "cannot write evidence: %v\n", err)
	}
	for _, reason := range r.inconcl {
		fmt.Printf("INCONCLUSIVE property=%s reason=%s\n", r.Prop, reason)
	}
	fmt.Printf("%s %s tier=%s seed=%d evaluations=%d distinct_nontrivial=%d violations=%d known=%d wall=%.1fs\n",
		r.Prop, verdict, r.Tier, r.Seed, r.evals, distinct, len(r.violations), len(known), time.Since(r.start).Seconds())
	return code
}

// WAL writes an input to the run directory before the code under test touches it and
// returns the function that removes it again.  If the process dies with a fatal error
// (which recover cannot intercept), the files left behind are the inputs that were in
// flight; the check script attaches them to the crash violation.
func WAL(input string) func() {
	dir := os.Getenv("VERIF_RUNDIR")
	if dir == "" {
		return func() {}
	}
	dir = filepath.Join(dir, "wal")
	os.MkdirAll(dir, 0o777)
	p := filepath.Join(dir, Hash(input))
	if err := os.WriteFile(p, []byte(input), 0o666); err != nil {
		return func() {}
	}
	return func() { os.Remove(p) }
}
