package mon

import (
	"fmt"
	"os"
	"path/filepath"
	"regexp"
	"sort"
	"strings"
)

// RaceReport is one "WARNING: DATA RACE" block of a GORACE log.
type RaceReport struct {
	Text   string
	Stacks [][]string // function names per stack (first two stacks are the conflicting accesses)
}

var frameRe = regexp.MustCompile(`^  ([^\s].*)\(.*\)$|^  ([^\s(]+)$`)

// ParseRaceLogs reads every file matching prefix* and splits it into reports.
func ParseRaceLogs(prefix string) []RaceReport {
	files, _ := filepath.Glob(prefix + "*")
	sort.Strings(files)
	var out []RaceReport
	for _, f := range files {
		data, err := os.ReadFile(f)
		if err != nil {
			continue
		}
		blocks := strings.Split(string(data), "==================")
		for _, b := range blocks {
			if !strings.Contains(b, "WARNING: DATA RACE") {
				continue
			}
			rep := RaceReport{Text: strings.TrimSpace(b)}
			var cur []string
			flush := func() {
				if cur != nil {
					rep.Stacks = append(rep.Stacks, cur)
					cur = nil
				}
			}
			for _, line := range strings.Split(b, "\n") {
				switch {
				case strings.HasPrefix(line, "      "): // file:line
				case strings.HasPrefix(line, "  ") && !strings.HasPrefix(line, "   "):
					fn := strings.TrimSpace(line)
					if i := strings.LastIndexByte(fn, '('); i > 0 { // "pkg.(*T).M()": the argument list is the last "("
						fn = fn[:i]
					}
					if cur == nil {
						cur = []string{}
					}
					cur = append(cur, fn)
				default:
					flush()
				}
			}
			flush()
			out = append(out, rep)
		}
	}
	return out
}

// Key is the de-duplication key: the innermost cuelang.org/go frames (up to
// three) of the two conflicting accesses, order-insensitive, no line numbers.
func (r RaceReport) Key() string {
	var parts []string
	for i, st := range r.Stacks {
		if i >= 2 {
			break
		}
		var fr []string
		for _, f := range st {
			if strings.Contains(f, "cuelang.org/go/") && !strings.Contains(f, "cuelang.org/go/verifh/") {
				fr = append(fr, f)
				if len(fr) == 3 {
					break
				}
			}
		}
		parts = append(parts, strings.Join(fr, "<"))
	}
	sort.Strings(parts)
	return strings.Join(parts, " || ")
}

// TouchesCue reports whether one of the two conflicting accesses happens in
// cuelang.org/go code: the innermost frame of the access that is neither the
// Go runtime/standard library nor the harness lies in cuelang.org/go.  A race
// whose both accesses are made by harness code (even when called back from
// cue, e.g. inside a Runner) is a harness bug.
func (r RaceReport) TouchesCue() bool {
	for i, st := range r.Stacks {
		if i >= 2 {
			break
		}
		for _, f := range st {
			if strings.Contains(f, "cuelang.org/go/verifh/") || strings.HasPrefix(f, "main.") {
				break // the access itself is harness code
			}
			if strings.Contains(f, "cuelang.org/go/") {
				return true
			}
			// runtime / standard library / third-party frame: look further out
		}
	}
	return false
}

// CheckRaceLogs turns the race reports under prefix into violations
// (cue frames) or an inconclusive verdict (harness-only races).
func (r *Run) CheckRaceLogs(prefix string) { r.CheckRaceLogsAs(prefix, "") }

// RaceClass, if set, maps the stack-pair key of a report to the key of a recorded root cause ("" = none).
var RaceClass func(stackPair string) string

// CheckRaceLogsAs is CheckRaceLogs with one violation key for every report (a recorded root cause shared by all
// processes that log under prefix); key "" keys every report by its stack pair.
func (r *Run) CheckRaceLogsAs(prefix, key string) {
	reps := ParseRaceLogs(prefix)
	r.Count("race_reports", int64(len(reps)))
	seen := map[string]bool{}
	for _, rep := range reps {
		if !rep.TouchesCue() {
			r.Inconclusive("data race inside the harness itself: " + trunc(rep.Text, 300))
			continue
		}
		k := rep.Key()
		if seen[k] {
			continue
		}
		seen[k] = true
		if key == "" && RaceClass != nil {
			if ck := RaceClass(k); ck != "" {
				r.Count("race_reports_attributed_to:"+ck, 1)
				r.Violate(ck, "data race: "+k, map[string]any{"race_report": trunc(rep.Text, 6000)})
				continue
			}
		}
		if key != "" {
			r.Count("race_reports_attributed_to:"+key, 1)
			r.Violate(key, "data race: "+k, map[string]any{"race_report": trunc(rep.Text, 6000)})
			continue
		}
		r.Violate(r.Prop+"|race|"+k, "data race: "+k, map[string]any{"race_report": trunc(rep.Text, 6000)})
	}
	r.Count("race_distinct_stack_pairs", int64(len(seen)))
	r.Set("race_detector", RaceEnabled)
	if !RaceEnabled {
		r.Inconclusive("binary built without -race")
	}
}

// RaceLogPrefix returns the GORACE log_path prefix of this run ("" if unset).
func RaceLogPrefix() string {
	for _, kv := range strings.Fields(os.Getenv("GORACE")) {
		if v, ok := strings.CutPrefix(kv, "log_path="); ok {
			return v
		}
	}
	return ""
}

var _ = fmt.Sprint
