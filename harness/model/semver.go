// Package model holds small executable reference models written from
// specifications, not from the implementation under test.
package model

import (
	"math/big"
	"strings"
)

// SemVer is an independent model of Semantic Versioning 2.0.0 (§2, §9, §10,
// §11) with the Go-style leading "v" and the shorthand forms vMAJOR and
// vMAJOR.MINOR that cue's semver package documents (no pre-release or build
// suffix allowed on shorthands).
type SemVer struct {
	Nums [3]*big.Int
	Pre  []string
	OK   bool
}

func isDigits(s string) bool {
	if s == "" {
		return false
	}
	for _, c := range s {
		if c < '0' || c > '9' {
			return false
		}
	}
	return true
}

func validNumField(s string) bool { return isDigits(s) && (s == "0" || s[0] != '0') }

func identOK(s string) bool {
	if s == "" {
		return false
	}
	for _, c := range s {
		if !(c >= '0' && c <= '9' || c >= 'a' && c <= 'z' || c >= 'A' && c <= 'Z' || c == '-') {
			return false
		}
	}
	return true
}

// ParseSemVer parses v; OK is false for invalid versions.
func ParseSemVer(v string) SemVer {
	if !strings.HasPrefix(v, "v") {
		return SemVer{}
	}
	v = v[1:]
	hasBuild := false
	if i := strings.IndexByte(v, '+'); i >= 0 {
		b := v[i+1:]
		v = v[:i]
		hasBuild = true
		for _, id := range strings.Split(b, ".") {
			if !identOK(id) {
				return SemVer{}
			}
		}
	}
	pre := ""
	hasPre := false
	if i := strings.IndexByte(v, '-'); i >= 0 {
		pre = v[i+1:]
		v = v[:i]
		hasPre = true
	}
	parts := strings.Split(v, ".")
	if len(parts) > 3 || ((hasPre || hasBuild) && len(parts) != 3) {
		return SemVer{}
	}
	var out SemVer
	for i := 0; i < 3; i++ {
		out.Nums[i] = big.NewInt(0)
	}
	for i, p := range parts {
		if !validNumField(p) {
			return SemVer{}
		}
		out.Nums[i].SetString(p, 10)
	}
	if hasPre {
		for _, id := range strings.Split(pre, ".") {
			if !identOK(id) || (isDigits(id) && !validNumField(id)) {
				return SemVer{}
			}
			out.Pre = append(out.Pre, id)
		}
	}
	out.OK = true
	return out
}

// CompareSemVer orders versions by SemVer 2.0 precedence; invalid versions
// are equal to each other and below every valid version.
func CompareSemVer(a, b string) int {
	x, y := ParseSemVer(a), ParseSemVer(b)
	if !x.OK && !y.OK {
		return 0
	}
	if !x.OK {
		return -1
	}
	if !y.OK {
		return 1
	}
	for i := 0; i < 3; i++ {
		if c := x.Nums[i].Cmp(y.Nums[i]); c != 0 {
			return c
		}
	}
	if len(x.Pre) == 0 && len(y.Pre) == 0 {
		return 0
	}
	if len(x.Pre) == 0 {
		return 1
	}
	if len(y.Pre) == 0 {
		return -1
	}
	for i := 0; i < len(x.Pre) && i < len(y.Pre); i++ {
		p, q := x.Pre[i], y.Pre[i]
		if p == q {
			continue
		}
		pn, qn := isDigits(p), isDigits(q)
		switch {
		case pn && qn:
			pi, _ := new(big.Int).SetString(p, 10)
			qi, _ := new(big.Int).SetString(q, 10)
			return pi.Cmp(qi)
		case pn:
			return -1
		case qn:
			return 1
		default:
			return strings.Compare(p, q)
		}
	}
	switch {
	case len(x.Pre) < len(y.Pre):
		return -1
	case len(x.Pre) > len(y.Pre):
		return 1
	}
	return 0
}
