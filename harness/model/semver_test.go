package model

import "testing"

// Examples from semver.org §11 and §9/§10.
func TestSemVerSpecExamples(t *testing.T) {
	chain := []string{"v1.0.0-alpha", "v1.0.0-alpha.1", "v1.0.0-alpha.beta", "v1.0.0-beta", "v1.0.0-beta.2", "v1.0.0-beta.11", "v1.0.0-rc.1", "v1.0.0", "v2.0.0", "v2.1.0", "v2.1.1"}
	for i := range chain {
		for j := range chain {
			want := 0
			if i < j {
				want = -1
			} else if i > j {
				want = 1
			}
			if got := CompareSemVer(chain[i], chain[j]); got != want {
				t.Errorf("Compare(%s,%s)=%d want %d", chain[i], chain[j], got, want)
			}
		}
	}
	if CompareSemVer("v1.0.0+a", "v1.0.0+b.c") != 0 || CompareSemVer("v1.0.0-x+a", "v1.0.0-x") != 0 {
		t.Error("build metadata must be ignored")
	}
	valid := []string{"v1.0.0-alpha+001", "v1.0.0+20130313144700", "v1.0.0-beta+exp.sha.5114f85", "v1.0.0+21AF26D3----117B344092BD", "v1.0.0-0.3.7", "v1.0.0-x.7.z.92", "v1.0.0-x-y-z.--", "v1", "v1.2"}
	for _, v := range valid {
		if !ParseSemVer(v).OK {
			t.Errorf("%s should be valid", v)
		}
	}
	invalid := []string{"1.0.0", "v01.0.0", "v1.0.0-01", "v1.0.0-", "v1.0.0-a..b", "v1.0.0+", "v1.0.0-a_b", "v1.0-x", "v1+b", "v1.2.3.4", "v", "v1.", ""}
	for _, v := range invalid {
		if ParseSemVer(v).OK {
			t.Errorf("%s should be invalid", v)
		}
	}
}
